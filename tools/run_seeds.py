#!/usr/bin/env python3
"""tools/run_seeds.py [name-prefix ...]  -- re-validate the seeded regressions under /verif/seeded.

For each seeded/<name>/ (patch.diff, demo.py, meta.json with "checks": [ids]):
  1. fresh scratch worktree of /repo HEAD (under /tmp, removed afterwards): demo exits 0 on pristine;
     patch applies; the repository's test suite passes with it; demo exits 1 with it
  2. the patch is applied to /repo itself, the listed checks run (quick tier), the patch is undone
Results go to seeded/<name>/result.json and a summary line per seed."""
import json
import subprocess
import sys
from pathlib import Path

VERIF = Path("/verif")
REPO = "/repo"
PY = "/venv/bin/python"


def sh(cmd, **kw):
    return subprocess.run(cmd, shell=isinstance(cmd, str), stdout=subprocess.PIPE, stderr=subprocess.STDOUT,
                          text=True, **kw)


def main():
    names = sys.argv[1:]
    seeds = sorted(p for p in (VERIF / "seeded").iterdir() if p.is_dir()
                   and (not names or any(p.name.startswith(n) for n in names)))
    summary = []
    for sd in seeds:
        meta = json.loads((sd / "meta.json").read_text()) if (sd / "meta.json").exists() else {}
        if meta.get("obsolete"):
            summary.append(f"{sd.name}: obsolete ({meta['obsolete'][:80]}...)")
            print(summary[-1], flush=True)
            continue
        checks = meta.get("checks") or meta.get("caught_by") or [meta.get("property", sd.name[:3])]
        wt = f"/tmp/seedchk_{sd.name}"
        sh(f"git -C {REPO} worktree remove --force {wt}")
        assert sh(f"git -C {REPO} worktree add -q --detach {wt} HEAD").returncode == 0
        res = dict(name=sd.name, repo_head=sh(f"git -C {REPO} rev-parse --short HEAD").stdout.strip())
        try:
            env = f"PYTHONPATH={wt}/src"
            res["demo_pristine_exit"] = sh(f"{env} {PY} -B -W ignore {sd}/demo.py {wt}", timeout=900).returncode
            ap = sh(f"git -C {wt} apply {sd}/patch.diff")
            res["patch_applies"] = ap.returncode == 0
            if not res["patch_applies"]:
                res["apply_error"] = ap.stdout[-500:]
            else:
                t = sh(f"cd {wt} && {env} {PY} -m pytest -q -p no:cacheprovider 2>&1 | tail -1", timeout=1800)
                res["tests_with_patch"] = t.stdout.strip()
                res["demo_patched_exit"] = sh(f"{env} {PY} -B -W ignore {sd}/demo.py {wt}", timeout=900).returncode
        finally:
            sh(f"git -C {REPO} worktree remove --force {wt}")
        res["checks"] = {}
        if res.get("patch_applies"):
            assert sh(f"git -C {REPO} apply {sd}/patch.diff").returncode == 0
            try:
                for c in checks:
                    out = sh(f"cd {VERIF} && ./check {c} --tier quick", timeout=3000).stdout
                    lines = [l for l in out.splitlines() if l.startswith(("VIOLATION", "KNOWN-FINDING"))]
                    viol = [l for l in lines if l.startswith("VIOLATION")]
                    res["checks"][c] = dict(
                        violations=len(viol),
                        with_failing_input=sum(1 for l in viol if "no-failing-input-found" not in l),
                        first=(viol[0] if viol else "no violation reported"))
            finally:
                sh(f"git -C {REPO} checkout -- .")
        dirty = sh(f"git -C {REPO} status --short").stdout.strip()
        res["repo_clean_after"] = dirty == ""
        caught = [c for c, v in res["checks"].items() if v["violations"]]
        caught_input = [c for c, v in res["checks"].items() if v["with_failing_input"]]
        res["caught_by"] = caught
        res["caught_with_failing_input_by"] = caught_input
        (sd / "result.json").write_text(json.dumps(res, indent=1))
        line = (f"{sd.name}: applies={res.get('patch_applies')} tests={res.get('tests_with_patch','-')[:12]} "
                f"demo={res.get('demo_pristine_exit')}/{res.get('demo_patched_exit')} caught={caught} "
                f"with_input={caught_input}")
        print(line, flush=True)
        summary.append(line)
    (VERIF / "seeded" / "SUMMARY.txt").write_text("\n".join(summary) + "\n")


if __name__ == "__main__":
    main()
