#!/bin/bash
# tools/try_seed.sh <seed-name> <demo-dir> <check ids...>
# 1. confirm in a fresh scratch worktree: tests pass with the patch, demo fails with it and passes without
# 2. apply the patch to /repo, run the given checks (quick), undo
# keeps /verif/seeded/<seed-name>/{patch.diff,demo.py,meta.json(partial)}
name=$1; demo=$2; shift 2
dest=/verif/seeded/$name
mkdir -p $dest
cp $demo/patch.diff $dest/patch.diff
cp $demo/demo.py $dest/demo.py
wt=/tmp/seedchk_$name
git -C /repo worktree remove --force $wt 2>/dev/null
git -C /repo worktree add -q --detach $wt HEAD || exit 2
echo "== demo on pristine HEAD (expect exit 0)"
PYTHONPATH=$wt/src /venv/bin/python -B -W ignore $dest/demo.py $wt > $dest/demo_pristine.log 2>&1; echo "exit $?" | tee -a $dest/demo_pristine.log
echo "== apply patch"
git -C $wt apply $dest/patch.diff || { echo "PATCH DOES NOT APPLY"; git -C /repo worktree remove --force $wt; exit 3; }
echo "== test suite with patch (expect 69 passed)"
(cd $wt && PYTHONPATH=$wt/src /venv/bin/python -m pytest -q -p no:cacheprovider 2>&1 | tail -1) | tee $dest/tests_with_patch.log
echo "== demo with patch (expect exit 1)"
PYTHONPATH=$wt/src /venv/bin/python -B -W ignore $dest/demo.py $wt > $dest/demo_patched.log 2>&1; echo "exit $?" | tee -a $dest/demo_patched.log
git -C /repo worktree remove --force $wt
echo "== checks against the patched /repo"
git -C /repo apply $dest/patch.diff || exit 4
for c in "$@"; do
  out=$(cd /verif && ./check $c --tier quick 2>&1 | grep -E "VIOLATION|KNOWN" | head -3)
  echo "$c: ${out:-no violation reported}" | tee -a $dest/checks.log
done
git -C /repo checkout -- .
git -C /repo status --short | head -3
