#!/bin/bash
# refresh translators/baseline/*.v from the current (unmodified) /repo
set -e
cd /verif
for t in translators/*2coq.py; do /venv/bin/python -B "$t" /repo coq/theories/Gen; done
cp coq/theories/Gen/ConfigData.v coq/theories/Gen/CMinxCMake.v translators/baseline/
