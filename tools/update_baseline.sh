#!/bin/bash
# refresh translators/baseline/*.v from the CURRENT /repo (run only on the unchanged tree, after a
# reviewed repair): the baseline is what the model falls back to when a translator fails closed
cd /verif || exit 1
for t in translators/*2coq.py; do /venv/bin/python -B "$t" /repo translators/baseline || exit 1; done
ls -l translators/baseline
