#!/usr/bin/env python3
"""markdown table of the seeded regressions from seeded/*/meta.json + result.json"""
import json
from pathlib import Path
print("| seed | property | needs | applies / tests / demo | caught by (with failing input) |")
print("|---|---|---|---|---|")
for d in sorted(Path("/verif/seeded").iterdir()):
    if not d.is_dir():
        continue
    m = json.loads((d / "meta.json").read_text())
    if m.get("obsolete"):
        print(f"| {d.name} | {m.get('property')} | {m.get('needs','')[:110]} | obsolete: {m['obsolete'][:140]} | (last result before: reported, no-failing-input-found) |")
        continue
    r = json.loads((d / "result.json").read_text()) if (d / "result.json").exists() else {}
    caught = r.get("caught_by", [])
    wi = r.get("caught_with_failing_input_by", [])
    cb = ", ".join(c + ("*" if c in wi else "") for c in caught) or "-"
    print(f"| {d.name} | {m.get('property')} | {m.get('needs','')[:110]} | {r.get('patch_applies')} / "
          f"{(r.get('tests_with_patch') or '-')[:9]} / {r.get('demo_pristine_exit')}->{r.get('demo_patched_exit')} | {cb} |")
