#!/usr/bin/env python3
"""print a markdown table: property, number of theorems, theorem names (from coq/theories/Properties/Cxx.v)"""
import re
from pathlib import Path
root = Path("/verif/coq/theories/Properties")
tot = 0
print("| id | n | theorems (names without the Cxx_ prefix) |")
print("|---|---|---|")
for f in sorted(root.glob("C*.v")):
    names = re.findall(r"^Theorem\s+([A-Za-z0-9_']+)", f.read_text(), re.M)
    tot += len(names)
    short = [n[len(f.stem) + 1:] if n.startswith(f.stem + "_") else n for n in names]
    print(f"| {f.stem} | {len(names)} | " + ", ".join(f"`{s}`" for s in short) + " |")
print(f"\ntotal: {tot} theorems")
