(* Line protocol: each input line is one tree in the syntax
     tree := <decimal> | '(' tree* ')'      (whitespace separated)
   the reply is one line in the same syntax.  Numbers are Coq N. *)

let rec pos_of_int (n : int) : Model.positive =
  if n = 1 then Model.XH
  else if n land 1 = 0 then Model.XO (pos_of_int (n lsr 1))
  else Model.XI (pos_of_int (n lsr 1))

let n_of_int (n : int) : Model.n = if n = 0 then Model.N0 else Model.Npos (pos_of_int n)

let rec int_of_pos (p : Model.positive) : int =
  match p with
  | Model.XH -> 1
  | Model.XO q -> 2 * int_of_pos q
  | Model.XI q -> 2 * int_of_pos q + 1

let int_of_n (x : Model.n) : int = match x with Model.N0 -> 0 | Model.Npos p -> int_of_pos p

let parse (s : string) : Model.tree =
  let len = String.length s in
  let pos = ref 0 in
  let rec skip () = if !pos < len && (s.[!pos] = ' ' || s.[!pos] = '\r') then (incr pos; skip ()) in
  let rec value () : Model.tree =
    skip ();
    if !pos >= len then failwith "unexpected end"
    else if s.[!pos] = '(' then begin
      incr pos;
      let items = ref [] in
      let rec loop () =
        skip ();
        if !pos >= len then failwith "unclosed"
        else if s.[!pos] = ')' then incr pos
        else begin items := value () :: !items; loop () end in
      loop ();
      Model.L (List.rev !items)
    end else begin
      let start = !pos in
      while !pos < len && s.[!pos] >= '0' && s.[!pos] <= '9' do incr pos done;
      if !pos = start then failwith "bad char";
      Model.I (n_of_int (int_of_string (String.sub s start (!pos - start))))
    end in
  value ()

let rec print (b : Buffer.t) (t : Model.tree) : unit =
  match t with
  | Model.I x -> Buffer.add_string b (string_of_int (int_of_n x))
  | Model.L l ->
    Buffer.add_char b '(';
    List.iteri (fun i x -> if i > 0 then Buffer.add_char b ' '; print b x) l;
    Buffer.add_char b ')'

let () =
  let b = Buffer.create 65536 in
  try
    while true do
      let line = input_line stdin in
      Buffer.clear b;
      (try print b (Model.dispatch (parse line))
       with Stack_overflow -> Buffer.clear b; Buffer.add_string b "(997)"
          | Failure _ -> Buffer.clear b; Buffer.add_string b "(996)");
      Buffer.add_char b '\n';
      print_string (Buffer.contents b);
      flush stdout
    done
  with End_of_file -> ()
