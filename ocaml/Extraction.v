(* compiled from /verif/ocaml by build.sh: writes model.ml / model.mli here *)
From Coq Require Import Extraction ExtrOcamlBasic.
From CMinx Require Import Extract.Tree Extract.Main.
Extraction Language OCaml.
Extraction "model.ml" dispatch.
