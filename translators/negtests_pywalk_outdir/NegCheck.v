(* agreement of the (possibly mutated) generated document() with the model on sample trees; printed by coqc *)
From Coq Require Import String List NArith ZArith Bool Arith.
From CMinx Require Import Base.Str Base.PySem Base.PyWalkSem Model.Writer Model.Path Model.Naming Model.Pipeline Model.Walk Gen.PyWalkSource.
Import ListNotations.
Definition pst (st : wsettings) (hdrs : list str) (excl : list str -> bool -> bool) (follow : bool) : pysettings :=
  PySettings (if ws_out st then Some (APath AOutput [] false) else None) (ws_recursive st) follow
             (ws_auto_exclude st) excl (ws_prefix st) (ws_sep st) (ws_ext_titles st) (ws_ext_modules st) hdrs.
Definition is_nil {A : Type} (l : list A) : bool := match l with [] => true | _ :: _ => false end.
Definition excl_with_output (excl : list str -> bool -> bool) (o : option (list str)) (rel : list str) (isdir : bool) : bool :=
  excl rel isdir || (isdir && negb (is_nil rel) && match o with Some q => strs_eqb rel q | None => false end).
(* the output directory proj/_build/docs exists in the tree; in tree2 its name ends in .cmake and a FILE of
   the same name stands beside it (impossible on a real file system, allowed by names_distinct) *)
Definition tree1 : list node :=
  [ F (s"top.cmake") [1%N];
    D (s"_build") [ F (s"notes.txt") [2%N];
                    D (s"docs") [ F (s"index.rst") [3%N]; F (s"stale.cmake") [4%N]; D (s"sub") [ F (s"x.cmake") [6%N] ] ];
                    D (s"docs2") [ F (s"o.cmake") [7%N] ] ];
    D (s"src") [ F (s"a.cmake") [8%N] ] ].
Definition tree2 : list node :=
  [ F (s"top.cmake") [1%N]; F (s"out.cmake") [2%N]; D (s"out.cmake") [ F (s"stale.cmake") [4%N] ] ].
Definition excl1 (p : list str) (isdir : bool) : bool := strs_eqb p [s"excluded"] && isdir.
Definition docfn1 (t m : str) (c : list N) : outcome := OOk (t ++ s"|" ++ m ++ s"|" ++ c).
Definition hdrs1 := [s"#"; s"*"; s"="].
Definition mk out rec pre auto := Build_wsettings out rec pre auto (s".") false true.
Definition act_eqb (a b : action) : bool :=
  match a, b with
  | AMkDirs x, AMkDirs y => strs_eqb x y
  | AWrite x c, AWrite y d => strs_eqb x y && str_eqb c d
  | APrint x, APrint y => str_eqb x y
  | AAbort _, AAbort _ => true
  | AExit255, AExit255 => true
  | _, _ => false end.
Definition agree tree o st :=
  list_eqb act_eqb (PyWalkSource.document (PyWorld (s"proj") (KDir tree) o) docfn1 [] (s"x") (pst st hdrs1 excl1 true))
                   (Walk.document st hdrs1 docfn1 (excl_with_output excl1 o) (s"proj") (KDir tree)).
(* tree1: output at _build/docs (rec+noauto, rec+auto, norec), output outside (rec+noauto); tree2: output at out.cmake *)
Eval vm_compute in
  (map (agree tree1 (Some [s"_build"; s"docs"])) [mk true true None false; mk true true None true; mk true false None false],
   agree tree1 None (mk true true None false),
   agree tree2 (Some [s"out.cmake"]) (mk true true None false)).
