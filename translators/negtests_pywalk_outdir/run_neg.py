#!/usr/bin/env python3
"""negative tests of the tie for the output-directory pruning: mutate a scratch copy of __init__.py,
run the translator on it, compile the generated file, NegCheck.v and WalkSourceMatch.v in a scratch copy
of the Coq development."""
import subprocess, shutil, sys, re
from pathlib import Path
SNAP = Path("/tmp/pywalkfix/repo_snapshot/src/cminx/__init__.py")
COPY = Path("/tmp/pywalkfix/repo_copy/src/cminx/__init__.py")
COQ = Path("/tmp/pywalkfix/neg/coq")
TR = "/tmp/pywalkfix/translators/pywalk2coq.py"
HERE = Path(__file__).resolve().parent
src = SNAP.read_text()

def sub(old, new, count=1):
    def f(t):
        assert t.count(old) >= 1, old
        return t.replace(old, new, count)
    return f

NEW_TEST = '''""))) or os.path.abspath(os.path.join(root, subdir)) == output_dir:'''
FILE_TEST = '''                if spec.match_file(os.path.join(root, file)):'''
OUTDIR = "        output_dir = os.path.abspath(output_path) if output_path is not None else None\n"
MUT = {
 "0_unchanged": lambda t: t,
 "a_startswith": sub(NEW_TEST, '''""))) or os.path.abspath(os.path.join(root, subdir)).startswith(output_dir):'''),
 "b_disjunct_dropped": sub(NEW_TEST, '''""))):'''),
 "c_disjunct_also_in_file_loop": sub(FILE_TEST,
     '''                if spec.match_file(os.path.join(root, file)) or os.path.abspath(os.path.join(root, file)) == output_dir:'''),
 "d_output_dir_from_input_path": sub(OUTDIR,
     "        output_dir = os.path.abspath(input_path) if output_path is not None else None\n"),
 # further mutants
 "e_no_abspath_on_either_side": lambda t: sub(OUTDIR, "        output_dir = output_path\n")(
     sub(NEW_TEST, '''""))) or os.path.join(root, subdir) == output_dir:''')(t)),
 "f_no_abspath_on_the_left": sub(NEW_TEST, '''""))) or os.path.join(root, subdir) == output_dir:'''),
 "g_compares_root_not_subdir": sub(NEW_TEST, '''""))) or os.path.abspath(root) == output_dir:'''),
 "h_and_instead_of_or": sub(NEW_TEST, '''""))) and os.path.abspath(os.path.join(root, subdir)) == output_dir:'''),
 "i_not_equal": sub(NEW_TEST, '''""))) or os.path.abspath(os.path.join(root, subdir)) != output_dir:'''),
 "j_output_dir_unconditional": sub(OUTDIR, "        output_dir = os.path.abspath(output_path)\n"),
 "k_realpath": sub(OUTDIR, "        output_dir = os.path.realpath(output_path) if output_path is not None else None\n"),
 "l_test_after_autoexclusion_only": lambda t: sub(NEW_TEST, '''""))):''')(
     sub('''            # Sort filenames and subdirs in alphabetical order
''', '''            for subdir in copy.copy(subdirs):
                if os.path.abspath(os.path.join(root, subdir)) == output_dir:
                    subdirs.remove(subdir)
            # Sort filenames and subdirs in alphabetical order
''')(t)),
 # the mutants of the first round (NOTES_pywalk2coq.md) that still apply
 "old2_no_break_when_not_recursive": sub('''                        new_settings)

            if not recursive:
                break
''', '''                        new_settings)
'''),
 "old3_filenames_not_sorted": sub("            filenames = sorted(filenames)\n", ""),
 "old4_toctree_split0": sub("toctree.text('.'.join(file.split('.')[:-1]))", "toctree.text(file.split('.')[0])"),
 "old5_no_trailing_slash": sub('''                        os.path.join(
                            subdir,
                            ""))) or''', '''                        subdir)) or'''),
 "old7_per_file_loop_case_sensitive": sub('                if file.lower().endswith(".cmake"):', '                if file.endswith(".cmake"):'),
 "old8_benign_rename_and_logging": lambda t: sub("for directory in subdirs:\n                        toctree.text(directory + \"/index.rst\")",
        "for dd in subdirs:\n                        logger.debug(dd)\n                        toctree.text(dd + \"/index.rst\")")(
        sub("last_dir_element = os.path.basename(os.path.normpath(input_path))", "last_elem = os.path.basename(os.path.normpath(input_path))")(
        sub("prefix = prefix if prefix is not None else last_dir_element", "prefix = prefix if prefix is not None else last_elem")(t))),
 # benign: the proofs should survive these
 "m_benign_rename_operands_swapped": lambda t: sub(OUTDIR,
     "        out_abs = os.path.abspath(output_path) if output_path is not None else None\n")(
     sub(NEW_TEST, '''""))) or out_abs == os.path.abspath(os.path.join(root, subdir)):''')(t)),
}
only = sys.argv[1:]
for name, f in MUT.items():
    if only and not any(name.startswith(o) for o in only):
        continue
    COPY.parent.mkdir(parents=True, exist_ok=True)
    COPY.write_text(f(src))
    out = Path("/tmp/pywalkfix/neg/out"); out.mkdir(exist_ok=True)
    r = subprocess.run([sys.executable, TR, "/tmp/pywalkfix/repo_copy", str(out)], capture_output=True, text=True)
    if r.returncode != 0:
        print(f"{name}: TRANSLATOR FAILS (exit {r.returncode}): {r.stderr.strip()[:330]}")
        continue
    shutil.copy(out / "PyWalkSource.v", COQ / "theories/Gen/PyWalkSource.v")
    shutil.copy(HERE / "NegCheck.v", COQ / "theories/Proofs/NegCheck.v")
    shutil.copy("/tmp/pywalkfix/coq/theories/Proofs/WalkSourceMatch.v", COQ / "theories/Proofs/WalkSourceMatch.v")
    shutil.copy("/tmp/pywalkfix/coq/theories/Base/PyWalkSem.v", COQ / "theories/Base/PyWalkSem.v")
    cc = lambda f: subprocess.run(["timeout", "900", "coqc", "-Q", "theories", "CMinx", f], cwd=COQ, capture_output=True, text=True)
    r0 = cc("theories/Base/PyWalkSem.v")
    r1 = cc("theories/Gen/PyWalkSource.v")
    if r0.returncode or r1.returncode:
        print(f"{name}: generated file does not compile: {(r0.stderr + r1.stderr).strip()[:300]}")
        continue
    r3 = cc("theories/Proofs/NegCheck.v")
    agree = " ".join(r3.stdout.split()) if r3.returncode == 0 else "NegCheck failed: " + r3.stderr.strip()[:200]
    print(f"{name}: agreement with the model [tree1 out=_build/docs: rec, rec+auto, norec], tree1 out outside, tree2 (file and dir of one name): {agree}")
    r2 = cc("theories/Proofs/WalkSourceMatch.v")
    if r2.returncode == 0:
        print(f"{name}: translator ok, WalkSourceMatch.v COMPILES")
    else:
        m = re.search(r'line (\d+)', r2.stderr)
        line = int(m.group(1)) if m else 0
        lines = (COQ / "theories/Proofs/WalkSourceMatch.v").read_text().split("\n")
        lem = "?"
        for k in range(line - 1, -1, -1):
            mm = re.match(r'\s*(Lemma|Theorem|Example|Corollary)\s+(\w+)', lines[k])
            if mm:
                lem = mm.group(2); break
        err = [l for l in r2.stderr.split("\n") if l.startswith("Error") or "Unable" in l or "not convertible" in l or "No matching" in l][:2]
        print(f"{name}: translator ok, WalkSourceMatch.v STOPS at line {line} in {lem}: {' '.join(err)[:220]}")
