#!/usr/bin/env python3
"""negative tests of the tie for the pruning of symbolic links that are not followed: mutate a scratch
copy of __init__.py, run the translator on it, compile the generated file, NegCheck.v and
WalkSourceMatch.v in a scratch copy of the Coq development."""
import subprocess, shutil, sys, re
from pathlib import Path
BASE = Path("/tmp/pywalkfix2")
SNAP = BASE / "repo_snapshot/src/cminx/__init__.py"
COPY = BASE / "repo_copy/src/cminx/__init__.py"
COQ = BASE / "neg/coq"
TR = str(BASE / "translators/pywalk2coq.py")
HERE = Path(__file__).resolve().parent
src = SNAP.read_text()

def sub(old, new, count=1):
    def f(t):
        assert t.count(old) >= 1, old
        return t.replace(old, new, count)
    return f

COMMENT = '''                # os.walk() lists a symlink to a directory among the subdirs even when it
                # is not going to follow it: it gets no index.rst, so it must not be listed
'''
ELIF = '''                elif not settings.input.follow_symlinks and os.path.islink(os.path.join(root, subdir)):
'''
BRANCH = COMMENT + ELIF + '''                    subdirs.remove(subdir)
'''
FILE_LOOP = '''                if spec.match_file(os.path.join(root, file)):
                    filenames.remove(file)
'''
WALK = "followlinks=settings.input.follow_symlinks"
MUT = {
 "0_unchanged": lambda t: t,
 "a_branch_dropped": sub(BRANCH, ""),
 "b_links_always_pruned": sub(ELIF, "                elif os.path.islink(os.path.join(root, subdir)):\n"),
 "c_islink_of_root": sub(ELIF, "                elif not settings.input.follow_symlinks and os.path.islink(root):\n"),
 "d_branch_also_in_file_loop": sub(FILE_LOOP, FILE_LOOP +
     "                elif not settings.input.follow_symlinks and os.path.islink(os.path.join(root, file)):\n"
     "                    filenames.remove(file)\n"),
 # further mutants
 "e_not_missing": sub(ELIF, "                elif settings.input.follow_symlinks and os.path.islink(os.path.join(root, subdir)):\n"),
 "f_islink_with_trailing_slash": sub(ELIF,
     '                elif not settings.input.follow_symlinks and os.path.islink(os.path.join(root, os.path.join(subdir, ""))):\n'),
 "g_if_instead_of_elif": sub(ELIF, "                if not settings.input.follow_symlinks and os.path.islink(os.path.join(root, subdir)):\n"),
 "h_or_instead_of_and": sub(ELIF, "                elif not settings.input.follow_symlinks or os.path.islink(os.path.join(root, subdir)):\n"),
 "i_realpath_test": sub(ELIF,
     "                elif not settings.input.follow_symlinks and os.path.realpath(os.path.join(root, subdir)) != os.path.join(root, subdir):\n"),
 "j_walk_followlinks_False": sub(WALK, "followlinks=False"),
 "k_walk_followlinks_True": sub(WALK, "followlinks=True"),
 "l_walk_followlinks_negated": sub(WALK, "followlinks=not settings.input.follow_symlinks"),
 "m_isdir_instead_of_islink": sub(ELIF, "                elif not settings.input.follow_symlinks and os.path.isdir(os.path.join(root, subdir)):\n"),
 "n_branch_after_autoexclusion_only": lambda t: sub(BRANCH, "")(
     sub('''            # Sort filenames and subdirs in alphabetical order
''', '''            for subdir in copy.copy(subdirs):
                if not settings.input.follow_symlinks and os.path.islink(os.path.join(root, subdir)):
                    subdirs.remove(subdir)
            # Sort filenames and subdirs in alphabetical order
''')(t)),
 "o_lstat": sub(ELIF, "                elif not settings.input.follow_symlinks and stat.S_ISLNK(os.lstat(os.path.join(root, subdir)).st_mode):\n"),
 # the mutants of the earlier rounds that still apply
 "old_b_output_disjunct_dropped": sub('''""))) or os.path.abspath(os.path.join(root, subdir)) == output_dir:''', '''""))):'''),
 "old2_no_break_when_not_recursive": sub('''                        new_settings)

            if not recursive:
                break
''', '''                        new_settings)
'''),
 "old3_filenames_not_sorted": sub("            filenames = sorted(filenames)\n", ""),
 "old5_no_trailing_slash": sub('''                        os.path.join(
                            subdir,
                            ""))) or''', '''                        subdir)) or'''),
 # benign: the proofs should survive these
 "p_benign_rename_and_logging": lambda t: sub(ELIF + "                    subdirs.remove(subdir)\n",
        ELIF + "                    logger.debug(subdir)\n                    subdirs.remove(subdir)\n")(
        sub("last_dir_element = os.path.basename(os.path.normpath(input_path))", "last_elem = os.path.basename(os.path.normpath(input_path))")(
        sub("prefix = prefix if prefix is not None else last_dir_element", "prefix = prefix if prefix is not None else last_elem")(t))),
}
only = sys.argv[1:]
for name, f in MUT.items():
    if only and not any(name.startswith(o) for o in only):
        continue
    COPY.parent.mkdir(parents=True, exist_ok=True)
    COPY.write_text(f(src))
    out = BASE / "neg/out"; out.mkdir(exist_ok=True)
    r = subprocess.run([sys.executable, TR, str(BASE / "repo_copy"), str(out)], capture_output=True, text=True)
    if r.returncode != 0:
        print(f"{name}: TRANSLATOR FAILS (exit {r.returncode}): {r.stderr.strip()[:330]}")
        continue
    shutil.copy(out / "PyWalkSource.v", COQ / "theories/Gen/PyWalkSource.v")
    shutil.copy(HERE / "NegCheck.v", COQ / "theories/Proofs/NegCheck.v")
    shutil.copy(BASE / "coq/theories/Proofs/WalkSourceMatch.v", COQ / "theories/Proofs/WalkSourceMatch.v")
    shutil.copy(BASE / "coq/theories/Base/PyWalkSem.v", COQ / "theories/Base/PyWalkSem.v")
    cc = lambda f: subprocess.run(["timeout", "900", "coqc", "-Q", "theories", "CMinx", f], cwd=COQ, capture_output=True, text=True)
    r0 = cc("theories/Base/PyWalkSem.v")
    r1 = cc("theories/Gen/PyWalkSource.v")
    if r0.returncode or r1.returncode:
        print(f"{name}: generated file does not compile: {(r0.stderr + r1.stderr).strip()[:300]}")
        continue
    r3 = cc("theories/Proofs/NegCheck.v")
    agree = " ".join(r3.stdout.split()) if r3.returncode == 0 else "NegCheck failed: " + r3.stderr.strip()[:200]
    print(f"{name}: agreement with the model [tree1 follow=false: rec+auto, rec, norec], [tree1 follow=true: rec+auto, rec], "
          f"tree1 follow=false vs patterns alone, tree2 symlinked file (follow=false, true): {agree}")
    r2 = cc("theories/Proofs/WalkSourceMatch.v")
    if r2.returncode == 0:
        print(f"{name}: translator ok, WalkSourceMatch.v COMPILES")
    else:
        m = re.search(r'line (\d+)', r2.stderr)
        line = int(m.group(1)) if m else 0
        lines = (COQ / "theories/Proofs/WalkSourceMatch.v").read_text().split("\n")
        lem = "?"
        for k in range(line - 1, -1, -1):
            mm = re.match(r'\s*(Lemma|Theorem|Example|Corollary)\s+(\w+)', lines[k])
            if mm:
                lem = mm.group(2); break
        err = [l for l in r2.stderr.split("\n") if l.startswith("Error") or "Unable" in l or "not convertible" in l or "No matching" in l or "Found no" in l or "Tactic failure" in l][:2]
        print(f"{name}: translator ok, WalkSourceMatch.v STOPS at line {line} in {lem}: {' '.join(err)[:220]}")
