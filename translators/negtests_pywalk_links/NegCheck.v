(* agreement of the (possibly mutated) generated document() with the model on sample trees with symbolic
   links; printed by coqc *)
From Coq Require Import String List NArith ZArith Bool Arith.
From CMinx Require Import Base.Str Base.PySem Base.PyWalkSem Model.Writer Model.Path Model.Naming Model.Pipeline Model.Walk Gen.PyWalkSource.
Import ListNotations.
Definition pst (st : wsettings) (hdrs : list str) (excl : list str -> bool -> bool) (follow : bool) : pysettings :=
  PySettings (if ws_out st then Some (APath AOutput [] false) else None) (ws_recursive st) follow
             (ws_auto_exclude st) excl (ws_prefix st) (ws_sep st) (ws_ext_titles st) (ws_ext_modules st) hdrs.
Definition is_nil {A : Type} (l : list A) : bool := match l with [] => true | _ :: _ => false end.
Definition excl_with_output (excl : list str -> bool -> bool) (o : option (list str)) (rel : list str) (isdir : bool) : bool :=
  excl rel isdir || (isdir && negb (is_nil rel) && match o with Some q => strs_eqb rel q | None => false end).
Definition excl_with_output_links (excl : list str -> bool -> bool) (o : option (list str)) (follow : bool)
           (links : list str -> bool) (rel : list str) (isdir : bool) : bool :=
  excl_with_output excl o rel isdir || (isdir && negb (is_nil rel) && negb follow && links rel).
(* tree1: proj/vendor and proj/src/ext are symbolic links to directories, proj/lib/ext is a real directory;
   tree2: proj/sl.cmake is a symbolic link to a FILE (flagged position of a file) *)
Definition tree1 : list node :=
  [ F (s"top.cmake") [1%N];
    D (s"vendor") [ F (s"v.cmake") [2%N]; D (s"inner") [ F (s"i.cmake") [3%N] ] ];
    D (s"src") [ F (s"a.cmake") [4%N]; D (s"ext") [ F (s"e.cmake") [5%N] ] ];
    D (s"lib") [ F (s"l.cmake") [6%N]; D (s"ext") [ F (s"f.cmake") [7%N] ] ] ].
Definition links1 (rel : list str) : bool := strs_eqb rel [s"vendor"] || strs_eqb rel [s"src"; s"ext"].
Definition tree2 : list node := [ F (s"top.cmake") [1%N]; F (s"sl.cmake") [2%N]; D (s"d") [ F (s"x.cmake") [3%N] ] ].
Definition links2 (rel : list str) : bool := strs_eqb rel [s"sl.cmake"].
Definition excl1 (p : list str) (isdir : bool) : bool := strs_eqb p [s"excluded"] && isdir.
Definition docfn1 (t m : str) (c : list N) : outcome := OOk (t ++ s"|" ++ m ++ s"|" ++ c).
Definition hdrs1 := [s"#"; s"*"; s"="].
Definition mk out rec pre auto := Build_wsettings out rec pre auto (s".") false true.
Definition act_eqb (a b : action) : bool :=
  match a, b with
  | AMkDirs x, AMkDirs y => strs_eqb x y
  | AWrite x c, AWrite y d => strs_eqb x y && str_eqb c d
  | APrint x, APrint y => str_eqb x y
  | AAbort _, AAbort _ => true
  | AExit255, AExit255 => true
  | _, _ => false end.
Definition src tree links follow st :=
  PyWalkSource.document (PyWorld (s"proj") (KDir tree) None links) docfn1 [] (s"x") (pst st hdrs1 excl1 follow).
(* with the model predicate of the theorem *)
Definition agree tree links follow st :=
  list_eqb act_eqb (src tree links follow st)
                   (Walk.document st hdrs1 docfn1 (excl_with_output_links excl1 None follow links) (s"proj") (KDir tree)).
(* with the patterns alone (the link treated as an ordinary directory by the model) *)
Definition agree_plain tree links follow st :=
  list_eqb act_eqb (src tree links follow st) (Walk.document st hdrs1 docfn1 excl1 (s"proj") (KDir tree)).
(* tree1 follow=false: rec+auto, rec+noauto, norec; tree1 follow=true: rec+auto, rec+noauto;
   tree1 follow=false against the model with the patterns alone; tree2 (symlinked file) follow=false, follow=true *)
Eval vm_compute in
  (map (agree tree1 links1 false) [mk true true None true; mk true true None false; mk true false None true],
   map (agree tree1 links1 true) [mk true true None true; mk true true None false],
   agree_plain tree1 links1 false (mk true true None true),
   (agree tree2 links2 false (mk true true None true), agree tree2 links2 true (mk true true None true))).
