From Coq Require Import String List NArith ZArith Bool Arith.
From CMinx Require Import Base.Str Base.PySem Base.PyWalkSem Model.Writer Model.Path Model.Naming Model.Pipeline Model.Walk Gen.PyWalkSource.
Import ListNotations.
Definition pst (st : wsettings) (hdrs : list str) (excl : list str -> bool -> bool) (follow : bool) : pysettings :=
  PySettings (if ws_out st then Some (APath AOutput [] false) else None) (ws_recursive st) follow
             (ws_auto_exclude st) excl (ws_prefix st) (ws_sep st) (ws_ext_titles st) (ws_ext_modules st) hdrs.
Definition tree1 : list node :=
  [ F (s"b.cmake") [1%N]; F (s"README.md") [2%N]; F (s"A.CMake") [3%N]; F (s"two.dots.cmake") [4%N];
    D (s"zsub") [ F (s"z.cmake") [4%N]; D (s"deep") [ F (s"d.cmake") [5%N] ] ];
    D (s"excluded") [ F (s"q.cmake") [9%N] ];
    D (s"asub") [ F (s"c.cmake") [10%N]; F (s"a.cmake") [11%N] ] ].
Definition excl1 (p : list str) (isdir : bool) : bool := strs_eqb p [s"excluded"] && isdir.
Definition docfn1 (t m : str) (c : list N) : outcome := OOk (t ++ s"|" ++ m ++ s"|" ++ c).
Definition hdrs1 := [s"#"; s"*"; s"="].
Definition mk out rec pre auto := Build_wsettings out rec pre auto (s".") false true.
Definition act_eqb (a b : action) : bool :=
  match a, b with
  | AMkDirs x, AMkDirs y => strs_eqb x y
  | AWrite x c, AWrite y d => strs_eqb x y && str_eqb c d
  | APrint x, APrint y => str_eqb x y
  | AAbort _, AAbort _ => true
  | AExit255, AExit255 => true
  | _, _ => false end.
Definition agree st :=
  list_eqb act_eqb (PyWalkSource.document (PyWorld (s"proj") (KDir tree1)) docfn1 [] (s"x") (pst st hdrs1 excl1 true))
                   (Walk.document st hdrs1 docfn1 excl1 (s"proj") (KDir tree1)).
Eval vm_compute in (map agree [mk true true None true; mk true false None true; mk false true None false; mk false false None false]).
