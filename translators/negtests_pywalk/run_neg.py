#!/usr/bin/env python3
"""negative tests of the tie: mutate a scratch copy of __init__.py, run the translator, compile."""
import subprocess, shutil, sys, re
from pathlib import Path
SNAP = Path("/tmp/pywalk/repo_snapshot/src/cminx/__init__.py")
COPY = Path("/tmp/pywalk/repo_copy/src/cminx/__init__.py")
COQ = Path("/tmp/pywalk/neg/coq")
TR = "/tmp/pywalk/translators/pywalk2coq.py"
src = SNAP.read_text()

def sub(old, new, count=1):
    def f(t):
        assert t.count(old) >= 1, old
        return t.replace(old, new, count)
    return f

EXCL_LOOP = '''            for subdir in copy.copy(subdirs):
                # The extra os.path.join() with an empty string ensures the
                # directory has a trailing slash
                if spec.match_file(
                    os.path.join(
                        root,
                        os.path.join(
                            subdir,
                            ""))):
                    subdirs.remove(subdir)
'''
MUT = {
 "0_unchanged": lambda t: t,
 "1a_rebind_listcomp_toplevel": sub(EXCL_LOOP,
   '            subdirs = [d for d in subdirs if not spec.match_file(os.path.join(root, os.path.join(d, "")))]\n'),
 "1b_rebind_inside_loop": sub('''                            ""))):
                    subdirs.remove(subdir)''', '''                            ""))):
                    subdirs = [d for d in subdirs if d != subdir]'''),
 "2_no_break_when_not_recursive": sub('''                        new_settings)

            if not recursive:
                break
''', '''                        new_settings)
'''),
 "3_filenames_not_sorted": sub("            filenames = sorted(filenames)\n", ""),
 "4_toctree_split0": sub("toctree.text('.'.join(file.split('.')[:-1]))", "toctree.text(file.split('.')[0])"),
 "5_no_trailing_slash": sub('''                        os.path.join(
                            subdir,
                            ""))):''', '''                        subdir)):'''),
 "6_makedirs_after_index": lambda t: sub('''                # Make sure we have all the directories created
                os.makedirs(path, exist_ok=True)
''', '')(sub('''                        "index.rst"))
''', '''                        "index.rst"))
                os.makedirs(path, exist_ok=True)
''')(t)),
 "7_per_file_loop_case_sensitive": sub('                if file.lower().endswith(".cmake"):', '                if file.endswith(".cmake"):'),
 # benign edits: the proofs should survive these
 "8_benign_rename_and_logging": lambda t: sub("for directory in subdirs:\n                        toctree.text(directory + \"/index.rst\")",
        "for dd in subdirs:\n                        logger.debug(dd)\n                        toctree.text(dd + \"/index.rst\")")(
        sub("last_dir_element = os.path.basename(os.path.normpath(input_path))", "last_elem = os.path.basename(os.path.normpath(input_path))")(
        sub("prefix = prefix if prefix is not None else last_dir_element", "prefix = prefix if prefix is not None else last_elem")(t))),
}
only = sys.argv[1:]
for name, f in MUT.items():
    if only and not any(name.startswith(o) for o in only):
        continue
    COPY.parent.mkdir(parents=True, exist_ok=True)
    COPY.write_text(f(src))
    out = Path("/tmp/pywalk/neg/out"); out.mkdir(exist_ok=True)
    r = subprocess.run([sys.executable, TR, "/tmp/pywalk/repo_copy", str(out)], capture_output=True, text=True)
    if r.returncode != 0:
        print(f"{name}: TRANSLATOR FAILS (exit {r.returncode}): {r.stderr.strip()[:300]}")
        continue
    shutil.copy(out / "PyWalkSource.v", COQ / "theories/Gen/PyWalkSource.v")
    r1 = subprocess.run(["timeout", "900", "coqc", "-Q", "theories", "CMinx", "theories/Gen/PyWalkSource.v"], cwd=COQ, capture_output=True, text=True)
    if r1.returncode != 0:
        print(f"{name}: generated file does not compile: {r1.stderr.strip()[:300]}")
        continue
    r3 = subprocess.run(["timeout", "900", "coqc", "-Q", "theories", "CMinx", "theories/Proofs/NegCheck.v"], cwd=COQ, capture_output=True, text=True)
    agree = " ".join(r3.stdout.split())
    print(f"{name}: agreement with the model on the sample tree (rec+out+auto, norec+out+auto, rec, norec): {agree}")
    r2 = subprocess.run(["timeout", "900", "coqc", "-Q", "theories", "CMinx", "theories/Proofs/WalkSourceMatch.v"], cwd=COQ, capture_output=True, text=True)
    if r2.returncode == 0:
        print(f"{name}: translator ok, WalkSourceMatch.v COMPILES")
    else:
        m = re.search(r'line (\d+)', r2.stderr)
        line = int(m.group(1)) if m else 0
        lines = (COQ / "theories/Proofs/WalkSourceMatch.v").read_text().split("\n")
        # enclosing lemma
        lem = "?"
        for k in range(line - 1, -1, -1):
            mm = re.match(r'\s*(Lemma|Theorem|Example)\s+(\w+)', lines[k])
            if mm:
                lem = mm.group(2); break
        err = [l for l in r2.stderr.split("\n") if l.startswith("Error") or "Unable" in l or "not convertible" in l][:2]
        print(f"{name}: translator ok, WalkSourceMatch.v STOPS at line {line} in {lem}: {' '.join(err)[:200]}")
