import os, sys, tempfile, warnings, shutil
warnings.simplefilter("ignore")
sys.path.insert(0, "/tmp/pymain/repo_snapshot/src")
work = tempfile.mkdtemp(prefix="work")
udir = os.path.join(work, "userconf"); os.makedirs(udir)
os.environ["CMINXDIR"] = udir
os.chdir(work)
import cminx
calls = []
cminx.document = lambda f, st: calls.append(f)
def run(yaml_text, argv):
    calls.clear()
    open("my.yaml", "w").write(yaml_text)
    try:
        cminx.main(argv); return ("Returned", list(calls))
    except SystemExit as e:
        return ("SystemExit", e.code)
    except Exception as e:
        return (type(e).__name__, str(e)[:100])
print(run("input:\nrst:\n  prefix: X\n", ["a", "-s", "my.yaml"]))
print(run("input: 3\n", ["a", "-s", "my.yaml"]))
print(run("input: [1]\n", ["a", "-s", "my.yaml"]))
print(run("logging: {version: 2}\n", ["a", "-s", "my.yaml"]))
print(run("", ["a", "-s", "my.yaml"]))
print(run("- 1\n", ["a", "-s", "my.yaml"]))
shutil.rmtree(work)
