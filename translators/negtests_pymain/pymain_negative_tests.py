#!/usr/bin/env python3
"""negative tests: mutate a scratch copy of __init__.py, run the translator, compile"""
import shutil, subprocess, sys
from pathlib import Path
ROOT = Path("/tmp/pymain")
SRC = (ROOT / "repo_snapshot/src/cminx/__init__.py").read_text()
COQ = ROOT / "neg/coq"

def rep(text, old, new):
    assert text.count(old) == 1, (old, text.count(old))
    return text.replace(old, new)

CASES = {}
# (a) set_args before set_file
t = rep(SRC, "    settings.set_args(args, dots=True)\n\n", "")
t = rep(t, "    if args.settings is not None:\n", "    settings.set_args(args, dots=True)\n\n    if args.settings is not None:\n")
CASES["a_set_args_before_set_file"] = t
# (b) continue dropped
CASES["b_none_continue_dropped"] = rep(SRC, "        if value is None:\n            continue\n", "")
# (c) isinstance accepts str
CASES["c_isinstance_accepts_str"] = rep(SRC, "isinstance(value, (list, tuple))", "isinstance(value, (list, tuple, str))")
# (d) extend replaced by assignment
CASES["d_extend_replaced_by_assignment"] = rep(SRC, "exclude_filters.extend(value)", "exclude_filters = value")
# (e) reversed / sorted
CASES["e1_reversed_files"] = rep(SRC, "for input_file in args.files:", "for input_file in reversed(args.files):")
CASES["e2_sorted_files"] = rep(SRC, "for input_file in args.files:", "for input_file in sorted(args.files):")
# (f) assignment moved after the loop
t = rep(SRC, "    settings_obj.input.exclude_filters = exclude_filters\n", "")
t = rep(t, "        document(input_file, settings_obj)\n", "        document(input_file, settings_obj)\n    settings_obj.input.exclude_filters = exclude_filters\n")
CASES["f_assignment_after_loop"] = t
# (g) abspath dropped
CASES["g_abspath_dropped"] = rep(SRC, "settings.set_file(os.path.abspath(args.settings))", "settings.set_file(args.settings)")
# extra
CASES["h_relative_flag_ignored"] = rep(SRC, "config_template(output_dir_relative_to_config))", "config_template(False))")
CASES["i_only_first_source"] = rep(SRC, "        exclude_filters.extend(value)\n", "        exclude_filters.extend(value)\n        break\n")
CASES["j_appname_changed"] = rep(SRC, 'Configuration("cminx", __name__)', 'Configuration("cminx2", __name__)')
CASES["k_raise_replaced_by_continue"] = rep(SRC, """            raise ConfigTypeError(
                f"input.exclude_filters: must be a list of strings, not {type(value).__name__}")""", "            continue")
CASES["z_unmodified"] = SRC

only = sys.argv[1:]
for name, text in CASES.items():
    if only and name not in only:
        continue
    repo = ROOT / "repo_copy" / name
    (repo / "src/cminx").mkdir(parents=True, exist_ok=True)
    (repo / "src/cminx/__init__.py").write_text(text)
    r = subprocess.run([sys.executable, str(ROOT / "translators/pymain2coq.py"), str(repo), str(COQ / "theories/Gen")],
                       capture_output=True, text=True)
    print(f"=== {name}: translator exit {r.returncode}")
    if r.stderr.strip():
        print("   ", r.stderr.strip()[:400])
    for f in ["Gen/PyMainSource", "Proofs/MainSourceMatch"]:
        c = subprocess.run(["timeout", "300", "coqc", "-Q", "theories", "CMinx", f"theories/{f}.v"],
                           cwd=COQ, capture_output=True, text=True)
        msg = (c.stdout + c.stderr)
        msg = "\n".join(l for l in msg.splitlines() if not l.startswith("Closed"))
        print(f"    coqc {f}: exit {c.returncode}")
        if c.returncode:
            print("      " + "\n      ".join(msg.strip().splitlines()[:6])[:700])
            break
