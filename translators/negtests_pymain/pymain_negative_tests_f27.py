#!/usr/bin/env python3
"""Negative tests for the rst.headers check of main() (repair of F27) against pymain2coq +
Proofs/MainSourceMatch.v.  Scratch paths of this experiment (everything under /tmp/f27fix).

For every mutant of src/cminx/__init__.py: run the translator into a private copy of the Coq tree,
compile Gen/PyMainSource.v, then Proofs/MainSourceMatch.v twice: the full file, and the file with the
concrete vm_compute examples of main removed (so that a THEOREM has to fail)."""
import re, shutil, subprocess, sys
from pathlib import Path

ROOT = Path("/tmp/f27fix")
SRC = ROOT / "repo_snapshot/src/cminx/__init__.py"
TRANSLATOR = ROOT / "translators/pymain2coq.py"
COQ = ROOT / "coq"

CHECK = '''    if isinstance(settings["rst"]["headers"].get(), dict):
        raise ConfigTypeError("rst.headers: must be a list of strings or a string, not a mapping")
'''
GET = '''    settings_dict = settings.get(
        config_template(output_dir_relative_to_config))
'''
COMMENT = '''    # confuse's StrSeq template turns any iterable into a list, so a mapping given for
    # rst.headers would be replaced by its keys instead of being rejected
'''

def mutants(text):
    assert CHECK in text and GET in text and COMMENT in text
    yield "unmodified", text
    yield "a_check_dropped", text.replace(COMMENT, "").replace(CHECK, "")
    yield "b_list_instead_of_dict", text.replace(CHECK, CHECK.replace(", dict)", ", list)"))
    moved = text.replace(COMMENT, "").replace(CHECK, "").replace(GET, CHECK + "\n" + GET)
    yield "c_check_before_settings_get", moved
    yield "d_check_on_other_option", text.replace(CHECK, CHECK.replace('["rst"]["headers"]', '["rst"]["prefix"]'))
    yield "e_raise_replaced_by_pass", text.replace(CHECK, CHECK.split("\n")[0] + "\n        pass\n")
    yield "f_check_on_validated_dict", text.replace(CHECK, CHECK.replace('settings["rst"]["headers"].get()', 'settings_dict["rst"]["headers"]'))
    yield "g_dict_or_list", text.replace(CHECK, CHECK.replace(", dict)", ", (dict, list))"))

EXAMPLES = ["ex_run_ok", "ex_run_bad_types", "ex_run_bad_types_winning", "ex_run_other", "ex_run_headers",
            "ex_run_headers_and_exclude", "ex_file_between", "wrong_exclude_type_error_kind_refuted"]

def strip_examples(text):
    for name in EXAMPLES:
        text, n = re.subn(r"Example %s :.*?Qed\.\n" % re.escape(name), "", text, flags=re.S)
        assert n == 1, name
        text = text.replace("Print Assumptions %s.\n" % name, "")
    return text

def enclosing(text, line):
    name = "?"
    for i, l in enumerate(text.split("\n"), 1):
        m = re.match(r"(Theorem|Lemma|Example|Corollary|Definition) (\w+)", l)
        if m:
            if i > line:
                break
            name = m.group(2)
    return name

def coqc(tree, rel):
    r = subprocess.run(["timeout", "600", "coqc", "-Q", "theories", "CMinx", "theories/" + rel],
                       cwd=tree, capture_output=True, text=True)
    if r.returncode == 0:
        return "compiles"
    m = re.search(r'line (\d+), characters', r.stderr)
    line = int(m.group(1)) if m else 0
    err = r.stderr.split("Error:")[-1].strip().split("\n")[0][:100] if "Error" in r.stderr else r.stderr[-100:]
    return "FAILS at line %d (%s): %s" % (line, enclosing((Path(tree) / "theories" / rel).read_text(), line), err)

def main():
    text = SRC.read_text()
    for name, mutated in mutants(text):
        repo = ROOT / "repo_copy" / name
        (repo / "src/cminx").mkdir(parents=True, exist_ok=True)
        (repo / "src/cminx/__init__.py").write_text(mutated)
        tree = ROOT / "neg" / name
        if tree.exists():
            shutil.rmtree(tree)
        shutil.copytree(COQ, tree)
        r = subprocess.run([sys.executable, str(TRANSLATOR), str(repo), str(tree / "theories/Gen")],
                           capture_output=True, text=True)
        print("== %s: translator exit %d %s" % (name, r.returncode, r.stderr.strip()[:200]))
        print("   Gen/PyMainSource.v     :", coqc(tree, "Gen/PyMainSource.v"))
        print("   MainSourceMatch (full) :", coqc(tree, "Proofs/MainSourceMatch.v"))
        msm = tree / "theories/Proofs/MainSourceMatch.v"
        msm.write_text(strip_examples(msm.read_text()))
        print("   MainSourceMatch (thms) :", coqc(tree, "Proofs/MainSourceMatch.v"))
        sys.stdout.flush()

if __name__ == "__main__":
    main()
