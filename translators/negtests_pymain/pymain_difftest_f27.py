import sys, os, io, contextlib, traceback
sys.path.insert(0, '/tmp/f27fix/repo_snapshot/src')
os.environ['CMINXDIR'] = '/tmp/f27fix/pytest/userdir'
import warnings; warnings.filterwarnings('ignore')
import cminx, yaml
seen = []
cminx.document = lambda f, st: seen.append((f, list(st.rst.headers)))
def run(file_vals, user_vals, argv):
    seen.clear()
    up = '/tmp/f27fix/pytest/userdir/config.yaml'
    if user_vals is None:
        if os.path.exists(up): os.remove(up)
    else:
        open(up, 'w').write(yaml.safe_dump(user_vals))
    open('/tmp/f27fix/pytest/w/my.yaml', 'w').write(yaml.safe_dump(file_vals) if file_vals else '{}\n')
    try:
        with contextlib.redirect_stderr(io.StringIO()), contextlib.redirect_stdout(io.StringIO()):
            cminx.main(argv)
        return ('ok', list(seen))
    except BaseException as e:
        return (type(e).__name__, str(e)[:70], list(seen))
A = ['a', '-s', 'my.yaml']
for v in [{'=': 1, '-': 2}, {}, ['=', '-'], '= -', 3, ['=', 1]]:
    print(repr(v), '->', run({'rst': {'headers': v}}, None, A))
print('file str over user map ->', run({'rst': {'headers': '~'}}, {'rst': {'headers': {'=': 1}}}, A))
print('user map wins ->', run(None, {'rst': {'headers': {'=': 1}}}, ['a', 'b']))
print('nothing ->', run(None, None, ['a']))
print('map + excl str ->', run({'rst': {'headers': {'=': 1}}, 'input': {'exclude_filters': 'build'}}, None, A))
print('int + excl str ->', run({'rst': {'headers': 3}, 'input': {'exclude_filters': 'build'}}, None, A))
print('map + recursive int ->', run({'rst': {'headers': {'=': 1}}, 'input': {'recursive': 3}}, None, A))
