#!/usr/bin/env python3
"""second pass: the same mutants against the proof file with the concrete examples of main removed,
to see that the THEOREMS (not only the examples) stop compiling"""
import re, subprocess, sys
from pathlib import Path
ROOT = Path("/tmp/pymain")
COQ = ROOT / "neg/coq"
text = (ROOT / "coq/theories/Proofs/MainSourceMatch.v").read_text()
for ex in ["ex_run_ok", "ex_run_bad_types", "ex_run_bad_types_winning", "ex_run_other", "ex_file_between"]:
    text, n = re.subn(r"Example %s :.*?Qed\.\n" % ex, "", text, flags=re.S)
    assert n == 1, ex
(COQ / "theories/Proofs/MainSourceMatchT.v").write_text(text)
for repo in sorted((ROOT / "repo_copy").iterdir()):
    r = subprocess.run([sys.executable, str(ROOT / "translators/pymain2coq.py"), str(repo), str(COQ / "theories/Gen")],
                       capture_output=True, text=True)
    if r.returncode:
        print(f"=== {repo.name}: translator exit {r.returncode} (no main)")
        continue
    subprocess.run(["timeout", "300", "coqc", "-Q", "theories", "CMinx", "theories/Gen/PyMainSource.v"], cwd=COQ, check=True)
    c = subprocess.run(["timeout", "300", "coqc", "-Q", "theories", "CMinx", "theories/Proofs/MainSourceMatchT.v"],
                       cwd=COQ, capture_output=True, text=True)
    msg = "\n".join(l for l in (c.stdout + c.stderr).splitlines() if not l.startswith("Closed"))
    print(f"=== {repo.name}: coqc exit {c.returncode}")
    if c.returncode:
        m = re.search(r"line (\d+)", msg)
        line = int(m.group(1))
        lines = text.splitlines()
        # which lemma / theorem contains the failing line
        k = line - 1
        while k >= 0 and not re.match(r"(Lemma|Theorem|Corollary|Example) ", lines[k]):
            k -= 1
        print(f"    fails at line {line} inside: {lines[k][:90]}")
        print(f"    tactic: {lines[line-1].strip()[:110]}")
