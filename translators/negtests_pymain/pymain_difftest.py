import os, sys, tempfile, json, warnings, shutil
warnings.simplefilter("ignore")
sys.path.insert(0, "/tmp/pymain/repo_snapshot/src")
work = tempfile.mkdtemp(prefix="work")
udir = os.path.join(work, "userconf"); os.makedirs(udir)
os.environ["CMINXDIR"] = udir
open(os.path.join(udir, "config.yaml"), "w").write("input:\n  exclude_filters: ['user*']\nrst:\n  prefix: U\n")
os.makedirs(os.path.join(work, "cfg"))
os.chdir(work)
import cminx
calls = []
def fake_document(f, st):
    calls.append((f, list(st.input.exclude_filters), st.output.directory, st.rst.prefix))
cminx.document = fake_document
def run(file_value, argv):
    calls.clear()
    open("cfg/my.yaml", "w").write("input:\n  exclude_filters: %s\noutput:\n  relative_to_config: true\n  directory: out\n" % file_value)
    try:
        cminx.main(argv)
        return ("Returned", [(f, ",".join(e), (d or "None").replace(work, "/work"), p) for f, e, d, p in calls])
    except SystemExit as e:
        return ("SystemExit", e.code, len(calls))
    except Exception as e:
        return (type(e).__name__, str(e).replace(work, "/work")[:90], len(calls))
print(run("[file1, file2]", ["b.cmake", "a", "-s", "cfg/my.yaml", "-e", "cli*", "-p", "P"]))
for v in ["build", "{a: 1}", "[a, 1]", "3", "true", "null"]:
    print(v, run(v, ["a", "-s", "cfg/my.yaml", "-e", "cli*"]))
for v in ["3", "build"]:
    print("no -e", v, run(v, ["a", "-s", "cfg/my.yaml"]))
print(run("null", ["a", "-s", "nope.yaml"]))
import io, contextlib
with contextlib.redirect_stderr(io.StringIO()):
    print(run("null", ["-r"]))
print(run("[]", ["a"]))
print(run("[]", ["a", "-s", work + "/cfg/my.yaml"]))
print(run("[]", ["a", "-s", "cfg/my.yaml", "-o", "/abs"]))
shutil.rmtree(work)
