#!/usr/bin/env python3
"""The control flow of main() in src/cminx/__init__.py  ->  Gen/PyMainSource.v
(mechanical, statement-by-statement translation).

    python3 pymain2coq.py <repo> <outdir>

Reads the CURRENT source with the ast module.  The function main() becomes one Gallina
function over the monad and the library combinators of Base/PyMainSem.v (every for loop body
becomes a definition of its own, main_for_<n>); Proofs/MainSourceMatch.v proves that the result
equals the readable composition model_main of the functions of Model/Config.v and
Walk.run_inputs, for all inputs.  The translator consists of generic rules for statement /
expression forms and of the declared tables below (library functions, methods, dropped calls);
there is no per-function Coq text.  It is FAIL-CLOSED: any AST node outside the supported subset
stops it with a non-zero exit status naming the node (file:line) and leaves a stub in which
main is not defined, so that Proofs/MainSourceMatch.v cannot compile.  Nothing of the
repository is imported or executed.

The translation scheme is documented in the header this script writes into PyMainSource.v.
"""
import ast
import sys
from pathlib import Path

sys.path.insert(0, str(Path(__file__).resolve().parent))
from coqfmt import cstr

SOURCE = "src/cminx/__init__.py"
FUNCTION = "main"
MODULE_NAME = "cminx"      # the value of __name__ inside src/cminx/__init__.py
OUTPUT = "PyMainSource.v"

# ---- declared tables ---------------------------------------------------------------------
# type tags of the translator and the Gallina types they stand for
COQ_TYPES = {
    "str": "str", "strlist": "list str", "optstr": "option str", "bool": "bool",
    "namespace": "parsed", "config": "py_config", "view": "py_view", "yval": "yval",
    "source": "source", "template": "py_template", "settings_dict": "py_settings_dict",
    "dictview": "py_dictview", "settings_obj": "py_settings_obj", "cval": "cval", "unit": "unit",
}
# the argparse parser: its construction and its add_argument calls are rendered as DATA
# (Gen/ConfigData.cli_table) by config2coq.py; here those statements are skipped and counted
PARSER_CTOR = "argparse.ArgumentParser"
PARSER_TABLE = "ConfigData.cli_table"
# library functions: dotted name -> (parameter types, result type, combinator, monadic?)
FUNCS = {
    "os.path.abspath": (["str"], "str", "py_os_path_abspath env", False),
    "config_template": (["bool"], "template", "py_config_template ConfigData.template", False),
    "dict_to_settings": (["settings_dict"], "settings_obj", "py_dict_to_settings", False),
    "Configuration": (["str", "str"], "config", "cfg_Configuration env", True),
}
# methods that return a value: (receiver type, name) -> (parameter types, result, combinator,
# monadic?, receiver passed?)
METHODS = {
    ("parser", "parse_args"): (["strlist"], "namespace", "py_parse_args " + PARSER_TABLE, True, False),
    ("config", "get"): (["template"], "settings_dict", "cfg_get env", True, True),
    ("view", "get"): ([], "yval", "cfg_view_get", True, True),
    ("view", "resolve"): ([], ("list", ("tuple", "yval", "source")), "cfg_view_resolve", False, True),
}
# methods called as statements that mutate their receiver (a variable, rebound to the result):
# (receiver type, name) -> (parameter types, required literal keywords, combinator)
MUTATORS = {
    ("config", "set_file"): (["str"], {}, "cfg_set_file env"),
    ("config", "set_args"): (["namespace"], {"dots": True}, "cfg_set_args " + PARSER_TABLE),
}
# attributes of the argparse namespace: name -> (type, combinator, shape the add_argument
# declaration of that destination must have)
NS_ATTRS = {
    "settings": ("optstr", "py_ns_opt {ns} {name}", "store"),
    "files": ("strlist", "py_ns_list " + PARSER_TABLE + " {ns} {name}", "positional+"),
}
# module-level functions passed to the generated function as opaque parameters (statement calls)
OPAQUE = {"document": (["str", "settings_obj"], "py_call_document document")}
OPAQUE_SIG = {"document": "str -> py_settings_obj -> list action"}
# where the library names must come from:  name -> module of the  from <module> import <name>
EXPECTED_IMPORTS = {"Configuration": "confuse", "ConfigTypeError": "confuse",
                    "config_template": "config", "dict_to_settings": "config"}
EXPECTED_MODULES = {"os", "argparse", "logging"}     # import <module>
# builtin classes usable in isinstance
PY_TYPES = {"list": "PyT_list", "tuple": "PyT_tuple", "str": "PyT_str", "dict": "PyT_dict",
            "bool": "PyT_bool", "int": "PyT_int"}
# exception classes a raise statement may construct (imported from confuse)
RAISABLE = {"ConfigTypeError"}
# DROPPED: calls without Gallina counterpart (their arguments must be inert expressions)
DROPPED_CALLS = {"logging.config.dictConfig", "logging.getLogger"}
LOGGER_VARS = {"logger"}                       # module-level logging.Logger objects
LOGGER_METHODS = {"debug", "info", "warning", "error"}
# pure, total library calls allowed on the right-hand side of a dropped (log-only) variable
INERT_CALLS = {"os.path.abspath", "type"}

RESERVED = {"s", "at", "as", "in", "if", "then", "else", "let", "fun", "forall", "exists", "match",
            "with", "end", "return", "fix", "cofix", "for", "where", "using", "Type", "Prop", "Set",
            "SProp", "nat", "bool", "list", "option", "true", "false", "None", "Some", "str", "map",
            "length", "fst", "snd", "app", "negb", "andb", "orb", "N", "nl", "dot", "tt", "unit",
            "env", "document", "source", "yval", "cval", "parsed", "action", "assoc", "resolve",
            "template", "M", "Ret", "Raise", "Halt", "main"}


class Unsupported(Exception):
    pass


class Ctx:
    file = "?"


def fail(node, why):
    line = getattr(node, "lineno", "?")
    dump = ast.dump(node) if isinstance(node, ast.AST) else repr(node)
    if len(dump) > 300:
        dump = dump[:300] + "..."
    raise Unsupported(f"{Ctx.file}:{line}: unsupported Python ({why}): {dump}")


def mangle(name):
    if name in RESERVED or name in OPAQUE or name.startswith(("py_", "cfg_", "tmp", "narrowed", "main_", "env_")):
        return name + "_"
    return name


def ind(text, n=2):
    pad = " " * n
    return "\n".join(pad + l if l else l for l in text.split("\n"))


def dotted(node):
    if isinstance(node, ast.Name):
        return node.id
    if isinstance(node, ast.Attribute):
        d = dotted(node.value)
        return None if d is None else d + "." + node.attr
    return None


class ListT:
    """the type of a python list; elem is None for the literal [] until its first use fixes it"""
    def __init__(self, elem=None):
        self.elem = elem


def mk_type(t):
    if isinstance(t, tuple) and t[0] == "list":
        return ListT(mk_type(t[1]))
    if isinstance(t, tuple) and t[0] == "tuple":
        return ("tuple",) + tuple(mk_type(x) for x in t[1:])
    return t


def same_type(a, b):
    if isinstance(a, ListT) and isinstance(b, ListT):
        if a.elem is None or b.elem is None:
            return True
        return same_type(a.elem, b.elem)
    if isinstance(a, ListT) or isinstance(b, ListT):
        if {"strlist"} & {a, b}:
            other = a if isinstance(a, ListT) else b
            return other.elem in (None, "str")
        return False
    return a == b


def coq_type(t, node=None):
    if isinstance(t, ListT):
        if t.elem is None:
            fail(node, "the element type of an empty list literal is never determined")
        return f"list {paren(coq_type(t.elem, node))}"
    if isinstance(t, tuple) and t[0] == "tuple":
        return " * ".join(paren(coq_type(x, node)) for x in t[1:])
    if t not in COQ_TYPES:
        fail(node, f"no Gallina type for {t}")
    return COQ_TYPES[t]


def paren(x):
    return f"({x})" if " " in x and not x.startswith("(") else x


def show_type(t):
    if isinstance(t, ListT):
        return f"list[{show_type(t.elem)}]"
    return str(t)


# ---- inert expressions (evaluation has no effect and cannot raise; used for dropped code) ----

def inert(node):
    if isinstance(node, (ast.Constant, ast.Name)):
        return True
    if isinstance(node, ast.Attribute):
        return inert(node.value)
    if isinstance(node, ast.JoinedStr):
        return all(inert(v) for v in node.values)
    if isinstance(node, ast.FormattedValue):
        return node.format_spec is None and inert(node.value)
    if isinstance(node, ast.BinOp) and isinstance(node.op, ast.Add):
        return inert(node.left) and inert(node.right)
    if isinstance(node, ast.Subscript):
        return inert(node.value) and isinstance(node.slice, ast.Constant)
    if isinstance(node, ast.Call):
        return dotted(node.func) in INERT_CALLS and not node.keywords and all(inert(a) for a in node.args)
    return False


def data_only(node):
    """argument of the parser construction: literals, names and their concatenation"""
    if isinstance(node, (ast.Constant, ast.Name)):
        return True
    if isinstance(node, ast.BinOp) and isinstance(node.op, ast.Add):
        return data_only(node.left) and data_only(node.right)
    return False


# ---- the environment of the translation ------------------------------------------------------

class Env:
    def __init__(self, vars=None, order=None, narrow=None, depth=0, loop=None):
        self.vars = dict(vars or {})          # python name -> type
        self.order = list(order or [])        # python names in order of definition
        self.narrow = dict(narrow or {})      # ast.dump(expr) -> (gallina name, type)
        self.depth = depth                    # nesting inside if / for
        self.loop = loop                      # state variables of the enclosing loop, or None

    def copy(self, **kw):
        e = Env(self.vars, self.order, self.narrow, self.depth, self.loop)
        for k, v in kw.items():
            setattr(e, k, v)
        return e

    def bind(self, name, typ):
        e = self.copy()
        e.vars[name] = typ
        if name not in e.order:
            e.order.append(name)
        # a rebound variable invalidates what was learnt about expressions mentioning it
        e.narrow = {k: v for k, v in e.narrow.items() if f"id='{name}'" not in k}
        return e


class Translator:
    def __init__(self, module, fn):
        self.module = module
        self.fn = fn
        self.tmp = 0
        self.loops = []            # emitted loop-body definitions
        self.nloops = 0
        self.add_argument_calls = 0
        self.uses_opaque = []
        self.module_functions = {n.name for n in module.body if isinstance(n, ast.FunctionDef)}
        self.imported = set()
        for n in module.body:
            if isinstance(n, ast.ImportFrom):
                for a in n.names:
                    self.imported.add(a.asname or a.name)
            elif isinstance(n, ast.Import):
                for a in n.names:
                    self.imported.add((a.asname or a.name).split(".")[0])
        self.check_imports()
        self.dest_shapes = {}      # argparse destination -> shape of its declaration
        # names read outside dropped statements (for the log-only rule)
        self.live_reads = self.compute_live_reads(fn)

    def check_imports(self):
        """the declared library names are the imported ones and nothing at module level rebinds them"""
        origin = {}
        for n in self.module.body:
            if isinstance(n, ast.ImportFrom):
                for a in n.names:
                    origin[a.asname or a.name] = n.module
            elif isinstance(n, (ast.FunctionDef, ast.ClassDef)):
                if n.name in EXPECTED_IMPORTS or n.name in EXPECTED_MODULES:
                    fail(n, f"module-level definition shadows the library name {n.name}")
            elif isinstance(n, (ast.Assign, ast.AnnAssign)):
                for tg in (n.targets if isinstance(n, ast.Assign) else [n.target]):
                    if isinstance(tg, ast.Name) and (tg.id in EXPECTED_IMPORTS or tg.id in EXPECTED_MODULES
                                                     or tg.id in OPAQUE):
                        fail(n, f"module-level assignment rebinds {tg.id}")
        for name, mod in EXPECTED_IMPORTS.items():
            if name in origin and origin[name] != mod:
                fail(self.module, f"{name} is imported from {origin[name]}, the combinator stands for {mod}.{name}")
        for node in ast.walk(self.fn):
            if isinstance(node, (ast.FunctionDef, ast.AsyncFunctionDef, ast.Lambda, ast.ClassDef)) and node is not self.fn:
                fail(node, "nested definition")
            if isinstance(node, (ast.Import, ast.ImportFrom, ast.Nonlocal, ast.With, ast.Try, ast.While,
                                 ast.Return, ast.Delete, ast.AugAssign, ast.Yield, ast.YieldFrom, ast.Await)):
                fail(node, "statement / expression form")
            if isinstance(node, ast.Name) and isinstance(node.ctx, ast.Store) \
                    and (node.id in EXPECTED_IMPORTS or node.id in EXPECTED_MODULES or node.id in OPAQUE
                         or node.id in FUNCS):
                fail(node, f"assignment to the library name {node.id}")
        for o, (types, _) in OPAQUE.items():
            defs = [n for n in self.module.body if isinstance(n, ast.FunctionDef) and n.name == o]
            if len(defs) != 1 or len(defs[0].args.args) != len(types) or defs[0].args.vararg or defs[0].args.kwarg \
                    or defs[0].decorator_list:
                fail(self.module, f"{o} is not a plain module-level function of {len(types)} parameters")
        if self.fn.decorator_list:
            fail(self.fn, "decorated function")

    # -- helpers ------------------------------------------------------------------------------
    def fresh(self, base="tmp"):
        self.tmp += 1
        return f"{base}{self.tmp}"

    def is_dropped_call(self, call):
        if not isinstance(call, ast.Call):
            return False
        d = dotted(call.func)
        if d in DROPPED_CALLS:
            return True
        f = call.func
        return (isinstance(f, ast.Attribute) and isinstance(f.value, ast.Name)
                and f.value.id in LOGGER_VARS and f.attr in LOGGER_METHODS)

    def check_dropped_call(self, call):
        if call.keywords or not all(inert(a) for a in call.args):
            fail(call, "argument of a dropped call is not an inert expression")

    def is_dropped_stmt(self, st):
        if isinstance(st, ast.Expr) and self.is_dropped_call(st.value):
            return True
        if isinstance(st, ast.Global):
            return all(n in LOGGER_VARS for n in st.names)
        if isinstance(st, ast.Assign) and len(st.targets) == 1 and isinstance(st.targets[0], ast.Name) \
                and st.targets[0].id in LOGGER_VARS and self.is_dropped_call(st.value):
            return True
        return False

    def compute_live_reads(self, fn):
        live = set()

        def visit(node):
            if isinstance(node, ast.stmt) and self.is_dropped_stmt(node):
                return
            if isinstance(node, ast.Name) and isinstance(node.ctx, ast.Load):
                live.add(node.id)
            for c in ast.iter_child_nodes(node):
                visit(c)
        for st in fn.body:
            visit(st)
        return live

    def wrap(self, prefix, body):
        """nested binds for the monadic sub-expressions evaluated before body"""
        for name, mcode in reversed(prefix):
            body = f"py_bind ({mcode}) (fun {name} =>\n{body})"
        return body

    # -- expressions: (prefix, code, type); prefix = [(temp, monadic code)] evaluated first ------
    def expr(self, node, env):
        key = ast.dump(node)
        if key in env.narrow:
            name, typ = env.narrow[key]
            return [], name, typ
        if isinstance(node, ast.Constant):
            v = node.value
            if v is True or v is False:
                return [], "true" if v else "false", "bool"
            if isinstance(v, str):
                return [], cstr(v), "str"
            fail(node, "constant")
        if isinstance(node, ast.List):
            if node.elts:
                fail(node, "non-empty list literal")
            return [], "[]", ListT(None)
        if isinstance(node, ast.Name):
            if node.id == "__name__":
                return [], cstr(MODULE_NAME), "str"
            if node.id not in env.vars:
                fail(node, f"variable {node.id} is not defined on every path to this point")
            return [], mangle(node.id), env.vars[node.id]
        if isinstance(node, ast.Attribute):
            return self.attribute(node, env)
        if isinstance(node, ast.Subscript):
            return self.subscript(node, env)
        if isinstance(node, ast.UnaryOp) and isinstance(node.op, ast.Not):
            p, c, t = self.truth(node.operand, env)
            return p, f"(negb {c})", "bool"
        if isinstance(node, ast.BoolOp):
            return self.boolop(node, env)
        if isinstance(node, ast.Compare):
            return self.compare(node, env)
        if isinstance(node, ast.Call):
            return self.call(node, env)
        fail(node, "expression form")

    def value(self, node, env):
        """an expression used as a value: a subscripted settings dictionary is read here"""
        p, c, t = self.expr(node, env)
        if t == "dictview":
            tmp = self.fresh()
            return p + [(tmp, f"py_dict_value {c}")], tmp, "cval"
        return p, c, t

    def truth(self, node, env):
        """an expression in a boolean context"""
        p, c, t = self.value(node, env)
        if t == "bool":
            return p, c, t
        if t == "yval":
            return p, f"(py_truthy {c})", "bool"
        fail(node, f"truth value of a {show_type(t)}")

    def attribute(self, node, env):
        if isinstance(node.value, ast.Name) and env.vars.get(node.value.id) == "namespace":
            if node.attr not in NS_ATTRS:
                fail(node, f"namespace attribute {node.attr} is not declared")
            typ, pat, shape = NS_ATTRS[node.attr]
            if self.dest_shapes.get(node.attr) != shape:
                fail(node, f"the add_argument declaration of {node.attr} is {self.dest_shapes.get(node.attr)}, "
                           f"expected {shape}")
            return [], "(" + pat.format(ns=mangle(node.value.id), name=cstr(node.attr)) + ")", typ
        fail(node, "attribute")

    def subscript(self, node, env):
        if not (isinstance(node.slice, ast.Constant) and isinstance(node.slice.value, str)):
            fail(node, "subscript is not a string literal")
        k = cstr(node.slice.value)
        p, c, t = self.expr(node.value, env)
        if t == "config":
            return p, f"(cfg_sub (cfg_root {c}) {k})", "view"
        if t == "view":
            return p, f"(cfg_sub {c} {k})", "view"
        if t == "settings_dict":
            return p, f"(py_dict_sub (py_dict_root {c}) {k})", "dictview"
        if t == "dictview":
            return p, f"(py_dict_sub {c} {k})", "dictview"
        fail(node, f"subscript of a {show_type(t)}")

    def boolop(self, node, env):
        # short circuit: a later operand with monadic parts is only evaluated when needed
        is_or = isinstance(node.op, ast.Or)
        p, c, _ = self.truth(node.values[0], env)
        for operand in node.values[1:]:
            p2, c2, _ = self.truth(operand, env)
            if not p2:
                c = f"({'orb' if is_or else 'andb'} {c} {c2})"
            else:
                tmp = self.fresh()
                rest = self.wrap(p2, f"py_ret {c2}")
                m = (f"if {c} then py_ret true else\n{ind(rest)}" if is_or
                     else f"if {c} then\n{ind(rest)}\nelse py_ret false")
                p = p + [(tmp, m)]
                c = tmp
        return p, c, "bool"

    def compare(self, node, env):
        if len(node.ops) != 1:
            fail(node, "chained comparison")
        op, right = node.ops[0], node.comparators[0]
        if isinstance(op, (ast.Is, ast.IsNot)) and isinstance(right, ast.Constant) and right.value is None:
            p, c, t = self.value(node.left, env)
            if t == "yval":
                r = f"(py_yval_is_none {c})"
            elif t == "cval":
                r = f"(py_cval_is_none {c})"
            else:
                fail(node, f"comparison of a {show_type(t)} with None (only as the test of an if statement)")
            return p, (r if isinstance(op, ast.Is) else f"(negb {r})"), "bool"
        fail(node, "comparison")

    def args_of(self, call, types, env, what):
        if len(call.args) != len(types):
            fail(call, f"{what} takes {len(types)} positional argument(s)")
        prefix, codes = [], []
        for a, ty in zip(call.args, types):
            p, c, t = self.value(a, env)
            if not same_type(t, mk_type(ty)):
                fail(a, f"argument of {what} has type {show_type(t)}, expected {ty}")
            prefix += p
            codes.append(c)
        return prefix, codes

    def call(self, node, env):
        d = dotted(node.func)
        # isinstance(x, T) / isinstance(x, (T1, T2))
        if d == "isinstance":
            if len(node.args) != 2 or node.keywords:
                fail(node, "isinstance shape")
            p, c, t = self.value(node.args[0], env)
            if t != "yval":
                fail(node, f"isinstance of a {show_type(t)}")
            tn = node.args[1]
            elts = tn.elts if isinstance(tn, ast.Tuple) else [tn]
            names = []
            for e in elts:
                if not (isinstance(e, ast.Name) and e.id in PY_TYPES):
                    fail(e, "class in isinstance")
                names.append(PY_TYPES[e.id])
            return p, f"(py_isinstance {c} [{'; '.join(names)}])", "bool"
        # all(P for v in xs)
        if d == "all":
            if len(node.args) != 1 or node.keywords or not isinstance(node.args[0], ast.GeneratorExp):
                fail(node, "all() of something else than a generator expression")
            g = node.args[0]
            if len(g.generators) != 1 or g.generators[0].ifs or g.generators[0].is_async \
                    or not isinstance(g.generators[0].target, ast.Name):
                fail(g, "generator expression shape")
            p, xs, elem = self.iterable(g.generators[0].iter, env)
            v = g.generators[0].target.id
            p2, c2, _ = self.truth(g.elt, env.bind(v, elem))
            if p2:
                fail(g.elt, "element of a generator expression may raise")
            return p, f"(py_all (fun {mangle(v)} => {c2}) {xs})", "bool"
        if d in FUNCS and (d.split(".")[0] in self.imported):
            if node.keywords:
                fail(node, "keyword argument")
            types, res, comb, monadic = FUNCS[d]
            prefix, codes = self.args_of(node, types, env, d)
            code = f"({comb} {' '.join(codes)})" if codes else comb
            if monadic:
                tmp = self.fresh()
                return prefix + [(tmp, code[1:-1] if codes else code)], tmp, mk_type(res)
            return prefix, code, mk_type(res)
        if isinstance(node.func, ast.Attribute):
            p, c, t = self.expr(node.func.value, env)
            key = (t if isinstance(t, str) else None, node.func.attr)
            if key in METHODS:
                if node.keywords:
                    fail(node, "keyword argument")
                types, res, comb, monadic, pass_recv = METHODS[key]
                prefix, codes = self.args_of(node, types, env, f"{key[0]}.{key[1]}")
                allargs = ([c] if pass_recv else []) + codes
                code = f"{comb} {' '.join(allargs)}"
                if monadic:
                    tmp = self.fresh()
                    return p + prefix + [(tmp, code)], tmp, mk_type(res)
                return p + prefix, f"({code})", mk_type(res)
        fail(node, "call")

    def iterable(self, node, env):
        """an expression that is iterated: (prefix, code of the list, element type)"""
        p, c, t = self.value(node, env)
        if t == "yval":
            tmp = self.fresh()
            return p + [(tmp, f"py_iter {c}")], tmp, "yval"
        if t == "strlist":
            return p, c, "str"
        if isinstance(t, ListT) and t.elem is not None:
            return p, c, t.elem
        fail(node, f"iteration over a {show_type(t)}")

    # -- statements -----------------------------------------------------------------------------
    def assigned(self, stmts):
        """variables assigned (or mutated in place) by the non-dropped statements, in order"""
        out = []

        def add(n):
            if n not in out:
                out.append(n)

        def visit(st):
            if self.is_dropped_stmt(st):
                return
            if isinstance(st, ast.Assign):
                for tg in st.targets:
                    if isinstance(tg, ast.Name):
                        if tg.id in self.live_reads:
                            add(tg.id)
                    elif isinstance(tg, ast.Attribute):
                        b = tg
                        while isinstance(b, ast.Attribute):
                            b = b.value
                        if isinstance(b, ast.Name):
                            add(b.id)
                        else:
                            fail(tg, "assignment target")
                    else:
                        fail(tg, "assignment target")
            elif isinstance(st, ast.Expr) and isinstance(st.value, ast.Call) \
                    and isinstance(st.value.func, ast.Attribute) and isinstance(st.value.func.value, ast.Name) \
                    and st.value.func.value.id not in LOGGER_VARS:
                add(st.value.func.value.id)
            elif isinstance(st, ast.If):
                for x in st.body + st.orelse:
                    visit(x)
            elif isinstance(st, ast.For):
                for x in st.body:
                    visit(x)
        for st in stmts:
            visit(st)
        return out

    def terminates(self, stmts):
        if not stmts:
            return False
        last = stmts[-1]
        if isinstance(last, (ast.Continue, ast.Raise)):
            return True
        if isinstance(last, ast.If):
            return self.terminates(last.body) and self.terminates(last.orelse)
        return False

    def state_tuple(self, names, env, node):
        for n in names:
            if n not in env.vars:
                fail(node, f"variable {n} assigned in a branch / loop body must be defined before it")
        if not names:
            return "tt"
        if len(names) == 1:
            return mangle(names[0])
        return "(" + ", ".join(mangle(n) for n in names) + ")"

    def state_pattern(self, names):
        if not names:
            return "_"
        if len(names) == 1:
            return mangle(names[0])
        return "'(" + ", ".join(mangle(n) for n in names) + ")"

    def block(self, stmts, env, tail):
        """M-code for the statements followed by tail(env)"""
        if not stmts:
            return tail(env)
        st, rest = stmts[0], stmts[1:]
        note = f"(* line {st.lineno} *) "
        if isinstance(st, ast.Expr) and isinstance(st.value, ast.Constant) and isinstance(st.value.value, str):
            return self.block(rest, env, tail)                       # docstring
        if self.is_dropped_stmt(st):
            if isinstance(st, ast.Expr):
                self.check_dropped_call(st.value)
            elif isinstance(st, ast.Assign):
                self.check_dropped_call(st.value)
            return f"(* line {st.lineno}: dropped *)\n" + self.block(rest, env, tail)
        if isinstance(st, ast.Continue):
            if env.loop is None:
                fail(st, "continue outside a loop")
            if rest:
                fail(rest[0], "statement after continue")
            return note + f"py_ret {self.state_tuple(env.loop, env, st)}"
        if isinstance(st, ast.Raise):
            if rest:
                fail(rest[0], "statement after raise")
            e = st.exc
            if st.cause is not None or not isinstance(e, ast.Call) or not isinstance(e.func, ast.Name) \
                    or e.func.id not in RAISABLE or e.func.id not in self.imported:
                fail(st, "raise of something else than a declared exception class")
            if e.keywords or not all(inert(a) for a in e.args):
                fail(st, "exception argument is not an inert expression")
            return note + f"py_raise (ExcRaised {cstr(e.func.id)})"
        if isinstance(st, ast.Assign):
            return note + self.assign(st, rest, env, tail)
        if isinstance(st, ast.Expr) and isinstance(st.value, ast.Call):
            return self.call_stmt(st, rest, env, tail, note)
        if isinstance(st, ast.If):
            return note + self.if_stmt(st, rest, env, tail)
        if isinstance(st, ast.For):
            return note + self.for_stmt(st, rest, env, tail)
        fail(st, "statement form")

    def assign(self, st, rest, env, tail):
        if len(st.targets) != 1:
            fail(st, "multiple assignment targets")
        tg = st.targets[0]
        if isinstance(tg, ast.Name):
            name = tg.id
            # the parser object: data, rendered by config2coq.py
            if isinstance(st.value, ast.Call) and dotted(st.value.func) == PARSER_CTOR:
                if st.value.args or not all(data_only(k.value) for k in st.value.keywords):
                    fail(st, "parser construction is not data only")
                if env.depth:
                    fail(st, "parser constructed inside a branch")
                return (f"(* parser: see Gen/ConfigData.cli_table *)\n"
                        + self.block(rest, env.bind(name, "parser"), tail))
            # a variable only read by dropped calls
            if name not in self.live_reads:
                if not inert(st.value):
                    fail(st, f"{name} is only read by dropped calls but its value is not an inert expression")
                return f"(* dropped: {name} is only read by dropped calls *)\n" + self.block(rest, env, tail)
            p, c, t = self.value(st.value, env)
            if name in env.vars and env.depth and not same_type(env.vars[name], t):
                fail(st, f"variable {name} changes its type from {show_type(env.vars[name])} to "
                         f"{show_type(t)} inside a branch / loop body")
            if t == "parser":
                fail(st, "alias of the parser")
            body = f"let {mangle(name)} := {c} in\n" + self.block(rest, env.bind(name, t), tail)
            return self.wrap(p, body)
        if isinstance(tg, ast.Attribute):
            path = []
            b = tg
            while isinstance(b, ast.Attribute):
                path.insert(0, b.attr)
                b = b.value
            if not (isinstance(b, ast.Name) and env.vars.get(b.id) == "settings_obj"):
                fail(tg, "attribute assignment on something else than the settings object")
            p, c, t = self.value(st.value, env)
            if not (isinstance(t, ListT) and t.elem == "yval"):
                fail(st, f"attribute assignment of a {show_type(t)}")
            o = mangle(b.id)
            body = (f"py_bind (py_setattr_list {o} {cstr('.'.join(path))} {c}) (fun {o} =>\n"
                    + self.block(rest, env.bind(b.id, "settings_obj"), tail) + ")")
            return self.wrap(p, body)
        fail(tg, "assignment target")

    def call_stmt(self, st, rest, env, tail, note):
        call = st.value
        f = call.func
        d = dotted(f)
        if d in OPAQUE:
            if d not in self.module_functions:
                fail(call, f"{d} is not a function of this module")
            if call.keywords:
                fail(call, "keyword argument")
            types, comb = OPAQUE[d]
            prefix, codes = self.args_of(call, types, env, d)
            if d not in self.uses_opaque:
                self.uses_opaque.append(d)
            return note + self.wrap(prefix, f"py_bind ({comb} {' '.join(codes)}) (fun _ =>\n"
                                    + self.block(rest, env, tail) + ")")
        if isinstance(f, ast.Attribute) and isinstance(f.value, ast.Name) and f.value.id in env.vars:
            recv, rt = f.value.id, env.vars[f.value.id]
            if rt == "parser" and f.attr == "add_argument":
                if not all(data_only(a) for a in call.args) or not all(data_only(k.value) for k in call.keywords):
                    fail(call, "add_argument is not data only")
                if env.depth:
                    fail(call, "add_argument inside a branch")
                self.add_argument_calls += 1
                self.record_dest(call)
                return self.block(rest, env, tail)
            key = (rt if isinstance(rt, str) else None, f.attr)
            if key in MUTATORS:
                types, kws, comb = MUTATORS[key]
                got = {}
                for k in call.keywords:
                    if not isinstance(k.value, ast.Constant):
                        fail(call, "keyword argument is not a literal")
                    got[k.arg] = k.value.value
                if got != kws:
                    fail(call, f"keyword arguments {got}, the combinator stands for {kws}")
                prefix, codes = self.args_of(call, types, env, f"{rt}.{f.attr}")
                r = mangle(recv)
                return note + self.wrap(prefix, f"py_bind ({comb} {r} {' '.join(codes)}) (fun {r} =>\n"
                                        + self.block(rest, env.bind(recv, rt), tail) + ")")
            if isinstance(rt, ListT) and f.attr == "extend" and len(call.args) == 1 and not call.keywords:
                p, xs, elem = self.iterable(call.args[0], env)
                if rt.elem is None:
                    rt.elem = elem
                elif not same_type(rt.elem, elem):
                    fail(call, f"extend of a list[{show_type(rt.elem)}] by {show_type(elem)} items")
                r = mangle(recv)
                return note + self.wrap(p, f"let {r} := py_extend {r} {xs} in\n"
                                        + self.block(rest, env.bind(recv, rt), tail))
        fail(st, "call statement")

    def record_dest(self, call):
        flags = [a.value for a in call.args if isinstance(a, ast.Constant) and isinstance(a.value, str)]
        if len(flags) != len(call.args):
            fail(call, "add_argument flag is not a string literal")
        kw = {}
        for k in call.keywords:
            if k.arg in ("help", "version"):
                continue
            if not isinstance(k.value, ast.Constant):
                fail(call, f"add_argument keyword {k.arg} is not a literal")
            kw[k.arg] = k.value.value
        pos = [x for x in flags if not x.startswith("-")]
        dest = kw.get("dest")
        if dest is None:
            if pos:
                dest = pos[0]
            else:
                longs = [x for x in flags if x.startswith("--")]
                dest = (longs[0][2:] if longs else flags[0][1:]).replace("-", "_")
        if pos and kw.get("nargs") == "+" and set(kw) <= {"nargs"}:
            shape = "positional+"
        elif not pos and not (set(kw) - {"dest"}):
            shape = "store"
        else:
            shape = "other"
        self.dest_shapes[dest] = shape

    def if_stmt(self, st, rest, env, tail):
        body, orelse = st.body, st.orelse
        inner = env.copy(depth=env.depth + 1)
        # narrowing:  if E is not None  for an optional E
        narrowing = None
        t = st.test
        if isinstance(t, ast.Compare) and len(t.ops) == 1 and isinstance(t.ops[0], (ast.Is, ast.IsNot)) \
                and isinstance(t.comparators[0], ast.Constant) and t.comparators[0].value is None:
            p0, c0, t0 = self.expr(t.left, env)
            if t0 == "optstr":
                if p0:
                    fail(t, "optional expression may raise")
                narrowing = (ast.dump(t.left), c0, isinstance(t.ops[0], ast.IsNot))

        def branches(k_body, k_else):
            """the conditional with the given code for both branches"""
            if narrowing:
                key, c0, positive = narrowing
                n = self.fresh("narrowed")
                some_env = inner.copy(narrow={**inner.narrow, key: (n, "str")})
                some_code, none_code = (k_body, k_else) if positive else (k_else, k_body)
                some_stmts_env = some_env
                a = some_code(some_stmts_env)
                b = none_code(inner)
                return [], (f"match {c0} with\n| Some {n} =>\n{ind(a, 4)}\n| None =>\n{ind(b, 4)}\nend")
            p, c, _ = self.truth(st.test, env)
            return p, f"if {c} then\n{ind(k_body(inner))}\nelse\n{ind(k_else(inner))}"

        tb, te = self.terminates(body), self.terminates(orelse)
        if not tb and not te:
            names = self.assigned(body + orelse)
            ret = lambda e: f"py_ret {self.state_tuple(names, e, st)}"
            self.state_tuple(names, env, st)
            p, cond = branches(lambda e: self.block(body, e, ret), lambda e: self.block(orelse, e, ret))
            after = env
            for n in names:
                after = after.bind(n, env.vars[n])
            code = (f"py_bind (\n{ind(cond)}) (fun {self.state_pattern(names)} =>\n"
                    + self.block(rest, after, tail) + ")")
            return self.wrap(p, code)
        # a branch that ends in continue / raise: the rest of the block belongs to the other one
        unreachable = lambda e: fail(st, "internal: tail of a terminating branch")
        if tb and not te:
            p, cond = branches(lambda e: self.block(body, e, unreachable),
                               lambda e: self.block(orelse + rest, e.copy(depth=env.depth), tail))
        elif te and not tb:
            p, cond = branches(lambda e: self.block(body + rest, e.copy(depth=env.depth), tail),
                               lambda e: self.block(orelse, e, unreachable))
        else:
            if rest:
                fail(rest[0], "unreachable statement")
            p, cond = branches(lambda e: self.block(body, e, unreachable),
                               lambda e: self.block(orelse, e, unreachable))
        return self.wrap(p, cond)

    def for_stmt(self, st, rest, env, tail):
        if st.orelse:
            fail(st, "else clause of a for loop")
        p, xs, elem = self.iterable(st.iter, env)
        # targets
        if isinstance(st.target, ast.Name):
            targets, pat = [(st.target.id, elem)], None
        elif isinstance(st.target, ast.Tuple) and all(isinstance(e, ast.Name) for e in st.target.elts):
            if not (isinstance(elem, tuple) and elem[0] == "tuple" and len(elem) - 1 == len(st.target.elts)):
                fail(st.target, f"tuple target for elements of type {show_type(elem)}")
            targets = [(e.id, ty) for e, ty in zip(st.target.elts, elem[1:])]
            pat = "'(" + ", ".join("_" if n == "_" else mangle(n) for n, _ in targets) + ")"
        else:
            fail(st.target, "loop target")
        names = self.assigned(st.body)
        init = self.state_tuple(names, env, st)
        for n, _ in targets:
            if n in names:
                fail(st, f"loop variable {n} assigned in the body")
        # the body as a definition of its own
        self.nloops += 1
        idx = self.nloops
        fname = f"{FUNCTION}_for_{idx}"
        benv = env.copy(depth=env.depth + 1, loop=names)
        for n, ty in targets:
            if n != "_":
                benv = benv.bind(n, ty)
        ret = lambda e: f"py_ret {self.state_tuple(names, e, st)}"
        opaque_before = list(self.uses_opaque)
        body = self.block(st.body, benv, ret)
        # free variables of the body: variables of the enclosing scope it reads
        reads = []
        for node in ast.walk(ast.Module(body=st.body, type_ignores=[])):
            if isinstance(node, ast.Name) and node.id in env.vars and node.id not in names \
                    and node.id not in [n for n, _ in targets] and node.id not in reads \
                    and node.id in self.live_reads and env.vars[node.id] != "parser":
                reads.append(node.id)
        reads = [n for n in env.order if n in reads]
        opaque_here = [o for o in OPAQUE if self.body_calls(st.body, o)]
        params = "(env : pyenv)" + "".join(f" ({o} : {OPAQUE_SIG[o]})" for o in opaque_here) \
                 + "".join(f" ({mangle(n)} : {coq_type(env.vars[n], st)})" for n in reads)
        st_ty = "unit" if not names else " * ".join(paren(coq_type(env.vars[n], st)) for n in names)
        elem_ty = coq_type(elem, st)
        if pat is None:
            ebinder, unpack = f"({mangle(targets[0][0])} : {elem_ty})", ""
        else:
            ebinder, unpack = f"(elem : {elem_ty})", f"let {pat} := elem in\n"
        if not names:
            sbinder, sunpack = "(st : unit)", ""
        elif len(names) == 1:
            sbinder, sunpack = f"({mangle(names[0])} : {st_ty})", ""
        else:
            sbinder, sunpack = f"(st : {st_ty})", f"let {self.state_pattern(names)} := st in\n"
        self.loops.append(
            f"(* {SOURCE}, {FUNCTION}(): body of the for loop of line {st.lineno} *)\n"
            f"Definition {fname} {params} {sbinder} {ebinder} : M {paren(st_ty)} :=\n"
            + ind(sunpack + unpack + body) + ".\n")
        call = fname + " env" + "".join(f" {o}" for o in opaque_here) + "".join(f" {mangle(n)}" for n in reads)
        after = env
        for n in names:
            after = after.bind(n, env.vars[n])
        code = (f"py_bind (py_for {xs} ({call}) {init}) (fun {self.state_pattern(names)} =>\n"
                + self.block(rest, after, tail) + ")")
        return self.wrap(p, code)

    def body_calls(self, stmts, fname):
        for node in ast.walk(ast.Module(body=stmts, type_ignores=[])):
            if isinstance(node, ast.Call) and dotted(node.func) == fname:
                return True
        return False

    # -- the function ---------------------------------------------------------------------------
    def function(self):
        fn = self.fn
        a = fn.args
        if a.vararg or a.kwarg or a.kwonlyargs or a.posonlyargs or len(a.args) != 1:
            fail(fn, "signature")
        param = a.args[0]
        ann = ast.unparse(param.annotation) if param.annotation is not None else None
        if ann not in ("List[str]", "list[str]"):
            fail(fn, "parameter annotation is not List[str]")
        env = Env().bind(param.arg, "strlist")
        body = self.block(fn.body, env, lambda e: "py_ret tt")
        opaque = "".join(f" ({o} : {OPAQUE_SIG[o]})" for o in OPAQUE if self.body_calls(fn.body, o))
        return (f"(* {SOURCE}, {FUNCTION}() (line {fn.lineno}); the default value of the parameter is not rendered *)\n"
                f"Definition {FUNCTION} (env : pyenv){opaque} ({mangle(param.arg)} : list str) : M unit :=\n"
                + ind(body) + ".\n")


HEADER = """(* GENERATED by translators/pymain2coq.py from {src} -- do not edit;
   regenerated on every run.

   main() of {src}, statement by statement, over the monad and the library
   combinators of Base/PyMainSem.v (where the meaning of every combinator, i.e. what is assumed
   about confuse / argparse / os, is stated).  Proofs/MainSourceMatch.v proves
   py_run (main env document args) = model_main env document args  for all arguments.

   Translation scheme (one Gallina form per Python construct):
     def main(args)              Definition main (env : pyenv) (document : ..) (args : list str) : M unit
                                 env = what is read from outside (Base/PyMainSem.pyenv); document = the module-level
                                 function of that name, an opaque parameter; M = actions so far -> outcome * actions
     x = E                       let x := E in ...        a monadic sub-expression of E first:  py_bind (..) (fun tmpN => ...)
     parser = argparse.ArgumentParser(..); parser.add_argument(..)
                                 skipped: rendered as data (Gen/ConfigData.cli_table) by config2coq.py; counted below
     parser.parse_args(a)        py_parse_args ConfigData.cli_table a                       (monadic)
     Configuration(a, __name__)  cfg_Configuration env a (s 'cminx')                        (monadic)
     c.set_file(E)  c.set_args(ns, dots=True)      (statements)
                                 py_bind (cfg_set_file env c E) (fun c => ...)   /  cfg_set_args ConfigData.cli_table c ns
     c[k1][k2]                   cfg_sub (cfg_sub (cfg_root c) k1) k2       .get()  cfg_view_get (monadic)
                                 .resolve()  cfg_view_resolve (a list)     c.get(T)  cfg_get env c T (monadic)
     config_template(b)          py_config_template ConfigData.template b       dict_to_settings(d)  py_dict_to_settings d
     d[k1][k2]  (settings dict)  py_dict_value (py_dict_sub (py_dict_sub (py_dict_root d) k1) k2)   (monadic, KeyError)
     ns.settings / ns.files      py_ns_opt ns (s 'settings') / py_ns_list ConfigData.cli_table ns (s 'files')
                                 (the add_argument declaration of the destination must have the declared shape)
     os.path.abspath(E)          py_os_path_abspath env E
     if C: A else: B             py_bind (if C then A; py_ret st else B; py_ret st) (fun st => ...)
                                 st = the variables A / B assign (all must exist before); a yval test: py_truthy
     if E is not None: A         match E with Some narrowedN => A[E := narrowedN]; .. | None => .. end   (E optional)
     if C: ..; continue / raise  if C then .. else REST        the rest of the block goes to the other branch
     for v in XS: BODY           py_bind (py_for XS (main_for_n env <variables BODY reads>) st) (fun st => ...)
                                 BODY is the definition main_for_n; st = the variables BODY assigns;  continue = py_ret st
                                 XS a value read from a source: py_bind (py_iter XS) (fun tmpN => ..)  (TypeError)
     raise C(msg)                py_raise (ExcRaised (s 'C'))                the message is not represented
     E is None / not E / A or B  py_yval_is_none E / negb E / orb A B; when B has a monadic part (short circuit):
                                 py_bind (if A then py_ret true else B) (fun tmpN => ..)
     isinstance(E, (T1, T2))     py_isinstance E [PyT_T1; PyT_T2]
     all(P for v in XS)          py_all (fun v => P) XS          xs.extend(E)   let xs := py_extend xs E in ...
     obj.a.b = xs                py_bind (py_setattr_list obj (s 'a.b') xs) (fun obj => ...)
     document(f, obj)            py_bind (py_call_document document f obj) (fun _ => ...)
     end of the function         py_ret tt
   Dropped (declared rules): calls of logging.config.dictConfig, logging.getLogger, logger.debug/info/..,
     the global statement for logger, an assignment to a variable that is only read by dropped calls;
     their arguments must be inert expressions (names, attributes, literals, f-strings of those). *)
From Coq Require Import String List NArith Bool.
From CMinx Require Import Base.Str Model.Walk Model.Config Gen.ConfigData Base.PyMainSem.
Import ListNotations.

"""

STUB = """(* GENERATED by translators/pymain2coq.py (FAILED: stub) -- the source is outside the supported subset:
   {why}
   main is deliberately not defined: Proofs/MainSourceMatch.v cannot compile. *)
From CMinx Require Import Base.PyMainSem.
Definition pymain2coq_failed : unit := tt.
"""


def main():
    repo, out = Path(sys.argv[1]), Path(sys.argv[2])
    path = repo / SOURCE
    Ctx.file = SOURCE
    try:
        module = ast.parse(path.read_text())
        fns = [n for n in module.body if isinstance(n, ast.FunctionDef) and n.name == FUNCTION]
        if len(fns) != 1:
            raise Unsupported(f"{SOURCE}: expected exactly one function {FUNCTION}")
        tr = Translator(module, fns[0])
        text = tr.function()
        parts = [HEADER.format(src=SOURCE)]
        parts.append("(* number of parser.add_argument(...) calls skipped (Gen/ConfigData.cli_table has one entry per call) *)\n"
                     f"Definition {FUNCTION}_add_argument_calls : nat := {tr.add_argument_calls}.\n")
        parts += tr.loops
        parts.append(text)
        (out / OUTPUT).write_text("\n".join(parts))
    except (Unsupported, SyntaxError, OSError) as e:
        why = str(e).replace("(*", "( *").replace("*)", "* )").replace('"', "'")
        (out / OUTPUT).write_text(STUB.format(why=why))
        print("pymain2coq:", e, file=sys.stderr)
        sys.exit(3)


if __name__ == "__main__":
    main()
