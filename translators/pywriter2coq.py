#!/usr/bin/env python3
"""The document-building API of src/cminx/rstwriter.py (classes RSTWriter and Directive)
->  Gen/PyWriterSource.v   (mechanical, statement-by-statement translation).

    python3 pywriter2coq.py <repo> <outdir>

Reads the CURRENT source with the ast module.  Every method of the writer classes (except
the declared out-of-scope ones) becomes one Gallina function over the object representation
of Base/PyWriterSem.v; Proofs/WriterSourceMatch.v proves that these functions implement the
hand-written model Model/Writer.v (wstep, elem_text, doc_text).  The translator consists of
generic rules for statement / expression forms and of the declared tables below (attributes,
class roles); there is no per-method Coq text.  It is FAIL-CLOSED: any AST node outside the
supported subset stops it with a non-zero exit status naming the node (file:line).  Nothing of
the repository is imported or executed.

The translation scheme is documented in the header this script writes into PyWriterSource.v.
"""
import ast
import sys
from pathlib import Path

sys.path.insert(0, str(Path(__file__).resolve().parent))
from coqfmt import cstr

SOURCE = "src/cminx/rstwriter.py"

# ---- declared tables ---------------------------------------------------------------------
# the writer classes (objects are Base/PyWriterSem.pyobj), base classes first
WRITER_CLASSES = ["RSTWriter", "Directive"]
# instance attributes: python name (after private-name mangling) -> (component, type)
ATTRS = {
    "_RSTWriter__title": ("title", "str"),
    "section_level": ("section_level", "int"),
    "settings": ("settings", "settings"),
    "heading_level_chars": ("heading_level_chars", "strlist"),
    "indent": ("indent", "int"),
    "header_char": ("header_char", "str"),
    "document": ("document", "elemlist"),
    "arguments": ("arguments", "strlist"),
    "options": ("options", "builderlist"),
}
# string-builder classes: an instance is represented by the value of its __str__
BUILDER_CLASSES = ["Paragraph", "Field", "DocTest", "RSTList", "Heading", "DirectiveHeading", "Option"]
# functions / methods already translated by py2coq.py into Gen/PySource.v and proved equal to
# the model in Proofs/SourceMatch.v.  A method takes the fields it reads (in the order in
# which __init__ first assigns them); the build_* methods return the field they assign.
EXTERNAL_FUNCTIONS = {"get_indents": (["nat"], "str")}
EXTERNAL_METHODS = {
    ("Paragraph", "build_text_string"), ("Field", "build_field_string"),
    ("DocTest", "build_doctest_string"), ("RSTList", "build_list_string"),
    ("Heading", "build_heading_string"), ("DirectiveHeading", "build_heading_string"),
    ("Option", "build_option_string"), ("Directive", "format_arguments"),
}
# out of scope (not translated, and a call of them fails the translation)
SKIP_METHODS = {("RSTWriter", "simple_table"), ("RSTWriter", "write_to_file")}
SKIP_CLASSES = {"SimpleTable"}

RESERVED = {"s", "at", "as", "in", "if", "then", "else", "let", "fun", "forall", "exists", "match",
            "with", "end", "return", "fix", "cofix", "for", "where", "using", "Type", "Prop", "Set",
            "SProp", "nat", "bool", "list", "option", "true", "false", "None", "Some", "str", "map",
            "length", "fst", "snd", "app", "negb", "andb", "orb", "handle", "wstate", "elem", "char", "N",
            "nl", "seq", "concat", "repeat", "rev", "nth", "skipn", "firstn", "of_string", "Z", "inl", "inr",
            "filter", "combine", "tt", "unit", "pyobj", "pyelem", "pyclass", "indent", "join", "spaces",
            "str_of", "self"}


class Unsupported(Exception):
    pass


class Ctx:
    file = "?"


def fail(node, why):
    line = getattr(node, "lineno", "?")
    dump = ast.dump(node) if isinstance(node, ast.AST) else repr(node)
    if len(dump) > 300:
        dump = dump[:300] + "..."
    raise Unsupported(f"{Ctx.file}:{line}: unsupported Python ({why}): {dump}")


def mangle(name):
    if name in RESERVED or name.startswith(("py_", "f_", "set_", "dispatch_", "tmp", "narrowed")) \
            or any(name.startswith(c + "_") for c in WRITER_CLASSES + BUILDER_CLASSES):
        return name + "_"
    return name


def ind(text, n=2):
    pad = " " * n
    return "\n".join(pad + l if l else l for l in text.split("\n"))


def pystr(x):
    """a Python str constant as a Gallina str"""
    if x == "" or all(32 <= ord(c) <= 126 for c in x) or all(not 32 <= ord(c) <= 126 for c in x):
        return cstr(x)
    runs = []
    for c in x:
        p = 32 <= ord(c) <= 126
        if runs and runs[-1][0] == p:
            runs[-1][1] += c
        else:
            runs.append([p, c])
    return "(" + " ++ ".join(cstr(r) for _, r in runs) + ")"


# types: str int strlist settings optstrlist builder (a string-builder object = its str)
#        obj (a writer object) elem elemlist builderlist ref unit bool ('enum', E) nat
COQ_TYPES = {"str": "str", "int": "Z", "strlist": "list str", "settings": "py_settings",
             "optstrlist": "option (list str)", "builder": "str", "obj": "pyobj", "elem": "pyelem",
             "elemlist": "list pyelem", "builderlist": "list str", "ref": "nat", "unit": "unit",
             "bool": "bool", "nat": "nat"}


def coq_type(t):
    if isinstance(t, tuple) and t[0] == "enum":
        return "PySource." + t[1]
    return COQ_TYPES[t]


def is_self_attr(e):
    return isinstance(e, ast.Attribute) and isinstance(e.value, ast.Name) and e.value.id == "self"


def is_docstring(st):
    return isinstance(st, ast.Expr) and isinstance(st.value, ast.Constant) and isinstance(st.value.value, str)


def body_of(fn):
    return [st for st in fn.body if not is_docstring(st)]


# ---------------------------------------------------------------------------------------
# the module: classes, methods, properties, class attributes

class ClassInfo:
    def __init__(self, node):
        self.node = node
        self.name = node.name
        self.bases = []
        for b in node.bases:
            if not isinstance(b, ast.Name):
                fail(b, "base class")
            self.bases.append(b.id)
        if node.keywords or node.decorator_list:
            fail(node, "class keywords / decorators")
        self.methods = {}        # name -> FunctionDef   (plain methods)
        self.getters = {}        # property name -> FunctionDef
        self.setters = {}        # property name -> FunctionDef
        self.class_attrs = {}    # name -> value node
        for st in node.body:
            if is_docstring(st):
                continue
            if isinstance(st, ast.FunctionDef):
                decs = st.decorator_list
                if not decs:
                    if st.name in self.methods:
                        fail(st, "method defined twice")
                    self.methods[st.name] = st
                elif len(decs) == 1 and isinstance(decs[0], ast.Name) and decs[0].id == "property":
                    self.getters[st.name] = st
                elif len(decs) == 1 and isinstance(decs[0], ast.Attribute) and decs[0].attr == "setter" \
                        and isinstance(decs[0].value, ast.Name) and decs[0].value.id == st.name:
                    self.setters[st.name] = st
                else:
                    fail(st, "decorator")
            elif isinstance(st, ast.AnnAssign) and isinstance(st.target, ast.Name) and st.value is not None:
                self.class_attrs[st.target.id] = st.value
            elif isinstance(st, ast.Assign) and len(st.targets) == 1 and isinstance(st.targets[0], ast.Name):
                self.class_attrs[st.targets[0].id] = st.value
            else:
                fail(st, "statement in a class body")


class Module:
    def __init__(self, tree):
        self.classes = {}
        self.functions = {}
        for st in tree.body:
            if isinstance(st, ast.ClassDef):
                self.classes[st.name] = ClassInfo(st)
            elif isinstance(st, ast.FunctionDef):
                self.functions[st.name] = st
            elif isinstance(st, (ast.Import, ast.ImportFrom)) or is_docstring(st):
                pass
            else:
                fail(st, "module-level statement")
        for c in WRITER_CLASSES + BUILDER_CLASSES:
            if c not in self.classes:
                raise Unsupported(f"{Ctx.file}: class {c} not found")
        self.enums = {n: [a for a in c.class_attrs] for n, c in self.classes.items() if c.bases == ["Enum"]}
        known = set(WRITER_CLASSES) | set(BUILDER_CLASSES) | set(self.enums) | SKIP_CLASSES
        for n, c in self.classes.items():
            if n not in known:
                fail(c.node, "a class that is not in the declared tables")
        for f in EXTERNAL_FUNCTIONS:
            if f not in self.functions:
                raise Unsupported(f"{Ctx.file}: function {f} not found")
        # a subclass of a writer class that the tables do not know would change dynamic dispatch
        for i, cn in enumerate(WRITER_CLASSES):
            c = self.classes[cn]
            want = ["object"] if i == 0 else None
            if i == 0 and c.bases != want:
                fail(c.node, "bases of the root writer class")
            if i > 0 and (len(c.bases) != 1 or c.bases[0] not in WRITER_CLASSES[:i]):
                fail(c.node, "bases of a writer class")

    def mro(self, cname):
        out = [cname]
        while self.classes[out[-1]].bases and self.classes[out[-1]].bases[0] in WRITER_CLASSES:
            out.append(self.classes[out[-1]].bases[0])
        return out

    def attr_key(self, cname, attr):
        """private-name mangling of self.__x inside class cname"""
        if attr.startswith("__") and not attr.endswith("__"):
            return f"_{cname}{attr}"
        return attr

    def init_field_order(self, cname):
        """the fields of a class in the order in which __init__ first assigns them (bases first)"""
        order = []
        for c in reversed(self.mro(cname)) if cname in WRITER_CLASSES else [cname]:
            init = self.classes[c].methods.get("__init__")
            if init is None:
                continue
            for st in ast.walk(init):
                tgts = []
                if isinstance(st, ast.Assign):
                    tgts = st.targets
                elif isinstance(st, (ast.AnnAssign, ast.AugAssign)):
                    tgts = [st.target]
                for t in tgts:
                    if is_self_attr(t):
                        k = self.attr_key(c, t.attr)
                        if k not in order:
                            order.append(k)
        return order

    def fields_read(self, cname, fn):
        """the fields self.f that fn reads, in declaration order (the arguments of the function
        py2coq.py generated for it)"""
        seen = []
        for n in ast.walk(fn):
            if is_self_attr(n) and isinstance(n.ctx, ast.Load):
                k = self.attr_key(cname, n.attr)
                if k not in seen and not (k in self.classes[cname].methods):
                    seen.append(k)
        order = self.init_field_order(cname)
        for k in seen:
            if k not in order:
                fail(fn, f"field {k} read by an external method but never assigned in __init__")
        return [k for k in order if k in seen]

    def fields_assigned(self, cname, fn):
        out = []
        for st in ast.walk(fn):
            tgts = []
            if isinstance(st, ast.Assign):
                tgts = st.targets
            elif isinstance(st, (ast.AnnAssign, ast.AugAssign)):
                tgts = [st.target]
            for t in tgts:
                if is_self_attr(t):
                    k = self.attr_key(cname, t.attr)
                    if k not in out:
                        out.append(k)
        return out


def can_raise_fn(fn):
    return any(isinstance(n, ast.Raise) for n in ast.walk(fn))


# ---------------------------------------------------------------------------------------
# signatures

def param_type(mod, arg, vararg=False):
    a = arg.annotation
    if isinstance(a, ast.Name) and a.id == "str":
        return "strlist" if vararg else "str"
    if vararg:
        fail(arg, "annotation of a *args parameter")
    if isinstance(a, ast.Name) and a.id == "int":
        return "int"
    if isinstance(a, ast.Name) and a.id == "Settings":
        return "settings"
    if isinstance(a, ast.Name) and a.id in mod.enums:
        return ("enum", a.id)
    if isinstance(a, ast.Subscript) and isinstance(a.value, ast.Name) and a.value.id == "Tuple" \
            and isinstance(a.slice, ast.Name) and a.slice.id == "str":
        return "strlist"
    fail(arg, "parameter annotation")


class Sig:
    """parameters of a function: [(name, type, default-node-or-None, kind)], kind in pos / var / kw"""

    def __init__(self, mod, fn, method=True):
        a = fn.args
        if a.posonlyargs or a.kwarg:
            fail(fn, "parameter kinds")
        pos = list(a.args)
        if method:
            if not pos or pos[0].arg != "self":
                fail(fn, "first parameter of a method must be self")
            pos = pos[1:]
        self.params = []
        defaults = [None] * (len(pos) - len(a.defaults)) + list(a.defaults)
        for p, d in zip(pos, defaults):
            self.params.append((p.arg, param_type(mod, p), d, "pos"))
        if a.vararg:
            self.params.append((a.vararg.arg, param_type(mod, a.vararg, True), None, "var"))
        for p, d in zip(a.kwonlyargs, a.kw_defaults):
            self.params.append((p.arg, param_type(mod, p), d, "kw"))

    def types(self):
        return [t for _, t, _, _ in self.params]


# ---------------------------------------------------------------------------------------
# translation of one function body

class Val:
    """a translated expression: Gallina text and type"""

    def __init__(self, text, type_):
        self.text = text
        self.type = type_


class Translator:
    def __init__(self, mod):
        self.mod = mod
        self.kinds = {}       # method name -> "pure" / "mut"   (per name: dispatch is by name)
        self.rets = {}        # method name -> result type
        self.opens = {}       # method name -> bool: takes str_of (open recursion through str())
        self.sigs = {}        # (class, method name) -> Sig
        self.impls = {}       # (class, key) -> FunctionDef ; key = method name, "x.get", "x.set"
        self.defs = {}        # node -> generated text
        self.deps = {}        # node -> set of nodes
        self.tmp = 0
        for cn in WRITER_CLASSES:
            c = mod.classes[cn]
            for n, f in c.methods.items():
                if (cn, n) in SKIP_METHODS or (cn, n) in EXTERNAL_METHODS:
                    continue
                self.impls[(cn, n)] = f
            for n, f in c.getters.items():
                self.impls[(cn, n + "_get")] = f
            for n, f in c.setters.items():
                self.impls[(cn, n + "_set")] = f
        for key, f in self.impls.items():
            self.sigs[key] = Sig(mod, f)
        self.names = sorted({m for _, m in self.impls if m != "__init__"})
        # overrides must agree on their parameters
        for m in self.names:
            ts = {tuple((n, t, k) for n, t, _, k in self.sigs[key].params) for key in self.impls if key[1] == m}
            if len(ts) != 1:
                raise Unsupported(f"{Ctx.file}: overrides of {m} differ in their parameters")
        self.classify()

    # ---- purity / open recursion (fixpoints over the call graph, by method name) ----
    def self_calls(self, fn):
        out = set()
        for n in ast.walk(fn):
            if isinstance(n, ast.Call) and isinstance(n.func, ast.Attribute) and isinstance(n.func.value, ast.Name) \
                    and n.func.value.id == "self":
                out.add(n.func.attr)
        return out

    def property_reads(self, cname, fn):
        out = set()
        for n in ast.walk(fn):
            if is_self_attr(n) and isinstance(n.ctx, ast.Load) and self.find_impl(cname, n.attr + "_get"):
                out.add(n.attr + "_get")
        return out

    def mutates_directly(self, fn):
        for n in ast.walk(fn):
            tgts = []
            if isinstance(n, ast.Assign):
                tgts = n.targets
            elif isinstance(n, (ast.AnnAssign, ast.AugAssign)):
                tgts = [n.target]
            elif isinstance(n, ast.Delete):
                tgts = n.targets
            for t in tgts:
                while isinstance(t, ast.Subscript):
                    t = t.value
                if is_self_attr(t):
                    return True
            if isinstance(n, ast.Call) and isinstance(n.func, ast.Attribute) and is_self_attr(n.func.value):
                return True          # self.xs.append(..) and the like
            if isinstance(n, ast.Call) and isinstance(n.func, ast.Attribute) and isinstance(n.func.value, ast.Call) \
                    and isinstance(n.func.value.func, ast.Name) and n.func.value.func.id == "super":
                return True
        return False

    def uses_str_of_elem(self, fn):
        # conservative: an f-string or str() anywhere in a method that also touches self.document
        has_fmt = any(isinstance(n, ast.FormattedValue) or
                      (isinstance(n, ast.Call) and isinstance(n.func, ast.Name) and n.func.id == "str")
                      for n in ast.walk(fn))
        touches = any(is_self_attr(n) and ATTRS.get(n.attr, ("", ""))[1] == "elemlist" for n in ast.walk(fn))
        return has_fmt and touches

    def classify(self):
        callees = {}
        for (cn, m), f in self.impls.items():
            callees[(cn, m)] = self.self_calls(f) | self.property_reads(cn, f)
        mut = {m: False for m in self.names + ["__init__"]}
        opn = {m: False for m in self.names + ["__init__"]}
        for (cn, m), f in self.impls.items():
            if self.mutates_directly(f):
                mut[m] = True
            if self.uses_str_of_elem(f):
                opn[m] = True
        changed = True
        while changed:
            changed = False
            for (cn, m), cs in callees.items():
                for c in cs:
                    if mut.get(c) and not mut[m]:
                        mut[m] = True
                        changed = True
                    if opn.get(c) and not opn[m]:
                        opn[m] = True
                        changed = True
        self.kinds = {m: ("mut" if v else "pure") for m, v in mut.items()}
        self.opens = opn
        if self.opens.get("__init__"):
            raise Unsupported(f"{Ctx.file}: __init__ applies str() to document elements")

    def find_impl(self, cname, key):
        for c in self.mod.mro(cname):
            if (c, key) in self.impls:
                return c
        return None

    def fresh(self, base="tmp"):
        self.tmp += 1
        return f"{base}{self.tmp}"

    # ---- expressions: CPS, k receives a Val whose text is pure ----
    def bind(self, rhs, type_, k, base="tmp"):
        v = self.fresh(base)
        return f"py_bind ({rhs}) (fun {v} =>\n{k(Val(v, type_))})"

    def exprs(self, es, env, k, acc=None):
        acc = acc or []
        if not es:
            return k(acc)
        return self.expr(es[0], env, lambda v: self.exprs(es[1:], env, k, acc + [v]))

    def expr(self, e, env, k):
        F = self
        dump = ast.dump(e)
        if dump in env["narrow"]:
            return k(env["narrow"][dump])
        if isinstance(e, ast.Constant):
            if isinstance(e.value, str):
                return k(Val(pystr(e.value), "str"))
            if isinstance(e.value, bool) or not isinstance(e.value, int):
                fail(e, "constant")
            return k(Val(f"{e.value}%Z" if e.value >= 0 else f"({e.value})%Z", "int"))
        if isinstance(e, ast.Name):
            if e.id not in env["vars"]:
                fail(e, "unknown variable")
            v = env["vars"][e.id]
            if v.type == "moved":
                fail(e, "use of an object after it was appended to self.document (only `return` of it is supported)")
            return k(v)
        if isinstance(e, ast.Attribute):
            if is_self_attr(e):
                cn = env["class"]
                if F.find_impl(cn, e.attr + "_get"):
                    return F.method_call(e, e.attr + "_get", [], env, k)
                key = F.mod.attr_key(cn, e.attr)
                if key not in ATTRS:
                    fail(e, "attribute that is not in the declared attribute table")
                comp, t = ATTRS[key]
                return k(Val(f"(f_{comp} {env['self']})", t))
            # settings.rst.headers
            if e.attr == "headers" and isinstance(e.value, ast.Attribute) and e.value.attr == "rst":
                return F.expr(e.value.value, env,
                              lambda v: k(Val(f"(py_settings_rst_headers {v.text})", "optstrlist"))
                              if v.type == "settings" else fail(e, "settings option of a non-Settings value"))
            # Enum member
            if isinstance(e.value, ast.Name) and e.value.id in F.mod.enums and e.value.id not in env["vars"]:
                if e.attr not in F.mod.enums[e.value.id]:
                    fail(e, "unknown Enum member")
                return k(Val(f"PySource.{e.value.id}_{e.attr}", ("enum", e.value.id)))
            fail(e, "attribute access")
        if isinstance(e, ast.BinOp):
            if isinstance(e.op, (ast.Add, ast.Sub)):
                def both(vs):
                    a, b = vs
                    if a.type == b.type == "int":
                        f = "py_zint_add" if isinstance(e.op, ast.Add) else "py_zint_sub"
                        return k(Val(f"({f} {a.text} {b.text})", "int"))
                    if a.type == b.type == "str" and isinstance(e.op, ast.Add):
                        return k(Val(f"({a.text} ++ {b.text})", "str"))
                    fail(e, "operand types of + / -")
                return F.exprs([e.left, e.right], env, both)
            fail(e, "binary operator")
        if isinstance(e, ast.JoinedStr):
            parts = []

            def go(vals, acc):
                if not vals:
                    if not acc:
                        return k(Val("([] : str)", "str"))
                    return k(Val("(" + " ++ ".join(acc) + ")" if len(acc) > 1 else acc[0], "str"))
                v = vals[0]
                if isinstance(v, ast.Constant) and isinstance(v.value, str):
                    return go(vals[1:], acc + [pystr(v.value)])
                if isinstance(v, ast.FormattedValue):
                    if v.conversion != -1 or v.format_spec is not None:
                        fail(v, "conversion / format spec in an f-string")
                    return F.str_of(v.value, env, lambda x: go(vals[1:], acc + [x.text]))
                fail(v, "f-string part")
            return go(e.values, parts)
        if isinstance(e, ast.Subscript):
            return F.subscript(e, env, k)
        if isinstance(e, ast.List):
            def mk(vs):
                if not vs:
                    return k(Val("[]", "emptylist"))
                if all(v.type in ("builder", "obj", "elem") for v in vs):
                    return k(Val("[" + "; ".join(F.as_elem(v, e) for v in vs) + "]", "elemlist"))
                if all(v.type == "str" for v in vs):
                    return k(Val("[" + "; ".join(v.text for v in vs) + "]", "strlist"))
                fail(e, "element types of a list display")
            return F.exprs(e.elts, env, mk)
        if isinstance(e, ast.Call):
            return F.call(e, env, k)
        fail(e, "expression form")

    def as_elem(self, v, node):
        if v.type == "builder":
            return f"(py_elem_of_builder {v.text})"
        if v.type == "obj":
            return f"(py_elem_of_writer {v.text})"
        if v.type == "elem":
            return v.text
        fail(node, f"a value of type {v.type} as a document element")

    def str_of(self, e, env, k):
        """str(e) / e inside an f-string"""
        def conv(v):
            if v.type in ("str", "builder"):
                return k(Val(v.text, "str"))
            if v.type == "elem":
                if not env["open"]:
                    fail(e, "str() of a document element in a method that was not classified as recursive")
                return self.bind(f"py_str_elem str_of {v.text}", "str", k)
            fail(e, f"str() of a value of type {v.type}")
        return self.expr(e, env, conv)

    def subscript(self, e, env, k):
        sl = e.slice
        if isinstance(sl, ast.Slice):
            if sl.upper is not None or sl.step is not None or not (
                    isinstance(sl.lower, ast.Constant) and isinstance(sl.lower.value, int)
                    and not isinstance(sl.lower.value, bool) and sl.lower.value >= 0):
                fail(e, "slice (only xs[c:] with a constant c >= 0)")
            return self.expr(e.value, env, lambda v: k(Val(f"(py_slice_from {v.text} {sl.lower.value})", v.type))
                             if v.type in ("elemlist", "strlist", "builderlist", "str")
                             else fail(e, "slice of a non-sequence"))

        def idx(vs):
            xs, i = vs
            if i.type != "int":
                fail(e, "index that is not an int")
            elt = {"elemlist": "elem", "strlist": "str", "builderlist": "builder"}.get(xs.type)
            if elt is None:
                fail(e, f"indexing a value of type {xs.type}")
            return self.bind(f"py_getitem {xs.text} {i.text}", elt, k)
        return self.exprs([e.value, sl], env, idx)

    # ---- calls ----
    def match_args(self, call, sig, env, k, what):
        """evaluate the arguments of call against sig (left to right as Python does) and pass the
        list of Val, one per parameter, to k"""
        pos = [p for p in sig.params if p[3] == "pos"]
        var = [p for p in sig.params if p[3] == "var"]
        slots = {}
        order = []        # (slot name or ('var', i), node, starred)
        npos = 0
        for a in call.args:
            if isinstance(a, ast.Starred):
                if npos < len(pos) or not var:
                    fail(call, f"*argument in a call of {what} before the positional parameters are filled")
                order.append((("var", len(order)), a.value, True))
            elif npos < len(pos):
                order.append((pos[npos][0], a, False))
                npos += 1
            elif var:
                order.append((("var", len(order)), a, False))
            else:
                fail(call, f"too many arguments for {what}")
        for kw in call.keywords:
            if kw.arg is None:
                fail(call, "**kwargs")
            names = [p[0] for p in sig.params if p[3] in ("pos", "kw")]
            if kw.arg not in names or kw.arg in [o[0] for o in order]:
                fail(call, f"keyword argument {kw.arg} of {what}")
            order.append((kw.arg, kw.value, False))

        def done(vals):
            varparts = []
            for (slot, node, starred), v in zip(order, vals):
                if isinstance(slot, tuple):
                    if starred:
                        if v.type != "strlist":
                            fail(node, "type of a *argument")
                        varparts.append(v.text)
                    else:
                        if v.type != "str":
                            fail(node, "type of an extra positional argument")
                        varparts.append(f"[{v.text}]")
                else:
                    slots[slot] = v
            out = []
            for name, t, default, kind in sig.params:
                if kind == "var":
                    out.append(Val("(" + " ++ ".join(varparts) + ")" if len(varparts) > 1
                                   else (varparts[0] if varparts else "[]"), "strlist"))
                    continue
                if name in slots:
                    v = slots[name]
                elif default is not None:
                    if not isinstance(default, ast.Constant) or isinstance(default.value, bool) \
                            or not isinstance(default.value, (str, int)):
                        fail(call, f"parameter {name} of {what} is omitted and its default is not a str / int constant")
                    v = Val(pystr(default.value), "str") if isinstance(default.value, str) \
                        else Val(f"{default.value}%Z", "int")
                else:
                    fail(call, f"missing argument {name} of {what}")
                out.append(self.coerce(v, t, call, f"argument {name} of {what}"))
            return k(out)
        return self.exprs([n for _, n, _ in order], env, done)

    def coerce(self, v, want, node, what):
        if v.type == want:
            return v
        if v.type == "emptylist" and want in ("strlist", "elemlist", "builderlist"):
            return Val("[]", want)
        if v.type == "int" and want == "nat":
            return Val(f"(py_nat_of_int {v.text})", "nat")
        fail(node, f"{what}: a value of type {v.type} where {want} is expected")

    def call(self, e, env, k):
        F = self
        f = e.func
        if isinstance(f, ast.Name):
            if f.id in env["vars"]:
                fail(e, "call of a local variable")
            if f.id == "len" and len(e.args) == 1 and not e.keywords:
                return F.expr(e.args[0], env, lambda v: k(Val(f"(py_zlen {v.text})", "int"))
                              if v.type in ("elemlist", "strlist", "builderlist", "str") else fail(e, "len of a non-sequence"))
            if f.id == "str" and len(e.args) == 1 and not e.keywords:
                return F.str_of(e.args[0], env, k)
            if f.id in EXTERNAL_FUNCTIONS:
                pts, rt = EXTERNAL_FUNCTIONS[f.id]
                if e.keywords or len(e.args) != len(pts) or any(isinstance(a, ast.Starred) for a in e.args):
                    fail(e, "arguments of an external function")
                return F.exprs(e.args, env, lambda vs: k(Val(
                    "(PySource." + f.id + " " + " ".join(F.coerce(v, t, e, "argument").text for v, t in zip(vs, pts)) + ")", rt)))
            if f.id in BUILDER_CLASSES:
                env["deps"].add(("new", f.id))
                sig = Sig(F.mod, F.mod.classes[f.id].methods["__init__"])
                raises = F.builder_raises(f.id)

                def built(vs):
                    t = f"{f.id}_new " + " ".join(v.text for v in vs)
                    return F.bind(t, "builder", k) if raises else k(Val(f"({t})", "builder"))
                return F.match_args(e, sig, env, built, f.id)
            if f.id in WRITER_CLASSES:
                env["deps"].add(("new", f.id))
                sig = F.sigs[(f.id, "__init__")]
                return F.match_args(e, sig, env, lambda vs: F.bind(
                    f"{f.id}_new " + " ".join(v.text for v in vs), "obj", k), f.id)
            fail(e, "call of an unknown function")
        if isinstance(f, ast.Attribute) and isinstance(f.value, ast.Name) and f.value.id == "self":
            return F.method_call(e, f.attr, e, env, k)
        fail(e, "call form")

    def builder_raises(self, cname):
        c = self.mod.classes[cname]
        return any(can_raise_fn(m) for m in c.methods.values())

    def method_call(self, node, m, call, env, k):
        """self.m(args) (or a property read when call == []): a pure method of self"""
        cn = env["class"]
        if (self.find_ext(cn, m)) is not None:
            c = self.find_ext(cn, m)
            fn = self.mod.classes[c].methods[m]
            if call.args or call.keywords:
                fail(node, "arguments of an external method")
            if can_raise_fn(fn) or fn.returns is None:
                fail(node, "external method that raises / has no return annotation")
            fields = self.mod.fields_read(c, fn)
            args = " ".join(f"(f_{ATTRS[x][0]} {env['self']})" for x in fields)
            rt = "str" if isinstance(fn.returns, ast.Name) and fn.returns.id == "str" else fail(node, "result type of an external method")
            return k(Val(f"(PySource.{c}_{m} {args})", rt))
        if m not in self.kinds or m == "__init__":
            fail(node, f"call of self.{m}: not a translated method")
        if self.kinds[m] != "pure":
            fail(node, f"self.{m}(..) used as an expression but {m} mutates self (only supported as a statement)")
        env["deps"].add(("dispatch", m))
        sig = self.sigs[next(key for key in self.impls if key[1] == m)]

        def go(vs):
            o = "_open str_of" if self.opens[m] else ""
            if self.opens[m] and not env["open"]:
                fail(node, "call of a recursive method from a method not classified as recursive")
            t = f"dispatch_{m}{o} {env['self']}" + "".join(" " + v.text for v in vs)
            return self.bind(t, self.rets_of(m, node), k)
        if call == []:
            return go([])
        return self.match_args(call, sig, env, go, m)

    def find_ext(self, cname, m):
        for c in self.mod.mro(cname):
            if (c, m) in EXTERNAL_METHODS and m in self.mod.classes[c].methods:
                return c
        return None

    def rets_of(self, m, node):
        if m not in self.rets:
            fail(node, f"result type of {m} is not known yet (call cycle)")
        return self.rets[m]

    # ---- conditions ----
    def cond(self, e, env, k):
        if isinstance(e, ast.Compare) and len(e.ops) == 1:
            op = e.ops[0]
            ops = {ast.Gt: "py_zint_gt", ast.Lt: "py_zint_lt", ast.GtE: "py_zint_ge", ast.LtE: "py_zint_le",
                   ast.Eq: "py_zint_eq", ast.NotEq: "py_zint_ne"}
            if type(op) in ops:
                def both(vs):
                    a, b = vs
                    if a.type == b.type == "int":
                        return k(f"{ops[type(op)]} {a.text} {b.text}")
                    fail(e, "comparison of non-int values")
                return self.exprs([e.left, e.comparators[0]], env, both)
        fail(e, "condition")

    # ---- statements ----
    def finish(self, env, value):
        """the result of the function"""
        if env["kind"] == "mut":
            return f"Some ({env['self']}, {value})"
        return f"Some {value}"

    def block(self, stmts, env, k):
        """Gallina text (of an option type) for stmts followed by k(env)"""
        if not stmts:
            return k(env)
        st, rest = stmts[0], stmts[1:]
        F = self
        cont = lambda env2: F.block(rest, env2, k)
        if is_docstring(st):
            return cont(env)
        if isinstance(st, ast.Return):
            if rest or env["in_loop"] or env["in_if"]:
                fail(st, "return that is not the last statement of the function")
            if st.value is None:
                env["out"]["ret"] = "unit"
                return F.finish(env, "tt")
            if isinstance(st.value, ast.Name) and st.value.id in env["vars"] and env["vars"][st.value.id].type == "moved":
                env["out"]["ret"] = "ref"
                return F.finish(env, env["vars"][st.value.id].text)

            def ret(v):
                if v.type in ("obj", "elem", "emptylist"):
                    fail(st, f"return of a value of type {v.type}")
                env["out"]["ret"] = v.type
                return F.finish(env, v.text)
            return F.expr(st.value, env, ret)
        if isinstance(st, (ast.Assign, ast.AnnAssign)):
            if isinstance(st, ast.Assign):
                if len(st.targets) != 1:
                    fail(st, "multiple assignment targets")
                tgt = st.targets[0]
            else:
                tgt = st.target
                if st.value is None:
                    fail(st, "annotation without a value")
            return F.expr(st.value, env, lambda v: F.assign(st, tgt, v, env, cont))
        if isinstance(st, ast.AugAssign):
            if not isinstance(st.op, ast.Add) or not isinstance(st.target, ast.Name):
                fail(st, "augmented assignment (only  name += str)")
            name = st.target.id
            if name not in env["vars"] or env["vars"][name].type != "str":
                fail(st, "+= on a variable that is not a str")

            def aug(v):
                if v.type != "str":
                    fail(st, "+= of a non-str value")
                cur = env["vars"][name]
                return f"let {cur.text} := {cur.text} ++ {v.text} in\n" + cont(env)
            return F.expr(st.value, env, aug)
        if isinstance(st, ast.Delete):
            if len(st.targets) != 1:
                fail(st, "del of several targets")
            t = st.targets[0]
            if not (isinstance(t, ast.Subscript) and is_self_attr(t.value) and isinstance(t.slice, ast.Slice)
                    and t.slice.upper is None and t.slice.step is None and isinstance(t.slice.lower, ast.Constant)
                    and isinstance(t.slice.lower.value, int) and not isinstance(t.slice.lower.value, bool)
                    and t.slice.lower.value >= 0):
                fail(st, "del (only  del self.xs[c:]  with a constant c >= 0)")
            comp, ty = F.field(t.value, env)
            if ty not in ("elemlist", "strlist", "builderlist"):
                fail(st, "del on a field that is not a list")
            F.need_mut(env, st)
            s0 = env["self"]
            return f"let {s0} := set_{comp} {s0} (py_del_from (f_{comp} {s0}) {t.slice.lower.value}) in\n" + cont(env)
        if isinstance(st, ast.Expr) and isinstance(st.value, ast.Call):
            return F.call_stmt(st, st.value, env, cont)
        if isinstance(st, ast.For):
            return F.for_stmt(st, env, cont)
        if isinstance(st, ast.If):
            return F.if_stmt(st, env, cont)
        fail(st, "statement form")

    def need_mut(self, env, node):
        if env["kind"] != "mut":
            fail(node, "mutation of self in a method classified as pure")

    def field(self, e, env):
        key = self.mod.attr_key(env["class"], e.attr)
        if key not in ATTRS:
            fail(e, "attribute that is not in the declared attribute table")
        return ATTRS[key]

    def assign(self, st, tgt, v, env, cont):
        s0 = env["self"]
        if isinstance(tgt, ast.Name):
            if tgt.id == "self":
                fail(st, "assignment to self")
            if v.type in ("emptylist",):
                fail(st, "local variable holding an untyped empty list")
            if env["in_loop"] is not None and tgt.id not in env["vars"]:
                pass
            name = mangle(tgt.id)
            env = dict(env, vars=dict(env["vars"]))
            env["vars"][tgt.id] = Val(name, v.type)
            return f"let {name} := {v.text} in\n" + cont(env)
        if is_self_attr(tgt):
            self.need_mut(env, st)
            comp, ty = self.field(tgt, env)
            if isinstance(st, ast.AnnAssign):
                self.check_annotation(st.annotation, ty, st)
            v = self.coerce(v, ty, st, f"assignment to self.{tgt.attr}")
            return f"let {s0} := set_{comp} {s0} {v.text} in\n" + cont(env)
        if isinstance(tgt, ast.Subscript) and is_self_attr(tgt.value) and not isinstance(tgt.slice, ast.Slice):
            self.need_mut(env, st)
            comp, ty = self.field(tgt.value, env)
            if ty != "elemlist":
                fail(st, "item assignment on a field that is not a List[Any]")

            def idx(i):
                if i.type != "int":
                    fail(st, "index that is not an int")
                t = self.fresh()
                return (f"py_bind (py_setitem (f_{comp} {s0}) {i.text} {self.as_elem(v, st)}) (fun {t} =>\n"
                        f"let {s0} := set_{comp} {s0} {t} in\n" + cont(env) + ")")
            return self.expr(tgt.slice, env, idx)
        fail(st, "assignment target")

    def check_annotation(self, a, ty, node):
        d = ast.dump(a)
        ok = {
            "str": [ast.dump(ast.parse("str", mode="eval").body)],
            "int": [ast.dump(ast.parse("int", mode="eval").body)],
            "settings": [ast.dump(ast.parse("Settings", mode="eval").body)],
            "strlist": [ast.dump(ast.parse(x, mode="eval").body) for x in ("List[str]", "Tuple[str]")],
            "elemlist": [ast.dump(ast.parse("List[Any]", mode="eval").body)],
            "builderlist": [ast.dump(ast.parse(f"List[{c}]", mode="eval").body) for c in BUILDER_CLASSES],
        }
        if d not in ok.get(ty, []):
            fail(node, f"annotation does not agree with the declared attribute type {ty}")

    def call_stmt(self, st, call, env, cont):
        f = call.func
        s0 = env["self"]
        # self.xs.append(E)
        if isinstance(f, ast.Attribute) and f.attr == "append" and is_self_attr(f.value):
            if len(call.args) != 1 or call.keywords or isinstance(call.args[0], ast.Starred):
                fail(st, "arguments of append")
            self.need_mut(env, st)
            comp, ty = self.field(f.value, env)
            arg = call.args[0]

            def app(v):
                if ty == "elemlist":
                    item = self.as_elem(v, st)
                elif ty == "builderlist" and v.type == "builder":
                    item = v.text
                elif ty == "strlist" and v.type == "str":
                    item = v.text
                else:
                    fail(st, f"append of a value of type {v.type} to a field of type {ty}")
                pre = ""
                env2 = env
                if v.type == "obj":
                    # the aliasing rule: the appended object is from now on self.xs[position]
                    if not (isinstance(arg, ast.Name) and ty == "elemlist" and comp == "document"):
                        fail(st, "a writer object may only be appended to self.document, from a local variable")
                    r = mangle(arg.id) + "_ref"
                    pre = f"let {r} := py_len (f_{comp} {s0}) in\n"
                    env2 = dict(env, vars=dict(env["vars"]))
                    env2["vars"][arg.id] = Val(r, "moved")
                return pre + f"let {s0} := set_{comp} {s0} (py_append (f_{comp} {s0}) {item}) in\n" + cont(env2)
            return self.expr(arg, env, app)
        # super().__init__(...)
        if isinstance(f, ast.Attribute) and f.attr == "__init__" and isinstance(f.value, ast.Call) \
                and isinstance(f.value.func, ast.Name) and f.value.func.id == "super" \
                and not f.value.args and not f.value.keywords:
            if env["method"] != "__init__":
                fail(st, "super().__init__ outside __init__")
            base = self.mod.classes[env["class"]].bases[0]
            bc = self.find_impl(base, "__init__")
            if bc is None:
                fail(st, "base class without __init__")
            env["deps"].add(("impl", bc, "__init__"))
            return self.match_args(call, self.sigs[(bc, "__init__")], env, lambda vs: (
                f"py_bind ({bc}___init__ {s0}" + "".join(" " + v.text for v in vs) + f") (fun '({s0}, _) =>\n"
                + cont(env) + ")"), f"{bc}.__init__")
        # self.m(...) as a statement
        if isinstance(f, ast.Attribute) and isinstance(f.value, ast.Name) and f.value.id == "self":
            m = f.attr
            if m not in self.kinds or m == "__init__":
                fail(st, f"call of self.{m}: not a translated method")
            if self.kinds[m] == "pure":
                return self.method_call(st, m, call, env, lambda v: cont(env))
            self.need_mut(env, st)
            env["deps"].add(("dispatch", m))
            sig = self.sigs[next(key for key in self.impls if key[1] == m)]
            o = "_open str_of" if self.opens[m] else ""
            return self.match_args(call, sig, env, lambda vs: (
                f"py_bind (dispatch_{m}{o} {s0}" + "".join(" " + v.text for v in vs) + f") (fun '({s0}, _) =>\n"
                + cont(env) + ")"), m)
        fail(st, "call statement")

    def assigned_names(self, stmts):
        out = []
        for st in stmts:
            for n in ast.walk(st):
                t = None
                if isinstance(n, ast.Assign):
                    for x in n.targets:
                        if isinstance(x, ast.Name) and x.id not in out:
                            out.append(x.id)
                elif isinstance(n, (ast.AnnAssign, ast.AugAssign)) and isinstance(n.target, ast.Name):
                    if n.target.id not in out:
                        out.append(n.target.id)
                elif isinstance(n, ast.For):
                    for x in ast.walk(n.target):
                        if isinstance(x, ast.Name) and x.id not in out:
                            out.append(x.id)
        return out

    def mutates_self(self, stmts):
        m = ast.Module(body=list(stmts), type_ignores=[])
        if self.mutates_directly(m):
            return True
        for n in ast.walk(m):
            if isinstance(n, ast.Call) and isinstance(n.func, ast.Attribute) and isinstance(n.func.value, ast.Name) \
                    and n.func.value.id == "self" and self.kinds.get(n.func.attr) == "mut":
                return True
        return False

    def state_of(self, stmts, env, node, loopvar=None):
        """the variables a nested block assigns that live on after it: all must exist before"""
        names = []
        for n in self.assigned_names(stmts):
            if n == loopvar:
                continue
            if n not in env["vars"]:
                fail(node, f"variable {n} first assigned inside a nested block")
            names.append(n)
        coq = [env["vars"][n].text for n in names]
        if self.mutates_self(stmts):
            coq = [env["self"]] + coq
        return coq

    @staticmethod
    def tup(names, pat=False):
        if not names:
            return "tt" if not pat else "_"
        if len(names) == 1:
            return names[0]
        return ("'(" if pat else "(") + ", ".join(names) + ")"

    def for_stmt(self, st, env, cont):
        if st.orelse or not isinstance(st.target, ast.Name):
            fail(st, "for loop form")
        if any(isinstance(n, (ast.Break, ast.Continue, ast.Return)) for b in st.body for n in ast.walk(b)):
            fail(st, "break / continue / return inside a loop")
        lv = st.target.id
        state = self.state_of(st.body, env, st, lv)

        def loop(xs):
            elt = {"elemlist": "elem", "strlist": "str", "builderlist": "builder"}.get(xs.type)
            if elt is None:
                fail(st, f"iteration over a value of type {xs.type}")
            benv = dict(env, vars=dict(env["vars"]), in_loop=True)
            v = mangle(lv)
            benv["vars"][lv] = Val(v, elt)
            body = self.block(st.body, benv, lambda e2: f"Some {self.tup(state)}")
            return (f"py_bind (py_for_exc {xs.text}\n"
                    f"  (fun {self.tup(state, True) if len(state) != 1 else state[0]} {v} =>\n{ind(body, 5)})\n"
                    f"  {self.tup(state)}) (fun {self.tup(state, True)} =>\n" + cont(env) + ")")
        return self.expr(st.iter, env, loop)

    def if_stmt(self, st, env, cont):
        state = self.state_of(st.body + st.orelse, env, st)
        benv = dict(env, in_if=True)
        end = lambda e2: f"Some {self.tup(state)}"
        # `E is not None` / `E is None` on an optional value: a match that narrows E
        t = st.test
        if isinstance(t, ast.Compare) and len(t.ops) == 1 and isinstance(t.ops[0], (ast.Is, ast.IsNot)) \
                and isinstance(t.comparators[0], ast.Constant) and t.comparators[0].value is None:
            def narrowed(v):
                if v.type != "optstrlist":
                    fail(st, "None test of a value that is not optional")
                n = self.fresh("narrowed")
                nenv = dict(benv, narrow=dict(env["narrow"]))
                nenv["narrow"][ast.dump(t.left)] = Val(n, "strlist")
                some = self.block(st.body if isinstance(t.ops[0], ast.IsNot) else st.orelse, nenv, end)
                none = self.block(st.orelse if isinstance(t.ops[0], ast.IsNot) else st.body, benv, end)
                return (f"py_bind (match {v.text} with\n  | Some {n} =>\n{ind(some, 6)}\n  | None =>\n{ind(none, 6)}\n  end)"
                        f" (fun {self.tup(state, True)} =>\n" + cont(env) + ")")
            return self.expr(t.left, env, narrowed)

        def test(c):
            a = self.block(st.body, benv, end)
            b = self.block(st.orelse, benv, end)
            return (f"py_bind (if {c} then\n{ind(a, 4)}\n  else\n{ind(b, 4)})"
                    f" (fun {self.tup(state, True)} =>\n" + cont(env) + ")")
        return self.cond(t, env, test)

    # ---- one method ----
    def translate_impl(self, cn, m):
        fn = self.impls[(cn, m)]
        sig = self.sigs[(cn, m)]
        self.tmp = 0
        kind = self.kinds["__init__" if m == "__init__" else m]
        if m == "__init__":
            kind = "mut"
        opn = self.opens.get(m, False)
        env = {"class": cn, "method": m, "self": "self", "kind": kind, "open": opn, "vars": {}, "narrow": {},
               "deps": set(), "in_loop": None, "in_if": False, "out": {"ret": None}}
        params = []
        for name, t, _, _ in sig.params:
            c = mangle(name)
            env["vars"][name] = Val(c, t)
            params.append(f"({c} : {coq_type(t)})")

        def end(e2):
            if env["out"]["ret"] is None:
                env["out"]["ret"] = "unit"
            return self.finish(e2, "tt")
        body = self.block(body_of(fn), env, end)
        ret = env["out"]["ret"]
        if m != "__init__":
            if m in self.rets and self.rets[m] != ret:
                fail(fn, f"overrides of {m} differ in their result type ({self.rets[m]} / {ret})")
            self.rets[m] = ret
        rt = coq_type(ret)
        rtype = f"option (pyobj * {rt})" if kind == "mut" else f"option {rt}"
        name = f"{cn}_{m}" + ("_open" if opn else "")
        head = f"(* {SOURCE}, {cn}.{self.pyname(m)} (line {fn.lineno}) *)\n"
        so = "(str_of : pyobj -> option str) " if opn else ""
        text = (head + f"Definition {name} {so}(self : pyobj) " + " ".join(params) + ("" if not params else " ")
                + f": {rtype} :=\n" + ind(body) + ".\n")
        # the constant default values of the parameters (what a caller that omits the argument passes)
        for pname, t, default, _ in sig.params:
            if isinstance(default, ast.Constant) and not isinstance(default.value, bool) \
                    and isinstance(default.value, (str, int)):
                val = pystr(default.value) if isinstance(default.value, str) else f"{default.value}%Z"
                if (t == "str") != isinstance(default.value, str):
                    fail(default, "default value does not agree with the parameter annotation")
                text += (f"(* the default value of the parameter {pname} *)\n"
                         f"Definition {cn}_{m}_default_{pname} : {coq_type(t)} := {val}.\n")
            elif default is not None and t != "settings":
                fail(default, "default value of a parameter (only str / int constants, or a Settings object)")
        return text, env["deps"]

    @staticmethod
    def pyname(m):
        if m.endswith("_get"):
            return m[:-4] + " (property getter)"
        if m.endswith("_set"):
            return m[:-4] + " (property setter)"
        return m

    def dispatch_text(self, m):
        sig = self.sigs[next(key for key in self.impls if key[1] == m)]
        params = [(mangle(n), t) for n, t, _, _ in sig.params]
        kind = self.kinds[m]
        rt = coq_type(self.rets[m])
        rtype = f"option (pyobj * {rt})" if kind == "mut" else f"option {rt}"
        opn = self.opens[m]
        so = "(str_of : pyobj -> option str) " if opn else ""
        lines = []
        for cn in WRITER_CLASSES:
            c = self.find_impl(cn, m)
            if c is None:
                lines.append(f"  | C{cn} => None")
            else:
                lines.append(f"  | C{cn} => {c}_{m}{'_open str_of' if opn else ''} self" + "".join(" " + p for p, _ in params))
        return (f"(* self.{self.pyname(m)}: the method of the class of self (None = the class has no such method: AttributeError) *)\n"
                f"Definition dispatch_{m}{'_open' if opn else ''} {so}(self : pyobj) "
                + "".join(f"({p} : {coq_type(t)}) " for p, t in params) + f": {rtype} :=\n"
                + "  match f_cls self with\n" + "\n".join(lines) + "\n  end.\n")

    # ---- builder classes ----
    def builder_new(self, cn):
        """C_new: __init__ of a string-builder class followed by __str__"""
        c = self.mod.classes[cn]
        extra = set(c.methods) - {"__init__", "__str__"} - {m for (k, m) in EXTERNAL_METHODS if k == cn}
        if extra or c.getters or c.setters or c.class_attrs or c.bases != ["object"]:
            fail(c.node, "shape of a string-builder class (methods besides __init__, its build method and __str__)")
        for need in ("__init__", "__str__"):
            if need not in c.methods:
                fail(c.node, f"string-builder class without {need}")
        strfn = c.methods["__str__"]
        sb = body_of(strfn)
        if len(sb) != 1 or not isinstance(sb[0], ast.Return) or not is_self_attr(sb[0].value):
            fail(strfn, "__str__ of a string-builder class must be  return self.<field>")
        strfield = sb[0].value.attr
        init = c.methods["__init__"]
        sig = Sig(self.mod, init)
        vars_ = {}
        params = []
        for name, t, _, _ in sig.params:
            p = mangle(name)
            vars_[name] = Val(p, t)
            params.append(f"({p} : {coq_type(t)})")
        fields = {}
        lines = []
        raises = False
        for st in body_of(init):
            if isinstance(st, (ast.Assign, ast.AnnAssign)):
                tgt = st.targets[0] if isinstance(st, ast.Assign) and len(st.targets) == 1 else getattr(st, "target", None)
                if tgt is None or not is_self_attr(tgt):
                    fail(st, "statement in __init__ of a string-builder class")
                v = st.value
                if isinstance(v, ast.Name) and v.id in vars_:
                    val = vars_[v.id]
                elif isinstance(v, ast.Constant) and isinstance(v.value, str):
                    val = Val(pystr(v.value), "str")
                else:
                    fail(st, "value assigned in __init__ of a string-builder class")
                fields[tgt.attr] = Val("self_" + tgt.attr, val.type)
                lines.append(f"let self_{tgt.attr} := {val.text} in")
            elif isinstance(st, ast.Expr) and isinstance(st.value, ast.Call) and isinstance(st.value.func, ast.Attribute) \
                    and isinstance(st.value.func.value, ast.Name) and st.value.func.value.id == "self" \
                    and (cn, st.value.func.attr) in EXTERNAL_METHODS and not st.value.args and not st.value.keywords:
                m = st.value.func.attr
                fn = c.methods.get(m) or fail(st, "unknown build method")
                reads = self.mod.fields_read(cn, fn)
                for r in reads:
                    if r not in fields:
                        fail(st, f"build method reads self.{r} before __init__ assigns it")
                outs = self.mod.fields_assigned(cn, fn)
                if len(outs) != 1:
                    fail(fn, "a build method must assign exactly one field")
                call = f"PySource.{cn}_{m} " + " ".join(fields[r].text for r in reads)
                if can_raise_fn(fn):
                    raises = True
                    lines.append(f"py_bind ({call}) (fun self_{outs[0]} =>")
                else:
                    lines.append(f"let self_{outs[0]} := {call} in")
                fields[outs[0]] = Val("self_" + outs[0], "str")
            else:
                fail(st, "statement in __init__ of a string-builder class")
        if strfield not in fields or fields[strfield].type != "str":
            fail(strfn, "__str__ returns a field that __init__ does not build")
        closes = sum(1 for l in lines if l.startswith("py_bind"))
        res = fields[strfield].text
        body = "\n".join(lines) + "\n" + (f"Some {res}" if raises else res) + ")" * closes
        rtype = "option str" if raises else "str"
        return (f"(* {SOURCE}, {cn}(...) : {cn}.__init__ (line {init.lineno}) then {cn}.__str__ (line {strfn.lineno}) *)\n"
                f"Definition {cn}_new " + " ".join(params) + f" : {rtype} :=\n" + ind(body) + ".\n")

    def writer_new(self, cn):
        c = self.find_impl(cn, "__init__")
        sig = self.sigs[(c, "__init__")]
        params = [(mangle(n), t) for n, t, _, _ in sig.params]
        return (f"(* {SOURCE}, {cn}(...): a fresh object of the class, then {c}.__init__ *)\n"
                f"Definition {cn}_new " + " ".join(f"({p} : {coq_type(t)})" for p, t in params) + " : option pyobj :=\n"
                f"  py_bind ({c}___init__ (py_fresh C{cn})" + "".join(" " + p for p, _ in params)
                + ") (fun '(self, _) => Some self).\n"), {("impl", c, "__init__")}

    def class_attr_defs(self):
        """class attributes of the writer classes: the initial value of the component"""
        out = []
        sets = []
        for cn in WRITER_CLASSES:
            for a, v in self.mod.classes[cn].class_attrs.items():
                if a not in ATTRS or ATTRS[a][1] != "strlist":
                    fail(v, "class attribute that is not a declared List[str] attribute")
                if not isinstance(v, ast.List) or not all(isinstance(x, ast.Constant) and isinstance(x.value, str) for x in v.elts):
                    fail(v, "value of a class attribute (only a list of str constants)")
                if cn != WRITER_CLASSES[0]:
                    fail(v, "class attribute of a derived writer class")
                out.append(f"(* {SOURCE}, class attribute {cn}.{a} (line {v.lineno}) *)\n"
                           f"Definition {cn}_{a} : list str :=\n  [" + "; ".join(pystr(x.value) for x in v.elts) + "].\n")
                sets.append((ATTRS[a][0], f"{cn}_{a}"))
        body = "py_blank c"
        for comp, d in sets:
            body = f"set_{comp} ({body}) {d}"
        out.append("(* an object of class c before __init__ runs: only the class attributes are there *)\n"
                   f"Definition py_fresh (c : pyclass) : pyobj :=\n  {body}.\n")
        return out

    # ---- everything, in dependency order ----
    def generate(self):
        out = self.class_attr_defs()
        for cn in BUILDER_CLASSES:
            out.append(self.builder_new(cn))
        # result types must be known before a caller is translated: translate in dependency order
        # by repeated attempts (a call cycle never resolves and fails closed)
        pending = [("impl", cn, m) for (cn, m) in self.impls]
        done = []
        emitted = set()
        progress = True
        texts = {}
        errors = {}
        while pending and progress:
            progress = False
            for node in list(pending):
                _, cn, m = node
                saved = dict(self.rets)
                try:
                    text, deps = self.translate_impl(cn, m)
                except Unsupported as ex:
                    if "is not known yet" in str(ex):
                        self.rets = saved
                        errors[node] = ex
                        continue
                    raise
                texts[node] = (text, deps)
                pending.remove(node)
                progress = True
        if pending:
            raise errors[pending[0]]
        # dispatch nodes
        nodes = dict(texts)
        for m in self.names:
            deps = {("impl", self.find_impl(cn, m), m) for cn in WRITER_CLASSES if self.find_impl(cn, m)}
            nodes[("dispatch", m)] = (self.dispatch_text(m), deps)
        for cn in WRITER_CLASSES:
            t, deps = self.writer_new(cn)
            nodes[("new", cn)] = (t, deps)
        for cn in BUILDER_CLASSES:
            nodes[("new", cn)] = ("", set())
        order = []
        state = {}

        def visit(n, stack):
            if state.get(n) == 2:
                return
            if state.get(n) == 1:
                raise Unsupported(f"{Ctx.file}: call cycle through {n} (only recursion through str() of a document element is supported)")
            state[n] = 1
            for d in sorted(nodes[n][1], key=str):
                if d not in nodes:
                    raise Unsupported(f"{Ctx.file}: {n} depends on {d}, which is not translated")
                visit(d, stack + [n])
            state[n] = 2
            order.append(n)
        for n in sorted(nodes, key=lambda x: (self.impls[(x[1], x[2])].lineno if x[0] == "impl" else 10 ** 6, str(x))):
            visit(n, [])
        for n in order:
            if nodes[n][0]:
                out.append(nodes[n][0])
        # close the recursion through str()
        if any(self.opens.get(m) for m in self.names):
            if not self.opens.get("__str__") or self.kinds["__str__"] != "pure" or self.rets["__str__"] != "str":
                raise Unsupported(f"{Ctx.file}: str() of a writer needs a pure __str__ returning str")
            out.append("(* str(x) for a writer x: x.__str__(), the recursion through the document tree closed *)\n"
                       "Definition py_str_obj (o : pyobj) : option str :=\n"
                       "  py_obj_rec (fun str_of self => dispatch___str___open str_of self) o.\n")
            for n in order:
                if n[0] == "impl" and self.opens.get(n[2]):
                    cn, m = n[1], n[2]
                    sig = self.sigs[(cn, m)]
                    ps = [mangle(x) for x, _, _, _ in sig.params]
                    out.append(f"Definition {cn}_{m} (self : pyobj) " + "".join(f"({p} : {coq_type(t)}) " for p, (_, t, _, _) in zip(ps, sig.params))
                               + f":= {cn}_{m}_open py_str_obj self" + "".join(" " + p for p in ps) + ".\n")
                if n[0] == "dispatch" and self.opens.get(n[1]):
                    m = n[1]
                    sig = self.sigs[next(key for key in self.impls if key[1] == m)]
                    ps = [mangle(x) for x, _, _, _ in sig.params]
                    out.append(f"Definition dispatch_{m} (self : pyobj) " + "".join(f"({p} : {coq_type(t)}) " for p, (_, t, _, _) in zip(ps, sig.params))
                               + f":= dispatch_{m}_open py_str_obj self" + "".join(" " + p for p in ps) + ".\n")
        return "\n".join(out)


HEADER = """(* GENERATED by translators/pywriter2coq.py from {src} -- do not edit;
   regenerated on every run.

   Every definition below is the statement-by-statement rendering of one method of the classes
   RSTWriter / Directive (or of the constructor of a string-builder class) over the object
   representation and the combinators of Base/PyWriterSem.v.  Proofs/WriterSourceMatch.v proves
   that they implement the hand-written model Model/Writer.v.

   Translation scheme (one Gallina form per Python construct):
     def m(self, a, *b, k=..)    Definition C_m (self : pyobj) (a) (b : list str) (k) : option R
                                 None = the method raised.  A method that (transitively) assigns an attribute of
                                 self or mutates one of its lists returns the new self too: option (pyobj * R).
     self.x                      (f_x self)        by the declared attribute table; a property: its getter method
     self.x = E                  let self := set_x self E in ...
     x = E / x += E              let x := E in ... / let x := x ++ E in ...       (str)
     self.xs.append(E)           let self := set_xs self (py_append (f_xs self) E) in ...
                                 E a string-builder object: py_elem_of_builder E, a writer: py_elem_of_writer E
     w = C(..); self.document.append(w); return w
                                 the aliasing rule: after the append the variable w is the POSITION of the object
                                 in self.document (let w_ref := py_len (f_document self) in ..) and may only be returned
     del self.xs[c:]             let self := set_xs self (py_del_from (f_xs self) c) in ...
     self.xs[i] = E              py_bind (py_setitem (f_xs self) i E) (fun t => let self := set_xs self t in ...)
     xs[i]  /  xs[c:]            py_bind (py_getitem xs i) (fun t => ...)   (IndexError = None) / py_slice_from xs c
     [E]                         [E]               len(xs)   py_zlen xs      ints are integers Z: py_zint_add ...
     f'a{{x}}b'                    (s 'a') ++ x ++ (s 'b'); for a document element x: py_bind (py_str_elem str_of x) (fun t => ..)
                                 where str_of is the meaning of str() of a nested writer, a parameter of every method that
                                 needs it (suffix _open); py_str_obj closes the recursion with py_obj_rec
     for v in XS: BODY           py_bind (py_for_exc XS (fun st v => BODY; Some st) st) (fun st => ...)
                                 st = the variables BODY assigns (all must exist before the loop), and self if mutated
     if C: A else: B             py_bind (if C then A; Some st else B; Some st) (fun st => ...)
     if E is not None: A         py_bind (match E with Some n => A[E := n]; Some st | None => Some st end) (fun st => ...)
     return E / end of method    Some E / Some tt          (with the new self for a mutating method)
     self.m(a)                   py_bind (dispatch_m self a) ...   dispatch_m selects the method by the class of self
                                 following the base classes; a class without the method: None (AttributeError)
     super().__init__(a)         py_bind (Base___init__ self a) (fun '(self, _) => ...)
     C(a, k=v)                   C_new a v   parameters matched by position / keyword, omitted ones take the constant
                                 default of the signature; for a writer class: __init__ on py_fresh C; for a
                                 string-builder class: the string __init__ builds and __str__ returns
     get_indents(n), the build_* methods, Directive.format_arguments
                                 the functions of Gen/PySource.v (translated by py2coq.py and proved equal to the
                                 model in Proofs/SourceMatch.v); an int argument of get_indents is py_nat_of_int
     settings.rst.headers        py_settings_rst_headers settings        ListType.X   PySource.ListType_X
     def m(self, a, k=CONST)     also  Definition C_m_default_k := CONST  (what a caller that omits k passes; pinned in
                                 Proofs/WriterSourceMatch.v).  The default Settings() of a settings parameter is not rendered:
                                 every call inside these classes passes settings explicitly (an omitted one fails the translation).
   Out of scope (not translated): {skip}. *)
From Coq Require Import String List NArith ZArith Bool Arith.
From CMinx Require Import Base.Str Base.PySem Base.PyWriterSem Gen.PySource.
Import ListNotations.

"""


def main():
    if len(sys.argv) != 3:
        print(__doc__)
        return 2
    repo, outdir = Path(sys.argv[1]), Path(sys.argv[2])
    path = repo / SOURCE
    Ctx.file = SOURCE
    try:
        tree = ast.parse(path.read_text(encoding="utf-8"), filename=str(path))
        mod = Module(tree)
        tr = Translator(mod)
        body = tr.generate()
    except Unsupported as ex:
        print(f"pywriter2coq: {ex}", file=sys.stderr)
        return 1
    except (OSError, SyntaxError) as ex:
        print(f"pywriter2coq: cannot read {path}: {ex}", file=sys.stderr)
        return 1
    skip = ", ".join(sorted(f"{c}.{m}" for c, m in SKIP_METHODS) + sorted("class " + c for c in SKIP_CLASSES))
    text = HEADER.format(src=SOURCE, skip=skip) + body
    outdir.mkdir(parents=True, exist_ok=True)
    (outdir / "PyWriterSource.v").write_text(text, encoding="utf-8")
    return 0


if __name__ == "__main__":
    sys.exit(main())
