#!/usr/bin/env python3
"""src/cminx/parser/{CMake.g4, CMakeLexer.py, CMakeParser.py}  ->  Gen/GrammarSource.v

The lexer and parser of the model (Model/Lexer.v, Model/Parser.v) are hand-written from the grammar;
this translator re-reads, on every run, (1) every rule of CMake.g4 as (name, body text with comments
and layout removed), in grammar order, (2) the rule-name / token-name tables and the serialised ATN
of the generated lexer and parser (the code ANTLR actually runs).  Proofs/GrammarPins.v proves that
they equal the grammar the model was written against and that the model's rule order, token
numbering and skip set are the grammar's.  Any change to the grammar or a regenerated lexer breaks
an equality there: the lexer/parser theorems are then no longer about the code.  Fail-closed."""
import ast
import re
import sys
from pathlib import Path

sys.path.insert(0, str(Path(__file__).resolve().parent))
from coqfmt import cstr, clist


def strip_g4_comments(text):
    out = []
    i = 0
    n = len(text)
    in_str = False
    in_set = False
    while i < n:
        c = text[i]
        if in_str:
            out.append(c)
            if c == "\\" and i + 1 < n:
                out.append(text[i + 1])
                i += 2
                continue
            if c == "'":
                in_str = False
            i += 1
        elif in_set:
            out.append(c)
            if c == "\\" and i + 1 < n:
                out.append(text[i + 1])
                i += 2
                continue
            if c == "]":
                in_set = False
            i += 1
        elif c == "'":
            in_str = True
            out.append(c)
            i += 1
        elif c == "[":
            in_set = True
            out.append(c)
            i += 1
        elif text.startswith("//", i):
            while i < n and text[i] != "\n":
                i += 1
        elif text.startswith("/*", i):
            j = text.find("*/", i + 2)
            if j < 0:
                raise SystemExit("unterminated block comment in CMake.g4")
            i = j + 2
        else:
            out.append(c)
            i += 1
    return "".join(out)


def split_rules(text):
    """[(name, is_fragment, body)] in order; body normalised: runs of layout outside literals -> one space"""
    text = strip_g4_comments(text)
    m = re.match(r"\s*grammar\s+([A-Za-z_]+)\s*;", text)
    if not m:
        raise SystemExit("CMake.g4: no grammar header")
    rest = text[m.end():]
    rules = []
    i = 0
    n = len(rest)
    # a rule = [fragment] Name : body ;   (semicolons inside literals / sets do not end it)
    while True:
        m = re.compile(r"\s*(fragment\s+)?([A-Za-z_][A-Za-z_0-9]*)\s*:", re.S).match(rest, i)
        if not m:
            if rest[i:].strip():
                raise SystemExit(f"CMake.g4: cannot parse rule at: {rest[i:i + 60]!r}")
            break
        j = m.end()
        body = []
        in_str = in_set = False
        while j < n:
            c = rest[j]
            if in_str or in_set:
                body.append(c)
                if c == "\\" and j + 1 < n:
                    body.append(rest[j + 1])
                    j += 2
                    continue
                if (in_str and c == "'") or (in_set and c == "]"):
                    in_str = in_set = False
                j += 1
            elif c == "'":
                in_str = True
                body.append(c)
                j += 1
            elif c == "[":
                in_set = True
                body.append(c)
                j += 1
            elif c == ";":
                break
            elif c in " \t\r\n":
                if body and body[-1] != " ":
                    body.append(" ")
                j += 1
            else:
                body.append(c)
                j += 1
        else:
            raise SystemExit(f"CMake.g4: rule {m.group(2)} not terminated")
        rules.append((m.group(2), bool(m.group(1)), "".join(body).strip()))
        i = j + 1
    return rules


def class_list(tree, cls, name):
    for node in tree.body:
        if isinstance(node, ast.ClassDef) and node.name == cls:
            for st in node.body:
                if isinstance(st, ast.Assign) and len(st.targets) == 1 and isinstance(st.targets[0], ast.Name) \
                        and st.targets[0].id == name:
                    return [ast.literal_eval(e) for e in st.value.elts]
    raise SystemExit(f"{cls}.{name} not found")


def serialized_atn(tree):
    """the code units of the string serializedATN() builds"""
    for node in tree.body:
        if isinstance(node, ast.FunctionDef) and node.name == "serializedATN":
            chunks = []
            for n in ast.walk(node):
                if isinstance(n, ast.Call) and isinstance(n.func, ast.Attribute) and n.func.attr == "write":
                    chunks.append((n.lineno, n.col_offset, ast.literal_eval(n.args[0])))
            chunks.sort()
            return [ord(c) for _, _, s in chunks for c in s]
    raise SystemExit("serializedATN() not found")


def code_digest(path):
    """sha256 of the AST of a Python file without docstrings and comments (layout-insensitive)"""
    import hashlib
    tree = ast.parse(path.read_text(encoding="utf-8"))
    for node in ast.walk(tree):
        body = getattr(node, "body", None)
        if isinstance(body, list) and body and isinstance(body[0], ast.Expr) \
                and isinstance(getattr(body[0], "value", None), ast.Constant) and isinstance(body[0].value.value, str):
            node.body = body[1:] or [ast.Pass()]
    return hashlib.sha256(ast.dump(tree, include_attributes=False).encode()).hexdigest()


def dispatch_table(tree):
    """[(context class, RULE_ constant, listener method of enterRule, listener method of exitRule)] of CMakeParser"""
    out = []
    for node in ast.walk(tree):
        if isinstance(node, ast.ClassDef) and node.name.endswith("Context"):
            rule = enter = leave = None
            for st in node.body:
                if isinstance(st, ast.FunctionDef) and st.name == "getRuleIndex":
                    r = [n for n in ast.walk(st) if isinstance(n, ast.Return)]
                    if len(r) == 1 and isinstance(r[0].value, ast.Attribute):
                        rule = r[0].value.attr
                if isinstance(st, ast.FunctionDef) and st.name in ("enterRule", "exitRule"):
                    calls = [n.func.attr for n in ast.walk(st) if isinstance(n, ast.Call) and isinstance(n.func, ast.Attribute)
                             and isinstance(n.func.value, ast.Name) and n.func.value.id == "listener"]
                    if len(calls) != 1:
                        raise SystemExit(f"CMakeParser.{node.name}.{st.name}: expected exactly one listener call, found {calls}")
                    if st.name == "enterRule":
                        enter = calls[0]
                    else:
                        leave = calls[0]
            if rule is None or enter is None or leave is None:
                raise SystemExit(f"CMakeParser.{node.name}: getRuleIndex / enterRule / exitRule not of the generated shape")
            out.append((node.name, rule, enter, leave))
    return out


def listener_overrides(path, cls):
    """names of the enter*/exit* methods a listener class defines itself, in source order"""
    tree = ast.parse(path.read_text(encoding="utf-8"))
    for node in tree.body:
        if isinstance(node, ast.ClassDef) and node.name == cls:
            return [st.name for st in node.body if isinstance(st, ast.FunctionDef)
                    and (st.name.startswith("enter") or st.name.startswith("exit"))]
    raise SystemExit(f"class {cls} not found in {path}")


def nlist(xs, per=24):
    rows = ["; ".join(str(x) for x in xs[i:i + per]) for i in range(0, len(xs), per)]
    return "[" + ";\n   ".join(rows) + "]%N"


def main():
    repo = Path(sys.argv[1])
    outdir = Path(sys.argv[2])
    pdir = repo / "src" / "cminx" / "parser"
    rules = split_rules((pdir / "CMake.g4").read_text(encoding="utf-8"))
    lex = ast.parse((pdir / "CMakeLexer.py").read_text(encoding="utf-8"))
    par = ast.parse((pdir / "CMakeParser.py").read_text(encoding="utf-8"))
    out = ["(* GENERATED by translators/grammar2coq.py from src/cminx/parser/{CMake.g4,CMakeLexer.py,CMakeParser.py}"
           " -- do not edit; regenerated on every run *)",
           "From Coq Require Import String List NArith Bool.",
           "From CMinx Require Import Base.Str.",
           "Import ListNotations.", "",
           "(* CMake.g4: (rule name, fragment?, body with comments removed and layout normalised), in grammar order *)",
           "Definition g4_rules : list (str * bool * str) :=",
           "  [" + ";\n   ".join(f"({cstr(n)}, {'true' if fr else 'false'}, {cstr(b)})" for n, fr, b in rules) + "].", "",
           "(* the generated lexer *)",
           "Definition lexer_rule_names : list str := " + clist(class_list(lex, "CMakeLexer", "ruleNames"), cstr) + ".",
           "Definition lexer_symbolic_names : list str := " + clist(class_list(lex, "CMakeLexer", "symbolicNames"), cstr) + ".",
           "Definition lexer_literal_names : list str := " + clist(class_list(lex, "CMakeLexer", "literalNames"), cstr) + ".",
           "Definition lexer_atn : list N :=\n  " + nlist(serialized_atn(lex)) + ".", "",
           "(* the generated parser *)",
           "Definition parser_rule_names : list str := " + clist(class_list(par, "CMakeParser", "ruleNames"), cstr) + ".",
           "Definition parser_atn : list N :=\n  " + nlist(serialized_atn(par)) + ".", "",
           "(* which listener method each parse-tree context class calls on entry and on exit *)",
           "Definition parser_dispatch : list (str * str * str * str) :=\n  ["
           + ";\n   ".join(f"({cstr(a)}, {cstr(b)}, {cstr(c)}, {cstr(d)})" for a, b, c, d in dispatch_table(par)) + "].", "",
           "(* the listener methods DocumentationAggregator overrides (every other callback is the empty default) *)",
           "Definition aggregator_listener_methods : list str := "
           + clist(listener_overrides(repo / "src" / "cminx" / "aggregator.py", "DocumentationAggregator"), cstr) + ".", "",
           "(* sha256 of the docstring-free AST of the generated / hand-written modules of cminx.parser *)",
           "Definition parser_package_digests : list (str * str) :=\n  ["
           + ";\n   ".join(f"({cstr(n)}, {cstr(code_digest(pdir / n))})"
                           for n in ("CMakeLexer.py", "CMakeParser.py", "CMakeListener.py", "__init__.py")) + "].", ""]
    text = "\n".join(out) + "\n"
    if len(sys.argv) > 3 and sys.argv[3] == "--baseline":
        # the frozen copy the pins compare against (Proofs/GrammarBaseline.v, committed; refreshed by
        # hand only after the model's lexer/parser have been re-validated against a changed grammar)
        for name in ("g4_rules", "lexer_rule_names", "lexer_symbolic_names", "lexer_literal_names", "lexer_atn",
                     "parser_rule_names", "parser_atn", "parser_dispatch", "aggregator_listener_methods",
                     "parser_package_digests"):
            text = text.replace(f"Definition {name} ", f"Definition base_{name} ")
        text = text.replace("GENERATED by translators/grammar2coq.py", "FROZEN COPY written by translators/grammar2coq.py --baseline")
        text = text.replace(" -- do not edit; regenerated on every run", " at the time the model's lexer and parser were validated")
        (outdir / "GrammarBaseline.v").write_text(text)
        return
    outdir.mkdir(parents=True, exist_ok=True)
    (outdir / "GrammarSource.v").write_text(text)


if __name__ == "__main__":
    main()
