import subprocess, shutil, os, sys
SNAP='/tmp/pywriter/repo_snapshot/src/cminx/rstwriter.py'
COPY='/tmp/pywriter/repo_copy'
os.makedirs(COPY+'/src/cminx', exist_ok=True)
src=open(SNAP).read()
MUT=[
 ("N20b a new subclass of RSTWriter with a docstring", "class Directive(RSTWriter):", "class Admonition(RSTWriter):\n    \"\"\"doc\"\"\"\n\n\nclass Directive(RSTWriter):"),
 ("N21 Directive overrides text()", "    def format_arguments(self) -> str:", "    def text(self, txt: str) -> None:\n        self.document.append(Paragraph(txt, indent=get_indents(self.indent + 1)))\n\n    def format_arguments(self) -> str:"),
 ("N22 Paragraph.__init__ swaps its fields", "        self.text: str = text\n        self.prefix: str = indent", "        self.text: str = indent\n        self.prefix: str = text"),
 ("N23 Field.__str__ returns the name", "        return self.field_string", "        return self.field_name"),
 ("N24 Option gets a mutator method", "    def build_option_string(self) -> None:", "    def set_value(self, v):\n        self.value = v\n        self.build_option_string()\n\n    def build_option_string(self) -> None:"),
 ("N25 simple_table changed (declared out of scope)", "        self.document.append(SimpleTable(tab, column_headings))", "        self.document.insert(0, SimpleTable(tab, column_headings))"),
 ("N26 __str__ no longer calls to_text", "        return self.to_text()", "        return self.title"),
 ("N27 module-level monkeypatch", "class Directive(RSTWriter):", "RSTWriter.text = RSTWriter.field\n\n\nclass Directive(RSTWriter):"),
 ("N28 option() default value changed (callers omit it)", "def option(self, name: str, value: str = \"\") -> None:", "def option(self, name: str, value: str = \"x\") -> None:"),
]
def run(cmd, cwd=None):
    p=subprocess.run(cmd, cwd=cwd, capture_output=True, text=True, timeout=900)
    return p.returncode, (p.stdout+p.stderr)
res=[]
for name, old, new in MUT:
    if name.startswith("N02b"):
        old = "        for option in self.options:\n            document_string += f\"{option}\\n\"\n\n        if len(self.document) > 1:\n            document_string += \"\\n\"\n\n        for element in self.document[1:]:\n            document_string += f\"{element}\\n\"\n        return document_string"
        new = "        if len(self.document) > 1:\n            document_string += \"\\n\"\n\n        for element in self.document[1:]:\n            document_string += f\"{element}\\n\"\n        for option in self.options:\n            document_string += f\"{option}\\n\"\n\n        return document_string"
    assert src.count(old)==1, (name, src.count(old))
    open(COPY+'/src/cminx/rstwriter.py','w').write(src.replace(old,new))
    rc,out=run([sys.executable,'/tmp/pywriter/translators/pywriter2coq.py',COPY,'/tmp/pywriter/neg/coq/theories/Gen'])
    if rc!=0:
        res.append((name,'TRANSLATOR FAILS (exit %d): %s'%(rc,out.strip()[:230]))); continue
    rc,out=run(['coqc','-Q','theories','CMinx','theories/Gen/PyWriterSource.v'],cwd='/tmp/pywriter/neg/coq')
    if rc!=0:
        res.append((name,'GENERATED FILE DOES NOT TYPE-CHECK: '+' '.join(out.split())[:230])); continue
    rc,out=run(['coqc','-Q','theories','CMinx','theories/Proofs/WriterSourceMatch.v'],cwd='/tmp/pywriter/neg/coq')
    if rc!=0:
        import re
        m=re.search(r'line (\d+)',out)
        line=int(m.group(1)) if m else 0
        # find enclosing lemma name
        lines=open('/tmp/pywriter/neg/coq/theories/Proofs/WriterSourceMatch.v').read().split('\n')
        nm='?'
        for i in range(line-1,-1,-1):
            mm=re.match(r'\s*(Lemma|Theorem|Corollary|Example|Definition)\s+(\w+)',lines[i])
            if mm: nm=mm.group(2); break
        res.append((name,f'PROOF BREAKS at line {line} in {nm}')); continue
    res.append((name,'!!! NOT DETECTED'))
for n,r in res: print(n,'=>',r)
# restore: regenerate from the snapshot and check it is identical to the delivered file
rc,out=run([sys.executable,'/tmp/pywriter/translators/pywriter2coq.py','/tmp/pywriter/repo_snapshot','/tmp/pywriter/neg/coq/theories/Gen'])
print('baseline regen rc',rc, open('/tmp/pywriter/neg/coq/theories/Gen/PyWriterSource.v').read()==open('/tmp/pywriter/coq/theories/Gen/PyWriterSource.v').read())
