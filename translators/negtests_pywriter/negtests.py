import subprocess, shutil, os, sys
SNAP='/tmp/pywriter/repo_snapshot/src/cminx/rstwriter.py'
COPY='/tmp/pywriter/repo_copy'
os.makedirs(COPY+'/src/cminx', exist_ok=True)
src=open(SNAP).read()
MUT=[
 ("N01 RSTWriter.to_text skips the heading", "        for element in self.document:\n            document_string += f\"{element}\\n\"\n        return document_string\n\n    def __str__", "        for element in self.document[1:]:\n            document_string += f\"{element}\\n\"\n        return document_string\n\n    def __str__"),
 ("N02 Directive.to_text joins options in reverse (reversed())", "for option in self.options:", "for option in reversed(self.options):"),
 ("N02b Directive.to_text emits options after the content", None, None),
 ("N03 section() does not increment the level", "section_level=self.section_level + 1", "section_level=self.section_level"),
 ("N04 option() appends to self.document", "        self.options.append(\n            Option(", "        self.document.append(\n            Option("),
 ("N05 Directive.__init__ forgets indent + 1", "indent=indent + 1)", "indent=indent)"),
 ("N05b directive() passes 0 instead of self.indent", "w = Directive(name, self.indent, *arguments", "w = Directive(name, 0, *arguments"),
 ("N06 title setter does not rebuild the heading", "        self.__title = new_title\n        self.document[0] = self.build_heading()", "        self.__title = new_title"),
 ("N07 clear() deletes the heading too", "del self.document[1:]", "del self.document[0:]"),
 ("N08 class attribute heading_level_chars changed", "['#', '*', '=', '-',", "['#', '=', '*', '-',"),
 ("N09 field() indents one level deeper", "Field(field_name, field_text, get_indents(self.indent))", "Field(field_name, field_text, get_indents(self.indent + 1))"),
 ("N10 Directive.build_heading uses self.indent", "                self.indent - 1), self.format_arguments())", "                self.indent), self.format_arguments())"),
 ("N11 blank line after options also for an empty directive", "if len(self.document) > 1:", "if len(self.document) > 0:"),
 ("N12 bulleted_list builds an ENUMERATED list", "RSTList(items, ListType.BULLETED,", "RSTList(items, ListType.ENUMERATED,"),
 ("N13 section() returns self", "        self.document.append(sect)\n        return sect", "        self.document.append(sect)\n        return self"),
 ("N14 a while loop in to_text (outside the subset)", "        document_string = \"\"\n        for element in self.document:", "        document_string = \"\"\n        while False:\n            pass\n        for element in self.document:"),
 ("N15 text() inserts at the front", "self.document.append(Paragraph(txt,", "self.document.insert(1, Paragraph(txt,"),
 ("N16 section() forgets to pass the settings", "            section_level=self.section_level + 1,\n            settings=self.settings)", "            section_level=self.section_level + 1)"),
 ("N17 to_text separator changed", "            document_string += f\"{element}\\n\"\n        return document_string\n\n    def __str__", "            document_string += f\"{element}\\n\\n\"\n        return document_string\n\n    def __str__"),
 ("N18 Directive.option uses indent - 1", "                get_indents(\n                    self.indent)))", "                get_indents(\n                    self.indent - 1)))"),
 ("N19 header_char taken from level + 1", "self.header_char: str = self.heading_level_chars[section_level]", "self.header_char: str = self.heading_level_chars[section_level + 1]"),
 ("N20 a new subclass of Directive (changes dispatch)", "class Directive(RSTWriter):", "class Admonition(RSTWriter):\n    pass\n\n\nclass Directive(RSTWriter):"),
]
def run(cmd, cwd=None):
    p=subprocess.run(cmd, cwd=cwd, capture_output=True, text=True, timeout=900)
    return p.returncode, (p.stdout+p.stderr)
res=[]
for name, old, new in MUT:
    if name.startswith("N02b"):
        old = "        for option in self.options:\n            document_string += f\"{option}\\n\"\n\n        if len(self.document) > 1:\n            document_string += \"\\n\"\n\n        for element in self.document[1:]:\n            document_string += f\"{element}\\n\"\n        return document_string"
        new = "        if len(self.document) > 1:\n            document_string += \"\\n\"\n\n        for element in self.document[1:]:\n            document_string += f\"{element}\\n\"\n        for option in self.options:\n            document_string += f\"{option}\\n\"\n\n        return document_string"
    assert src.count(old)==1, (name, src.count(old))
    open(COPY+'/src/cminx/rstwriter.py','w').write(src.replace(old,new))
    rc,out=run([sys.executable,'/tmp/pywriter/translators/pywriter2coq.py',COPY,'/tmp/pywriter/neg/coq/theories/Gen'])
    if rc!=0:
        res.append((name,'TRANSLATOR FAILS (exit %d): %s'%(rc,out.strip()[:230]))); continue
    rc,out=run(['coqc','-Q','theories','CMinx','theories/Gen/PyWriterSource.v'],cwd='/tmp/pywriter/neg/coq')
    if rc!=0:
        res.append((name,'GENERATED FILE DOES NOT TYPE-CHECK: '+' '.join(out.split())[:230])); continue
    rc,out=run(['coqc','-Q','theories','CMinx','theories/Proofs/WriterSourceMatch.v'],cwd='/tmp/pywriter/neg/coq')
    if rc!=0:
        import re
        m=re.search(r'line (\d+)',out)
        line=int(m.group(1)) if m else 0
        # find enclosing lemma name
        lines=open('/tmp/pywriter/neg/coq/theories/Proofs/WriterSourceMatch.v').read().split('\n')
        nm='?'
        for i in range(line-1,-1,-1):
            mm=re.match(r'\s*(Lemma|Theorem|Corollary|Example|Definition)\s+(\w+)',lines[i])
            if mm: nm=mm.group(2); break
        res.append((name,f'PROOF BREAKS at line {line} in {nm}')); continue
    res.append((name,'!!! NOT DETECTED'))
for n,r in res: print(n,'=>',r)
# restore: regenerate from the snapshot and check it is identical to the delivered file
rc,out=run([sys.executable,'/tmp/pywriter/translators/pywriter2coq.py','/tmp/pywriter/repo_snapshot','/tmp/pywriter/neg/coq/theories/Gen'])
print('baseline regen rc',rc, open('/tmp/pywriter/neg/coq/theories/Gen/PyWriterSource.v').read()==open('/tmp/pywriter/coq/theories/Gen/PyWriterSource.v').read())
