import sys, re
sys.path.insert(0, '/tmp/pywriter/repo_snapshot/src')
import warnings; warnings.filterwarnings("ignore")
from cminx.rstwriter import RSTWriter
from cminx import Settings
top = RSTWriter("top", settings=Settings())
top.text("intro line 1\nline 2")
d1 = top.directive("function", "foo", "bar")
d1.option("noindex"); d1.option("module", "m"); d1.text("doc of foo")
d11 = d1.directive("note")
d11.field("param x", "an x")
d111 = d11.directive("code-block", "cmake")
d111.option("linenos"); d111.text("foo(1)\nbar(2)")
d11.enumerated_list("one", "two")
s2 = top.section("Sub"); s2.bulleted_list("a", "b")
s21 = s2.section("SubSub"); s21.doctest("1+1", "2")
d211 = s21.directive("warning", "w")
s2110 = d211.section("InDir"); s2110.text("deep")
d11.title = "attention"; s2.title = "Sub2"; s2110.clear(); d1.text("tail")
py = top.to_text()
nums = [int(x) for x in re.findall(r'(\d+)%N', open('/tmp/pywriter/coq_text.out').read())]
coq = ''.join(map(chr, nums))
print("equal:", py == coq, len(py), len(coq))
assert top.document[1+1] is d1 and d1.document[1+1] is d11 and s21.document[1+1] is d211 and d211.document[0+1] is s2110
print("handles ok")
