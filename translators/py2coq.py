#!/usr/bin/env python3
"""Selected pure Python functions of CMinx  ->  Gen/PySource.v  (mechanical translation).

    python3 py2coq.py <repo> <outdir>

Reads the CURRENT source with the ast module and renders each function of TARGETS statement
by statement as a Gallina definition over the combinators of Base/PySem.v.  The hand-written
model stays hand-written; Proofs/SourceMatch.v proves once and for all that every generated
function equals the model function.  When somebody edits one of the Python functions the
generated definition changes and the equivalence theorem stops compiling -- or this script
stops with a non-zero exit status, naming the AST node, because the new code left the
supported subset (fail closed).  Nothing of /repo is imported or executed.

The translation scheme is documented in the header this script writes into PySource.v.
"""
import ast
import sys
from pathlib import Path

sys.path.insert(0, str(Path(__file__).resolve().parent))
from coqfmt import cstr

# (source file, [qualified function names], section title)
TARGETS = [
    ("src/cminx/rstwriter.py", [
        "get_indents",
        "interpreted_text",
        "Paragraph.build_text_string",
        "Field.build_field_string",
        "DocTest.build_doctest_string",
        "RSTList.build_list_string",
        "Heading.build_heading_string",
        "DirectiveHeading.build_heading_string",
        "Option.build_option_string",
        "Directive.format_arguments",
    ]),
    ("src/cminx/aggregator.py", [
        "DocumentationAggregator.clean_doc_lines",
        "DocumentationAggregator._argument_text",
        "DocumentationAggregator.process_generic_command",
        "DocumentationAggregator.process_set",
        "DocumentationAggregator.process_option",
        "DocumentationAggregator.process_add_test",
        "DocumentationAggregator.process_ct_add_test",
        "DocumentationAggregator.process_ct_add_section",
        "DocumentationAggregator.enterDocumented_module",
        # batch 4: the stateful methods (definition stack, class stack, awaiting slot)
        "DocumentationAggregator.process_function",
        "DocumentationAggregator.process_macro",
        "DocumentationAggregator.process_cmake_parse_arguments",
        "DocumentationAggregator.process_cpp_class",
        "DocumentationAggregator.process_cpp_attr",
        "DocumentationAggregator.process_cpp_member",
        "DocumentationAggregator.process_cpp_constructor",
        "DocumentationAggregator.enterCommand_invocation",
        "DocumentationAggregator.enterDocumented_command",
    ]),
    ("src/cminx/documentation_types.py", [
        "FunctionDocumentation.process",
        "MacroDocumentation.process",
        "VariableDocumentation.process",
        "OptionDocumentation.process",
        "GenericCommandDocumentation.process",
        "CTestDocumentation.process",
        "TestDocumentation.process",
        "SectionDocumentation.process",
        "MethodDocumentation.process",
        "AttributeDocumentation.process",
        "ModuleDocumentation.process",
        # batch 5: the methods that call other process methods (after them), and the last concrete class
        "ClassDocumentation.process",
        "DanglingDoccomment.process",
    ]),
    ("src/cminx/documenter.py", [
        # the decision part: everything before the final rendering loop (dynamic dispatch)
        ("Documenter.process_docs", {"drop_last": "for doc in docs:\n    doc.process(self.writer)"}),
        # batch 5: the whole method, including the rendering loop
        ("Documenter.process_docs", {"name": "Documenter_process_docs_whole"}),
        # batch 5, part 3: the pure glue around it
        ("Documenter.process", {"name": "Documenter_process_after_walk",
                                "after_stmt": "self.walker.walk(self.aggregator, tree)"}),
        ("Documenter.__init__", {"name": "Documenter_init_writer", "from_assign": "title", "to_field": "writer"}),
    ]),
    ("src/cminx/__init__.py", [
        # the naming computation: from the first assignment of prefix to the last one of module_name
        ("document_single_file", {"name": "document_single_file_names",
                                  "from_assign": "prefix", "to_assign": "module_name",
                                  "result": ["header_name", "module_name"],
                                  "then_call": "Documenter(file, header_name, module_name, settings)",
                                  "opaque_params": ["file", "root"]}),
    ]),
]
SETTINGS_FILE = "src/cminx/config.py"
# pure library calls that are abstracted into arguments of the translated function: result type
OPAQUE_CALLS = {"os.path.isdir": "bool", "os.path.relpath": "str", "os.path.basename": "str"}
CMAKE_EXT_SUB = (r"\.cmake$", "")      # the only re.sub the translator knows

# identifiers that must not be used as Gallina binders (Coq keywords, the s"..." notation of
# Base/Str.v, names this translator generates itself)
RESERVED = {"s", "at", "as", "in", "if", "then", "else", "let", "fun", "forall", "exists", "match",
            "with", "end", "return", "fix", "cofix", "for", "where", "using", "Type", "Prop", "Set",
            "SProp", "nat", "bool", "list", "option", "true", "false", "None", "Some", "str", "map",
            "length", "fst", "snd", "app", "negb", "andb", "orb", "handle", "wstate", "elem", "char", "N",
            "nl", "seq", "concat", "repeat", "rev", "nth", "skipn", "of_string", "arg", "cmd", "entry",
            "Z", "inl", "inr", "filter", "combine"}
WORLD = "world"          # the threaded RST document of functions that take an RSTWriter

WRITER_CLASSES = {"RSTWriter", "Directive"}
WRITER_FILE = "src/cminx/rstwriter.py"


class Unsupported(Exception):
    pass


class Ctx:
    file = "?"


def fail(node, why):
    line = getattr(node, "lineno", "?")
    dump = ast.dump(node) if isinstance(node, ast.AST) else repr(node)
    if len(dump) > 400:
        dump = dump[:400] + "..."
    raise Unsupported(f"{Ctx.file}:{line}: unsupported Python ({why}): {dump}")


# ---------------------------------------------------------------------------------------
# types:  'str' 'int' 'bool' 'writer'  ('list', T|None)  ('enum', Name)  ('opt', T)

def coq_type(t, top=True):
    if t == "str":
        return "str"
    if t == "int":
        return "nat"
    if t == "bool":
        return "bool"
    if t == "writer":
        return "handle"
    if t == "world":
        return "wstate"
    if t == "zint":
        return "Z"
    if t == "cmd":
        return "Parser.cmd"
    if t == "arg":
        return "Parser.arg"
    if t == "entry":
        return "DocTypes.entry"
    if t == "await":
        return "Aggregator.await"
    if t == "modctx":
        return "str"
    if t == "doccmd":
        return "str * Parser.cmd" if top else "(str * Parser.cmd)"
    if t == "doccomment":
        return "str"
    if t == "settings":
        return "py_settings"
    if t == "method":
        return "DocTypes.method"
    if t == "attribute":
        return "DocTypes.attribute"
    if t == "innerclass":
        return "str"
    if isinstance(t, tuple) and t[0] == "record":
        r = " * ".join(coq_type(ft, False) for _, ft, _ in t[2])
        return r if top else "(" + r + ")"
    if isinstance(t, tuple) and t[0] == "refs":
        return "list nat"
    if isinstance(t, tuple) and t[0] == "ref":
        return "nat"
    if isinstance(t, tuple) and t[0] == "list" and t[1] is not None:
        r = "list " + coq_type(t[1], False)
    elif isinstance(t, tuple) and t[0] == "opt":
        r = "option " + coq_type(t[1], False)
    elif isinstance(t, tuple) and t[0] == "enum":
        return t[1]
    elif isinstance(t, tuple) and t[0] == "union":
        return f"({t[1]} + str)%type"
    elif isinstance(t, tuple) and t[0] == "tuple":
        r = " * ".join(coq_type(x, False) for x in t[1])
    else:
        raise Unsupported(f"{Ctx.file}: no Gallina type for {t!r}")
    return r if top else "(" + r + ")"


def default_of(t):
    if t == "str":
        return "([] : str)"
    if t == "int":
        return "0"
    if isinstance(t, tuple) and t[0] == "list":
        return "[]"
    if t == "arg":
        return "py_no_arg"
    if t == "bool":
        return "false"
    if isinstance(t, tuple) and t[0] == "opt":
        return "None"
    if isinstance(t, tuple) and t[0] == "record":
        return "(" + ", ".join(default_of(ft) for _, ft, _ in t[2]) + ")"
    raise Unsupported(f"{Ctx.file}: no default value for element type {t!r}")


def unify(a, b):
    """the common type of a and b ( ('list', None) is the type of the literal [] ) or None"""
    if a == b:
        return a
    if {a, b} == {"int", "zint"}:
        return "zint"           # the int side is injected with py_zint_of_int (see Fn.coerce)
    for x, y in ((a, b), (b, a)):
        if x == "none" and isinstance(y, tuple) and y[0] == "opt":
            return y
        if x == "none" and y in ("str",):
            return ("opt", y)   # the other side is wrapped in Some (see Fn.coerce)
        if y == ("opt", x) and x == "str":
            return y
    if isinstance(a, tuple) and isinstance(b, tuple) and a[0] == b[0] == "list":
        if a[1] is None:
            return b
        if b[1] is None:
            return a
        u = unify(a[1], b[1])
        return ("list", u) if u is not None else None
    return None


def is_list(t):
    return isinstance(t, tuple) and t[0] == "list"


def mangle(name):
    if name in RESERVED or name == WORLD or name.startswith("self_") or name.startswith("py_"):
        return name + "_"
    return name


def ind(text, n=2):
    pad = " " * n
    return "\n".join(pad + l if l else l for l in text.split("\n"))


def paren(text):
    text = text.strip()
    if "\n" in text or text.startswith(("let ", "if ", "match ", "fun ")):
        return "(" + text + ")"
    return text


def let(pat, rhs, rest):
    if "\n" in rhs:
        return f"let {pat} :=\n{ind(rhs)} in\n{rest}"
    return f"let {pat} := {rhs} in\n{rest}"


def pystr(x):
    """a Python str constant as a Gallina str: printable ASCII runs as s"..." literals, the other
    characters as code points"""
    if x == "" or all(32 <= ord(c) <= 126 for c in x) or all(not 32 <= ord(c) <= 126 for c in x):
        return cstr(x)
    runs = []
    for c in x:
        p = 32 <= ord(c) <= 126
        if runs and runs[-1][0] == p:
            runs[-1][1] += c
        else:
            runs.append([p, c])
    return "(" + " ++ ".join(cstr(r) for _, r in runs) + ")"


def tup_expr(names):
    return names[0] if len(names) == 1 else "(" + ", ".join(names) + ")"


def tup_pat(names):
    return names[0] if len(names) == 1 else "'(" + ", ".join(names) + ")"


# ---------------------------------------------------------------------------------------
# module / class information

class Module:
    def __init__(self, rel, tree):
        self.rel = rel
        self.tree = tree
        self.enums = {}      # name -> [members]
        self.classes = {}    # name -> ClassDef
        self.functions = {}  # qualified name -> (FunctionDef, class name or None)
        self.imports = {}    # name bound by `from .m import name` -> (source file of m, name)
        for n in tree.body:
            if isinstance(n, ast.ImportFrom) and n.level == 1 and n.module and "." not in n.module:
                target = str(Path(rel).parent / (n.module + ".py"))
                for al in n.names:
                    if al.asname is None and al.name != "*":
                        self.imports[al.name] = (target, al.name)
        for n in tree.body:
            if isinstance(n, ast.ClassDef):
                self.classes[n.name] = n
                if any(isinstance(b, ast.Name) and b.id == "Enum" for b in n.bases):
                    members = []
                    for m in n.body:
                        if isinstance(m, ast.Assign) and len(m.targets) == 1 and isinstance(m.targets[0], ast.Name):
                            members.append(m.targets[0].id)
                        elif isinstance(m, ast.Expr) and isinstance(m.value, ast.Constant) \
                                and isinstance(m.value.value, str):
                            pass
                        else:
                            fail(m, f"member of Enum class {n.name}")
                    self.enums[n.name] = members
                for m in n.body:
                    if isinstance(m, ast.FunctionDef):
                        q = f"{n.name}.{m.name}"
                        if q in self.functions:
                            self.functions[q] = (None, n.name)      # ambiguous (property pairs)
                        else:
                            self.functions[q] = (m, n.name)
            elif isinstance(n, ast.FunctionDef):
                self.functions[n.name] = (n, None)

    def annotation(self, a):
        """Python annotation -> type, or None when it is not a type of the subset"""
        if a is None:
            return None
        if isinstance(a, ast.Constant) and isinstance(a.value, str):
            try:
                return self.annotation(ast.parse(a.value, mode="eval").body)
            except SyntaxError:
                return None
        if isinstance(a, ast.Name):
            if a.id in ("str", "int", "bool"):
                return a.id
            if a.id in self.enums:
                return ("enum", a.id)
            if a.id in WRITER_CLASSES:
                return "writer"
            if a.id == "ParserRuleContext":
                return "arg"        # the aggregator only passes argument contexts under this annotation
            if a.id == "DocumentationType":
                return "entry"
            if a.id in SETTINGS_CLASSES:
                return "settings"       # only as the type of a FIELD (a parameter of that type is special)
            if a.id in REF_CLASSES:
                # an object of one of these classes that is held in a field / record / list is an
                # element of self.documented: its position there
                return ("ref", DOCUMENTED)
            if a.id in PART_CLASS_TYPES and (a.id in self.classes or a.id in self.imports):
                return PART_CLASS_TYPES[a.id]      # an object that lives inside a class entry
            if a.id in self.classes and a.id not in self.enums and self.is_dataclass(a.id):
                return self.record_type(a.id)
            return None
        if isinstance(a, ast.Attribute) and isinstance(a.value, ast.Name) and a.value.id == "CMakeParser":
            return {"Command_invocationContext": "cmd", "Single_argumentContext": "arg",
                    "Compound_argumentContext": "arg", "Documented_moduleContext": "modctx",
                    "Documented_commandContext": "doccmd"}.get(a.attr)
        if isinstance(a, ast.Subscript) and isinstance(a.value, ast.Name):
            if a.value.id in ("List", "Tuple", "list", "tuple", "Sequence"):
                inner = self.annotation(a.slice)
                if inner is None or is_list(inner):     # no lists of mutable lists (aliasing)
                    return None
                return ("list", inner)
            if a.value.id == "Optional":
                inner = self.annotation(a.slice)
                return ("opt", inner) if inner is not None else None
            if a.value.id == "Union" and isinstance(a.slice, ast.Tuple) and len(a.slice.elts) == 2:
                x, y = a.slice.elts
                if isinstance(y, ast.Constant) and y.value is None:
                    inner = self.annotation(x)
                    if inner == "entry":
                        return "await"      # a reference to an object held in self.documented, or None
                    return ("opt", inner) if inner is not None else None
                tx, ty = self.annotation(x), self.annotation(y)
                for u, v in ((tx, ty), (ty, tx)):
                    if isinstance(u, tuple) and u[0] == "enum" and v == "str":
                        return ("union", u[1])      # a member of the Enum class or a str
            return None
        return None

    def field_class_names(self, cname):
        """{field: class name} for the fields of cname annotated with a plain class name (class attributes and the
        annotated self.f assignments of __init__)"""
        out = {}
        c = self.classes[cname]
        for m in c.body:
            if isinstance(m, ast.AnnAssign) and isinstance(m.target, ast.Name) and isinstance(m.annotation, ast.Name):
                out[m.target.id] = m.annotation.id
            if isinstance(m, ast.FunctionDef) and m.name == "__init__":
                for st in m.body:
                    if isinstance(st, ast.AnnAssign) and isinstance(st.target, ast.Attribute) \
                            and isinstance(st.target.value, ast.Name) and st.target.value.id == "self" \
                            and isinstance(st.annotation, ast.Name):
                        out.setdefault(st.target.attr, st.annotation.id)
        return out

    def is_dataclass(self, cname):
        c = self.classes[cname]
        return any(isinstance(d, ast.Name) and d.id == "dataclass" for d in c.decorator_list) and not c.bases

    def record_type(self, cname):
        """a plain @dataclass of the module without base classes and methods: the tuple of its fields
        -> ('record', name, ((field, type, default constant as Gallina text or None), ...))"""
        c = self.classes[cname]
        fs = []
        for m in c.body:
            if isinstance(m, ast.Expr) and isinstance(m.value, ast.Constant) and isinstance(m.value.value, str):
                continue
            if not (isinstance(m, ast.AnnAssign) and isinstance(m.target, ast.Name)):
                fail(m, f"member of the dataclass {cname} that is not an annotated field")
            ft = self.annotation(m.annotation)
            if ft is None or ft == "await":
                fail(m, f"field of the dataclass {cname} without a type of the subset")
            dflt = None
            if m.value is not None:
                if isinstance(m.value, ast.Constant) and isinstance(m.value.value, bool) and ft == "bool":
                    dflt = "true" if m.value.value else "false"
                elif isinstance(m.value, ast.Constant) and m.value.value is None and isinstance(ft, tuple) \
                        and ft[0] == "opt":
                    dflt = "None"
                else:
                    fail(m, f"default value of a field of the dataclass {cname}")
            elif fs and fs[-1][2] is not None:
                fail(m, "field without default after a field with default")
            fs.append((m.target.id, ft, dflt))
        if len(fs) != 2:
            fail(c, f"dataclass {cname} with other than two fields (records are pairs: fst / snd)")
        return ("record", cname, tuple(fs))

    def fields(self, cname):
        """ordered {field: type or None} of a class: dataclass-style annotated class attributes
        (base classes of the same module first), then the self.<f> assignments of __init__"""
        out = {}
        c = self.classes[cname]
        for b in c.bases:
            if isinstance(b, ast.Name) and b.id in self.classes:
                for k, v in self.fields(b.id).items():
                    out.setdefault(k, v)
        for m in c.body:
            if isinstance(m, ast.AnnAssign) and isinstance(m.target, ast.Name):
                out[m.target.id] = FIELD_TYPE_OVERRIDES.get((cname, m.target.id)) or self.annotation(m.annotation)
        for m in c.body:
            if isinstance(m, ast.FunctionDef) and m.name == "__init__":
                ptypes = {a.arg: self.annotation(a.annotation) for a in m.args.args}
                if m.args.vararg is not None:
                    inner = self.annotation(m.args.vararg.annotation)
                    ptypes[m.args.vararg.arg] = ("list", inner) if inner is not None else None
                for st in m.body:
                    tgt = None
                    if isinstance(st, ast.AnnAssign):
                        tgt, val, ann = st.target, st.value, self.annotation(st.annotation)
                    elif isinstance(st, ast.Assign) and len(st.targets) == 1:
                        tgt, val, ann = st.targets[0], st.value, None
                    if tgt is None or not (isinstance(tgt, ast.Attribute) and isinstance(tgt.value, ast.Name)
                                           and tgt.value.id == "self"):
                        continue
                    if ann is None and isinstance(val, ast.Name):
                        ann = ptypes.get(val.id)
                    if ann is None and isinstance(val, ast.Constant) and isinstance(val.value, str):
                        ann = "str"
                    if tgt.attr not in out or out[tgt.attr] is None:
                        out[tgt.attr] = ann
        return out


# ---------------------------------------------------------------------------------------
# syntactic helpers

def target_names(stmts, in_loop=False):
    """python-level names (locals, 'self.f', WORLD) that the statements may assign, in order"""
    out = []

    def add(n):
        if n not in out:
            out.append(n)

    def lhs(t):
        if isinstance(t, ast.Name):
            add(t.id)
        elif isinstance(t, ast.Attribute) and isinstance(t.value, ast.Name) and t.value.id == "self":
            add("self." + t.attr)
        elif isinstance(t, ast.Attribute) and t.attr in OBJECT_ATTRS \
                and not (isinstance(t.value, ast.Name) and t.value.id == "self"):
            add(DOCUMENTED)     # R.has_kwargs = v / R.members.append(v): the object R denotes is in self.documented
        elif isinstance(t, ast.Attribute) and isinstance(t.value, ast.Attribute) \
                and isinstance(t.value.value, ast.Name) and t.value.value.id == "self" \
                and t.attr == "title" and t.value.attr in WORLD_TITLE_FIELDS:
            add(WORLD)      # self.writer.title = E in a function that threads the document: a writer step
        elif isinstance(t, ast.Attribute) and isinstance(t.value, ast.Attribute) \
                and isinstance(t.value.value, ast.Name) and t.value.value.id == "self":
            add(f"self.{t.value.attr}.{t.attr}")        # self.writer.title
        elif isinstance(t, ast.Attribute) and isinstance(t.value, ast.Name):
            add("@ref:" + t.value.id)                   # r.name = v through a reference r into a list
        elif isinstance(t, ast.Subscript):
            lhs(t.value)
        else:
            fail(t, "assignment target")

    def calls(e):
        for c in ast.walk(e):
            if isinstance(c, ast.Call) and isinstance(c.func, ast.Attribute):
                if c.func.attr in ("extend", "pop"):
                    lhs(c.func.value)
                if c.func.attr == "append" and isinstance(c.func.value, ast.Attribute) \
                        and isinstance(c.func.value.value, ast.Name) and c.func.value.value.id == "self" \
                        and c.func.value.attr in IDENTITY_FIELDS:
                    continue
                if c.func.attr in ("append", "insert"):
                    lhs(c.func.value)
                    if c.func.attr == "append" and isinstance(c.func.value, ast.Attribute) \
                            and REF_LIST_ATTRS.get(c.func.value.attr, (0, 0, None))[2] is not None \
                            and len(c.args) == 1 and isinstance(c.args[0], ast.Name):
                        add("$loc of " + c.args[0].id)      # where the appended local object is stored
                    if c.func.attr == "insert" and isinstance(c.func.value, ast.Name):
                        add("@shift:" + c.func.value.id)    # the references into that list move
                elif c.func.attr in WRITER_METHODS:
                    add(WORLD)
                elif c.func.attr in OBJ_METHOD_NAMES and isinstance(c.func.value, ast.Name) \
                        and c.func.value.id != "self":
                    add(WORLD)      # v.process(w): a translated method of a documentation object writes to w
                elif isinstance(c.func.value, ast.Name) and c.func.value.id == "self" and c.func.attr in METHODS:
                    for f_, _ in METHODS[c.func.attr]["out"]:
                        add("self." + f_)
                elif isinstance(c.func.value, ast.Name) and c.func.value.id == "self" \
                        and c.func.attr in WORLD_METHODS:
                    # a method of the same class that threads the document: the document, the fields it assigns and
                    # the list arguments it mutates in place change
                    info_ = WORLD_METHODS[c.func.attr]
                    add(WORLD)
                    for f_, _ in info_["out"]:
                        add("self." + f_)
                    for i_, (pn_, _, _) in enumerate(info_["params"]):
                        if pn_ in info_["out_params"] and i_ < len(c.args):
                            lhs(c.args[i_])
            prefix = getattr_dispatch_prefix(c) if isinstance(c, ast.Call) else None
            if prefix is not None:
                # getattr(self, f"<prefix>{..}")(..): any translated method with that prefix may run
                for m_, info in METHODS.items():
                    if m_.startswith(prefix):
                        for f_, _ in info["out"]:
                            add("self." + f_)

    def go(ss):
        for st in ss:
            if isinstance(st, ast.Assign):
                calls(st.value)
                for t in st.targets:
                    lhs(t)
            elif isinstance(st, ast.AnnAssign) and st.value is not None:
                calls(st.value)
                lhs(st.target)
            elif isinstance(st, ast.AugAssign):
                lhs(st.target)
            elif isinstance(st, ast.Expr):
                calls(st.value)
            elif isinstance(st, ast.If):
                go(st.body)
                go(st.orelse)
            elif isinstance(st, ast.For):
                go(st.body)
                go(st.orelse)
            elif isinstance(st, ast.Try):
                go(st.body)
                for h in st.handlers:
                    go(h.body)
    go(stmts)
    return out


def escapes(stmts):
    """does the statement list contain return / raise anywhere, or a break/continue that belongs
    to an enclosing loop"""
    for st in stmts:
        if isinstance(st, (ast.Return, ast.Raise, ast.Break, ast.Continue)):
            return True
        if may_raise(st):
            return True
        if isinstance(st, ast.If) and (escapes(st.body) or escapes(st.orelse)):
            return True
        if isinstance(st, ast.Try) and (escapes(st.body) or any(escapes(h.body) for h in st.handlers)):
            return True
        if isinstance(st, ast.For):
            if any(isinstance(n, (ast.Return, ast.Raise)) for s2 in st.body for n in ast.walk(s2)):
                return True
    return False


def is_settings_dict_lookup(e):
    """self.<f>.<group>.__dict__[KEY]"""
    return (isinstance(e, ast.Subscript) and isinstance(e.value, ast.Attribute) and e.value.attr == "__dict__"
            and isinstance(e.value.value, ast.Attribute) and isinstance(e.value.value.value, ast.Attribute)
            and isinstance(e.value.value.value.value, ast.Name) and e.value.value.value.value.id == "self")


def is_accessor_chain(e):
    """x.a.b / x.command_invocation().start.line : attribute reads and the argument-less accessors of parser contexts"""
    while True:
        if isinstance(e, ast.Attribute):
            e = e.value
        elif isinstance(e, ast.Call) and not e.args and not e.keywords and isinstance(e.func, ast.Attribute) \
                and e.func.attr in ("command_invocation", "bracket_doccomment", "Identifier"):
            e = e.func.value
        else:
            return isinstance(e, ast.Name)


def getattr_dispatch_prefix(c):
    """c = getattr(self, f"<constant prefix>{..}")(..)  ->  the constant prefix, else None"""
    if isinstance(c, ast.Call) and isinstance(c.func, ast.Call) and isinstance(c.func.func, ast.Name) \
            and c.func.func.id == "getattr" and len(c.func.args) == 2 and not c.func.keywords \
            and isinstance(c.func.args[0], ast.Name) and c.func.args[0].id == "self" \
            and isinstance(c.func.args[1], ast.JoinedStr) and c.func.args[1].values \
            and isinstance(c.func.args[1].values[0], ast.Constant) and isinstance(c.func.args[1].values[0].value, str) \
            and c.func.args[1].values[0].value:
        return c.func.args[1].values[0].value
    return None


def may_raise(st):
    """statements of the subset that can raise an exception other than by a raise statement: xs.pop() on an
    empty list, a call of a translated method that can raise, the reflective dispatch getattr(self, ..)(..),
    an if whose test is a settings __dict__ lookup"""
    if isinstance(st, ast.Expr) and isinstance(st.value, ast.Call):
        c = st.value
        if isinstance(c.func, ast.Attribute) and c.func.attr == "pop" and not c.args and not c.keywords:
            return True
        if isinstance(c.func, ast.Attribute) and isinstance(c.func.value, ast.Name) and c.func.value.id == "self" \
                and c.func.attr in METHODS and METHODS[c.func.attr]["has_raise"]:
            return True
        if getattr_dispatch_prefix(c) is not None:
            return True
    if isinstance(st, ast.If) and is_settings_dict_lookup(st.test):
        return True
    return False


def terminates(stmts):
    """does control never reach the end of the statement list"""
    if not stmts:
        return False
    last = stmts[-1]
    if isinstance(last, (ast.Return, ast.Raise, ast.Break)):
        return True
    return isinstance(last, ast.If) and terminates(last.body) and terminates(last.orelse)


def has_break(stmts):
    for st in stmts:
        if isinstance(st, ast.Break):
            return True
        if isinstance(st, ast.If) and (has_break(st.body) or has_break(st.orelse)):
            return True
    return False


def is_docstring(st):
    return isinstance(st, ast.Expr) and isinstance(st.value, ast.Constant) and isinstance(st.value.value, str)


def is_minus_one(e):
    return isinstance(e, ast.UnaryOp) and isinstance(e.op, ast.USub) and isinstance(e.operand, ast.Constant) \
        and e.operand.value == 1 and not isinstance(e.operand.value, bool)


# Documentation classes of documentation_types.py as constructors of Model.DocTypes.entry.
# class name -> (Gallina head, [slots]); a slot is ("str"|"opt"|"liststr"|"bool", position of the
# Python argument) or ("vartype", position) or ("const", position, required Python constant)
ENTRY_CONSTRUCTORS = {
    "GenericCommandDocumentation": ("DocTypes.EGeneric", 3, [("str", 0), ("str", 1), ("liststr", 2)]),
    "CTestDocumentation": ("DocTypes.ECTest", 3, [("str", 0), ("str", 1), ("liststr", 2)]),
    "VariableDocumentation": ("DocTypes.EVariable", 4, [("str", 0), ("str", 1), ("vartype", 2), ("opt", 3)]),
    "OptionDocumentation": ("DocTypes.EOption", 5, [("str", 0), ("str", 1), ("const", 2, "bool"), ("opt", 3),
                                                    ("str", 4)]),
    # params and is_macro keep their dataclass defaults ([] and False)
    "ModuleDocumentation": ("DocTypes.EModule", 2, [("str", 0), ("str", 1)]),
    "TestDocumentation": ("DocTypes.ETest false", 3, [("str", 0), ("str", 1), ("bool", 2), ("lit", "[]"),
                                                      ("lit", "false")]),
    "SectionDocumentation": ("DocTypes.ETest true", 3, [("str", 0), ("str", 1), ("bool", 2), ("lit", "[]"),
                                                        ("lit", "false")]),
}
ENTRY_RECOGNIZERS = {"ModuleDocumentation": "py_is_module_entry"}
# ---- batch 4: the declared representation tables of the stateful aggregator methods ----
# More constructors of Model.DocTypes.entry (kept apart from the table above so that what the earlier
# batches accept does not change).  Slot kind "empty": the Python argument must be the literal [].
ENTRY_CONSTRUCTORS_4 = {
    "FunctionDocumentation": ("DocTypes.EFunction false", 4, [("str", 0), ("str", 1), ("liststr", 2), ("bool", 3)]),
    "MacroDocumentation": ("DocTypes.EFunction true", 4, [("str", 0), ("str", 1), ("liststr", 2), ("bool", 3)]),
    "ClassDocumentation": ("DocTypes.EClass", 7, [("str", 0), ("str", 1), ("liststr", 2), ("empty", 3), ("empty", 4),
                                                  ("empty", 5), ("empty", 6)]),
}
# Objects that live INSIDE a class entry (values of Model.DocTypes.method / attribute; is_macro keeps its
# dataclass default False; the ghost fields m_docd / a_docd of the model do not exist in Python: false)
PART_CONSTRUCTORS = {
    "MethodDocumentation": ("py_new_method", 6, [("str", 0), ("str", 1), ("str", 2), ("liststr", 3), ("liststr", 4),
                                                 ("bool", 5)], "method"),
    "AttributeDocumentation": ("py_new_attribute", 4, [("str", 0), ("str", 1), ("str", 2), ("opt", 3)], "attribute"),
}
# Classes whose instances, when held in a field / a dataclass record / a list, are elements of
# self.documented and are represented by their POSITION there; the value is the isinstance test
REF_CLASSES = {"AbstractCommandDefinitionDocumentation": "py_is_command_definition_entry",
               "ClassDocumentation": "py_is_class_entry"}
# R.<attr>.append(E) for a reference R:  attr -> (entry update, type of E, how a later reference to E is
# written as an Aggregator.await, given the Gallina text of R)
REF_LIST_ATTRS = {
    "inner_classes": ("py_entry_add_inner_class", "entry", None),
    "constructors": ("py_entry_add_constructor", "method", "Aggregator.AwMethod {r} true"),
    "members": ("py_entry_add_member", "method", "Aggregator.AwMethod {r} false"),
    "attributes": ("py_entry_add_attribute", "attribute", None),
}
# R.<attr> = E for a reference R:  attr -> (entry update, type of E)
REF_SET_ATTRS = {"has_kwargs": ("py_entry_set_has_kwargs", "bool")}
# The awaiting slot (a field of type Aggregator.await): the classes whose objects may be stored there from
# self.documented (AwTop), and what the slot's object answers to isinstance
AWAIT_TOP_CLASSES = {"TestDocumentation", "SectionDocumentation"}
AWAIT_RECOGNIZERS = {"MethodDocumentation": "py_await_is_method"}
# A.<attr> = E  /  A.<attr>.extend(E)  through the awaiting slot A: (update of an entry, update of a method, type of E)
AWAIT_SET_ATTRS = {"is_macro": ("py_entry_set_is_macro", "py_method_set_is_macro", "bool")}
AWAIT_EXTEND_ATTRS = {"params": ("py_entry_extend_params", "py_method_extend_params", ("list", "str"))}
# a field that holds parser contexts only for object-identity membership tests: appends to it are not part of
# the translated state (see `ctx in self.consumed`)
IDENTITY_FIELDS = {"consumed"}
OBJECT_ATTRS = set(REF_LIST_ATTRS) | set(REF_SET_ATTRS) | set(AWAIT_SET_ATTRS) | set(AWAIT_EXTEND_ATTRS)
# names that dir(self) has from the ANTLR runtime base class ParseTreeListener (not part of the repository)
RUNTIME_LISTENER_NAMES = ["visitTerminal", "visitErrorNode", "enterEveryRule", "exitEveryRule"]
LISTENER_FILE = "src/cminx/parser/CMakeListener.py"
VARTYPES = {"STRING": "DocTypes.VString", "LIST": "DocTypes.VList", "UNSET": "DocTypes.VUnset"}
DOCUMENTED = "self.documented"      # THE list of documentation objects (index space of `await`)
LOG_METHODS = {"debug", "info", "warning", "error", "critical", "exception"}

WRITER_METHODS = {"directive", "text", "field", "option", "bulleted_list", "enumerated_list", "doctest"}

# ---- batch 5: the declared representation tables of the rendering loop ----
# Objects that live INSIDE a class entry, as values of Model.DocTypes.method / attribute:
# translator type -> (Python class, {dataclass field: (projection, type of the field as the translator sees it)}).
# The set of fields must be exactly the dataclass fields the source declares for the class (checked).
PART_ACCESSORS = {
    "method": ("MethodDocumentation", {
        "name": ("DocTypes.m_name", "str"), "doc": ("DocTypes.m_doc", "str"),
        "parent_class": ("DocTypes.m_parent", "str"), "param_types": ("DocTypes.m_types", ("list", "str")),
        "params": ("DocTypes.m_params", ("list", "str")), "is_constructor": ("DocTypes.m_ctor", "bool"),
        "is_macro": ("DocTypes.m_macro", "bool")}),
    "attribute": ("AttributeDocumentation", {
        "name": ("DocTypes.a_name", "str"), "doc": ("DocTypes.a_doc", "str"),
        "parent_class": ("DocTypes.a_parent", "str"), "default_value": ("DocTypes.a_default", ("opt", "str"))}),
}
PART_CLASS_TYPES = {v[0]: k for k, v in PART_ACCESSORS.items()}
# A field whose representation differs from what its annotation alone says.  DocTypes.EClass keeps the NAMES of
# the inner classes (see py_entry_add_inner_class): an element is of type 'innerclass' (a str), and the only
# thing that can be read of it is .name
FIELD_TYPE_OVERRIDES = {("ClassDocumentation", "inner_classes"): ("list", "innerclass")}
# The dynamic dispatch  x.process(w)  for x annotated DocumentationType: root class, method, source file
DISPATCH_ROOT = ("DocumentationType", "process", "src/cminx/documentation_types.py")
# Concrete subclasses of the root that are NOT constructors of Model.DocTypes.entry, and why a list of
# documentation objects never holds one: "part" = the translator types them as DocTypes.method / attribute, which
# no list of entries accepts; "never constructed" = checked: no call of the class in PRODUCER_FILES
NON_ENTRY_CLASSES = {"MethodDocumentation": "part", "AttributeDocumentation": "part",
                     "DanglingDoccomment": "never constructed"}
PRODUCER_FILES = ["src/cminx/aggregator.py", "src/cminx/documenter.py", "src/cminx/__init__.py"]


class Var:
    __slots__ = ("coq", "type", "group", "index", "child")

    def __init__(self, coq, type_, group=None, index=None, child=False):
        self.coq = coq
        self.type = type_
        self.group = group      # frozenset of python names aliasing one mutable list, or None
        self.index = index      # Gallina name of the position at which this entry was appended to DOCUMENTED
        self.child = child      # ranges over the argument children of the function's parameter


# ---------------------------------------------------------------------------------------
# one function

class Fn:
    def __init__(self, mod, qual, fn, cname, opts=None):
        self.mod = mod
        self.qual = qual
        self.fn = fn
        self.cname = cname
        self.opts = dict(opts or {})
        self.stmts = self.body_slice()
        scan = ast.Module(body=self.stmts, type_ignores=[])
        self.fields = dict(mod.fields(cname)) if cname else {}
        # batch 5: a field that holds an RSTWriter and is USED as a writer (not only as the base of .title) makes
        # the function thread the document; the title of that writer then lives in the document
        parents = {}
        for n in ast.walk(scan):
            for ch in ast.iter_child_nodes(n):
                parents[ch] = n
        self.world_fields = set()
        for n in ast.walk(scan):
            if isinstance(n, ast.Attribute) and isinstance(n.value, ast.Name) and n.value.id == "self" \
                    and self.fields.get(n.attr) == "writer" and isinstance(n.ctx, ast.Load):
                par = parents.get(n)
                if not (isinstance(par, ast.Attribute) and par.attr == "title"):
                    self.world_fields.add(n.attr)
            if isinstance(n, ast.Call) and isinstance(n.func, ast.Attribute) and isinstance(n.func.value, ast.Name) \
                    and n.func.value.id == "self" and n.func.attr in WORLD_METHODS \
                    and WORLD_METHODS[n.func.attr]["cname"] == cname:
                self.world_fields.update(WORLD_METHODS[n.func.attr]["world_fields"])
        # the fields of an object held in a field, when its class comes from a module translated before:
        # self.<f>.<g> is a variable of the translated function, like self.writer.title
        if cname:
            for f_, cls_ in mod.field_class_names(cname).items():
                src_ = mod.imports.get(cls_)
                if src_ and src_[0] in MODULES and cls_ in MODULES[src_[0]].classes and f_ in self.fields:
                    for g_, t_ in MODULES[src_[0]].fields(cls_).items():
                        if t_ is not None and f"{f_}.{g_}" not in self.fields:
                            self.fields[f"{f_}.{g_}"] = t_
        WORLD_TITLE_FIELDS.clear()
        WORLD_TITLE_FIELDS.update(self.world_fields)
        for f_, t_ in list(self.fields.items()):
            if t_ == "writer" and f_ not in self.world_fields:
                self.fields[f_ + ".title"] = "str"     # the title of the RSTWriter held in that field
        # batch 5: the static class of a loop variable that ranges over a list field / list parameter
        self.loop_var_types = {}
        ptypes_ = {a_.arg: mod.annotation(a_.annotation) for a_ in fn.args.args}
        for n in ast.walk(scan):
            if isinstance(n, ast.For) and isinstance(n.target, ast.Name):
                it, t_ = n.iter, None
                if isinstance(it, ast.Attribute) and isinstance(it.value, ast.Name) and it.value.id == "self":
                    t_ = self.fields.get(it.attr)
                elif isinstance(it, ast.Name):
                    t_ = ptypes_.get(it.id)
                et = t_[1] if is_list(t_) else None
                if n.target.id in self.loop_var_types and self.loop_var_types[n.target.id] != et:
                    et = None
                self.loop_var_types[n.target.id] = et
        self.field_params = []          # fields read before written (become parameters)
        self.ever_written = []          # fields assigned anywhere so far (python attr names)
        self.loops = []                 # stack of (state coq names, break_allowed)
        self.depth = 0                  # nesting depth in if/for
        self.uses_world = False
        self.creates_world = False      # the function constructs the top-level writer itself (no document argument)
        self.result_type = None
        self.notes = []
        self.field_types = {}
        self.coq_names = {}             # Gallina binder -> the python variable it stands for
        self.out_fields = [n[5:] for n in target_names(self.stmts) if n.startswith("self.")]
        self.local_classes = {}     # local name -> the documentation class it is constructed with (None: several)
        for n in ast.walk(scan):
            if isinstance(n, ast.Assign) and len(n.targets) == 1 and isinstance(n.targets[0], ast.Name):
                cls = n.value.func.id if isinstance(n.value, ast.Call) and isinstance(n.value.func, ast.Name) else None
                nm = n.targets[0].id
                self.local_classes[nm] = cls if self.local_classes.get(nm, cls) == cls else None
        self.load_counts = {}
        for n in ast.walk(scan):
            if isinstance(n, ast.Name) and isinstance(n.ctx, ast.Load):
                self.load_counts[n.id] = self.load_counts.get(n.id, 0) + 1
        self.inplace_mutated = set()
        for n in ast.walk(scan):
            if isinstance(n, ast.Call) and isinstance(n.func, ast.Attribute) and n.func.attr in ("append", "insert"):
                r = n.func.value
                self.inplace_mutated.add(r.id if isinstance(r, ast.Name) else
                                         "self." + r.attr if isinstance(r, ast.Attribute) else "?")
            if isinstance(n, ast.Assign):
                for tg in n.targets:
                    if isinstance(tg, ast.Subscript):
                        r = tg.value
                        self.inplace_mutated.add(r.id if isinstance(r, ast.Name) else
                                                 "self." + r.attr if isinstance(r, ast.Attribute) else "?")
        self.settings_params = {}       # parameter name -> Settings class name
        self.opaque_params = set()      # unannotated parameters that only occur inside abstracted library calls
        self.abstract_params = {}       # Gallina argument -> (type, the Python expression it stands for)
        self.out_params = []            # explicit list parameters that the function mutates in place
        self.explicit_keys = set()
        self.rec_param = None           # the parameter of a function over argument contexts (recursion allowed)
        self.recursive = False
        self.declared_result = None
        self.result_fields = None
        self.mutated_params = []        # list fields that got an alias (may be mutated through it)
        # fields / parameters that the function compares with None are Optional, whatever the annotation says
        self.optional = []
        for n in ast.walk(scan):
            if isinstance(n, ast.Compare) and len(n.ops) == 1 and isinstance(n.ops[0], (ast.Is, ast.IsNot)) \
                    and isinstance(n.comparators[0], ast.Constant) and n.comparators[0].value is None:
                x = n.left
                if isinstance(x, ast.Attribute) and isinstance(x.value, ast.Name) and x.value.id == "self":
                    if x.attr not in self.optional:
                        self.optional.append(x.attr)
        self.has_raise = any(isinstance(n, ast.Raise) for n in ast.walk(scan)) or any(
            isinstance(n, ast.Call) and isinstance(n.func, ast.Attribute) and isinstance(n.func.value, ast.Name)
            and n.func.value.id == "self" and n.func.attr in METHODS and METHODS[n.func.attr]["has_raise"]
            and METHODS[n.func.attr]["cname"] == cname for n in ast.walk(scan)) or any(
            isinstance(n, ast.stmt) and may_raise(n) for n in ast.walk(scan)) or any(
            self.obj_call_may_raise(n) for n in ast.walk(scan)) or any(
            isinstance(n, ast.Call) and isinstance(n.func, ast.Attribute) and isinstance(n.func.value, ast.Name)
            and n.func.value.id == "self" and n.func.attr in WORLD_METHODS
            and WORLD_METHODS[n.func.attr]["cname"] == cname and WORLD_METHODS[n.func.attr]["has_raise"]
            for n in ast.walk(scan))
        self.has_return = any(isinstance(n, ast.Return) and n.value is not None for n in ast.walk(scan))
        for n in ast.walk(scan):
            if isinstance(n, (ast.Lambda, ast.FunctionDef, ast.AsyncFunctionDef, ast.ClassDef)) and n is not fn:
                fail(n, "nested definition")
            if isinstance(n, (ast.Global, ast.Nonlocal, ast.With, ast.While, ast.Yield, ast.YieldFrom,
                              ast.Await, ast.Delete, ast.Assert, ast.Import, ast.ImportFrom, ast.NamedExpr)):
                fail(n, "statement/expression outside the subset")

    def obj_call_may_raise(self, n):
        """n = v.m(..) for a loop variable v over documentation objects and a translated object method m: can it raise"""
        if not (isinstance(n, ast.Call) and isinstance(n.func, ast.Attribute) and n.func.attr in OBJ_METHOD_NAMES
                and isinstance(n.func.value, ast.Name) and n.func.value.id != "self"):
            return False
        rt = self.loop_var_types.get(n.func.value.id)
        if rt == "entry":
            return True     # the dynamic dispatch: some class's method may raise
        if rt in PART_ACCESSORS:
            info = OBJ_METHODS.get(resolve_method(self.mod, PART_ACCESSORS[rt][0], n.func.attr))
            return bool(info and info["has_raise"])
        return False

    def body_slice(self):
        """the statements to translate: the whole body, or the part selected by the target's options"""
        body = list(self.fn.body)
        o = self.opts
        if "drop_last" in o:
            # everything but the final statement, which must be exactly the given one
            if not body or ast.unparse(body[-1]) != o["drop_last"]:
                fail(self.fn, f"{self.qual} does not end with the statement `{o['drop_last']}`")
            return body[:-1]
        if "after_stmt" in o:
            # everything after the one top-level statement that reads exactly like the given one
            hits = [i for i, s_ in enumerate(body) if ast.unparse(s_) == o["after_stmt"]]
            if len(hits) != 1 or hits[0] == len(body) - 1:
                fail(self.fn, f"{self.qual} has not exactly one top-level statement `{o['after_stmt']}` with "
                              f"statements after it")
            return body[hits[0] + 1:]
        if "to_field" in o:
            # from the first assignment of a local to the last assignment of self.<field>; the results are the
            # fields assigned in between, which nothing later in the function may assign again
            def stores_field(s_, names):
                return any(isinstance(n, ast.Attribute) and isinstance(n.ctx, ast.Store) and isinstance(n.value, ast.Name)
                           and n.value.id == "self" and n.attr in names for n in ast.walk(s_))
            starts = [i for i, s_ in enumerate(body) if isinstance(s_, ast.Assign) and len(s_.targets) == 1
                      and isinstance(s_.targets[0], ast.Name) and s_.targets[0].id == o["from_assign"]]
            ends = [i for i, s_ in enumerate(body) if stores_field(s_, {o["to_field"]})]
            if not starts or not ends or ends[-1] < starts[0]:
                fail(self.fn, f"{self.qual}: no part from the first assignment of {o['from_assign']} to the last "
                              f"assignment of self.{o['to_field']}")
            part = body[starts[0]:ends[-1] + 1]
            assigned = {n.attr for s_ in part for n in ast.walk(s_)
                        if isinstance(n, ast.Attribute) and isinstance(n.ctx, ast.Store)
                        and isinstance(n.value, ast.Name) and n.value.id == "self"}
            for s_ in body[ends[-1] + 1:]:
                if stores_field(s_, assigned):
                    fail(s_, f"a field of {sorted(assigned)} is assigned again after the translated part")
            return part
        if "from_assign" in o:
            starts = [i for i, s_ in enumerate(body) if isinstance(s_, ast.Assign) and len(s_.targets) == 1
                      and isinstance(s_.targets[0], ast.Name) and s_.targets[0].id == o["from_assign"]]
            ends = [i for i, s_ in enumerate(body)
                    if any(isinstance(n, ast.Name) and isinstance(n.ctx, ast.Store) and n.id == o["to_assign"]
                           for n in ast.walk(s_))]
            if not starts or not ends or ends[-1] < starts[0]:
                fail(self.fn, f"{self.qual}: no part from the first assignment of {o['from_assign']} to the last "
                              f"assignment of {o['to_assign']}")
            rest = body[ends[-1] + 1:]
            for s_ in rest:
                for n in ast.walk(s_):
                    if isinstance(n, ast.Name) and isinstance(n.ctx, ast.Store) and n.id in o["result"]:
                        fail(n, f"{n.id} is assigned again after the translated part")
            if not any(isinstance(n, ast.Call) and ast.unparse(n) == o["then_call"]
                       for s_ in rest for n in ast.walk(s_)):
                fail(self.fn, f"{self.qual}: the results are not passed on by `{o['then_call']}`")
            return body[starts[0]:ends[-1] + 1]
        return body

    # ---- variables ------------------------------------------------------------------
    @staticmethod
    def field_key(node):
        """self.f -> 'self.f' ; self.f.g -> 'self.f.g' ; anything else -> None"""
        if isinstance(node, ast.Attribute) and isinstance(node.value, ast.Name) and node.value.id == "self":
            return "self." + node.attr
        if isinstance(node, ast.Attribute) and isinstance(node.value, ast.Attribute) \
                and isinstance(node.value.value, ast.Name) and node.value.value.id == "self":
            return f"self.{node.value.attr}.{node.attr}"
        return None

    def read_field(self, node, env, key=None):
        key = key or self.field_key(node)
        attr = key[5:]
        if key in env:
            return env[key]
        if attr not in self.fields:
            fail(node, f"self.{attr} is not a field declared in the class")
        t = self.fields[attr]
        if t is None:
            fail(node, f"no usable type annotation for field self.{attr}")
        if attr in self.optional and t != "await" and not (isinstance(t, tuple) and t[0] == "opt"):
            note = (f"self.{attr} is compared with None in this function: it is translated as "
                    f"Optional[{coq_type(t)}] although its annotation does not say so")
            if note not in self.notes:
                self.notes.append(note)
            t = ("opt", t)
        if attr not in self.field_params:
            self.field_params.append(attr)
        self.field_types[attr] = t
        coq = "self_" + attr.replace(".", "_")
        if self.coq_names.setdefault(coq, key) != key:
            fail(node, f"name clash on {coq}")
        return Var(coq, t, frozenset([key]) if is_list(t) else None)

    def lookup(self, node, env):
        """Name or self.attr -> (python key, Var)"""
        if isinstance(node, ast.Name):
            if node.id not in env:
                fail(node, f"variable {node.id} is not (definitely) defined here")
            return node.id, env[node.id]
        key = self.field_key(node)
        if key is not None and self.cname and (key.count(".") == 1 or key[5:] in self.fields):
            return key, self.read_field(node, env, key)
        fail(node, "not a variable")

    def bind(self, env, key, type_, group=None):
        """env with python-level variable key (re)bound; returns (env', coq name)"""
        env = dict(env)
        old = env.get(key)
        if old is not None and old.group is not None and len(old.group) > 1:
            # key leaves its alias group
            g = old.group - {key}
            for k in g:
                if k in env:
                    env[k] = Var(env[k].coq, env[k].type, g)
        if key.startswith("self."):
            coq = "self_" + key[5:].replace(".", "_")
            if key[5:] not in self.ever_written:
                self.ever_written.append(key[5:])
        elif key == WORLD:
            coq = WORLD
        elif key.startswith("$index of "):
            coq = mangle(key[10:]) + "_index"
        elif key.startswith("$loc of "):
            coq = mangle(key[8:]) + "_loc"
        else:
            coq = mangle(key)
            while coq in GLOBAL_NAMES:      # never capture a generated global
                coq += "_"
        owner = self.coq_names.setdefault(coq, key)
        if owner != key:
            raise Unsupported(f"{Ctx.file}: the Python variables {owner} and {key} of {self.qual} "
                              f"would both be called {coq}")
        if group is None and is_list(type_):
            group = frozenset([key])
        env[key] = Var(coq, type_, group)
        if group is not None:
            for k in group:
                if k != key and k in env:
                    env[k] = Var(env[k].coq, env[k].type, group)
        return env, coq

    # ---- expressions ----------------------------------------------------------------
    def expr(self, e, env):
        """-> (Gallina text, type)"""
        if isinstance(e, ast.Constant):
            if isinstance(e.value, str):
                return pystr(e.value), "str"
            if isinstance(e.value, bool):
                return ("true" if e.value else "false"), "bool"
            if isinstance(e.value, int) and e.value >= 0:
                return str(e.value), "int"
            if e.value is None:
                return "None", "none"
            fail(e, "constant")
        if isinstance(e, ast.UnaryOp) and isinstance(e.op, ast.USub) and isinstance(e.operand, ast.Constant) \
                and isinstance(e.operand.value, int) and not isinstance(e.operand.value, bool):
            return f"(-{e.operand.value})%Z", "zint"
        if isinstance(e, ast.Name) or (isinstance(e, ast.Attribute) and isinstance(e.value, ast.Name)
                                       and e.value.id == "self") \
                or (self.field_key(e) is not None and self.field_key(e)[5:] in self.fields):
            _, v = self.lookup(e, env)
            return v.coq, v.type
        if isinstance(e, ast.Attribute) and isinstance(e.value, ast.Name) and e.value.id in env \
                and isinstance(env[e.value.id].type, tuple) and env[e.value.id].type[0] == "ref":
            r = env[e.value.id]
            if e.attr != "name":
                fail(e, "attribute of a referenced documentation object other than .name")
            lst = self.lookup(ast.copy_location(ast.Name(id=r.type[1], ctx=ast.Load()), e), env)[1]
            return f"py_entry_name (py_deref {lst.coq} {r.coq})", "str"
        if isinstance(e, ast.Attribute) and isinstance(e.value, ast.Name) and e.value.id in env \
                and env[e.value.id].type == "innerclass":
            # an inner class held in a class entry: Model.DocTypes.EClass keeps its name, nothing else
            if e.attr != "name":
                fail(e, "attribute of an inner class other than .name (Model.DocTypes.EClass keeps only the names "
                        "of the inner classes)")
            return f"py_inner_class_name {env[e.value.id].coq}", "str"
        if isinstance(e, ast.Attribute) and isinstance(e.value, ast.Name) and e.value.id in env \
                and env[e.value.id].type in PART_ACCESSORS:
            # a field of a method / attribute object held in a class entry: the record projection
            cls, acc = PART_ACCESSORS[env[e.value.id].type]
            self.check_part_table(e, env[e.value.id].type)
            if e.attr not in acc:
                fail(e, f"{cls} has no field {e.attr}")
            return f"({acc[e.attr][0]} {env[e.value.id].coq})", acc[e.attr][1]
        sf = self.settings_field(e, env)
        if sf is not None:
            # self.<settings field>.<group>.<option>: looked up BY NAME in the one settings argument
            return f"py_setting_{sf[2]} {sf[0]} {paren_arg(pystr(sf[1]))}", sf[2]
        if isinstance(e, ast.Attribute) and isinstance(e.value, ast.Name) and e.value.id in env \
                and isinstance(env[e.value.id].type, tuple) and env[e.value.id].type[0] == "record":
            # a field of a dataclass record (a pair)
            rv = env[e.value.id]
            for i, (fname, ft, _) in enumerate(rv.type[2]):
                if fname == e.attr:
                    return f"({('fst', 'snd')[i]} {rv.coq})", ft
            fail(e, f"the dataclass {rv.type[1]} has no field {e.attr}")
        if isinstance(e, ast.Attribute) and isinstance(e.value, ast.Attribute) \
                and isinstance(e.value.value, ast.Name) and e.value.value.id in self.settings_params:
            # settings.<group>.<option>: an argument of the translated function
            return self.settings_option(e, env)
        if isinstance(e, ast.Attribute) and isinstance(e.value, ast.Name) and e.value.id in self.mod.enums:
            if e.attr not in self.mod.enums[e.value.id]:
                fail(e, "unknown enum member")
            return f"{e.value.id}_{e.attr}", ("enum", e.value.id)
        if isinstance(e, ast.JoinedStr):
            parts = []
            for v in e.values:
                if isinstance(v, ast.Constant) and isinstance(v.value, str):
                    if v.value != "":
                        parts.append(pystr(v.value))
                elif isinstance(v, ast.FormattedValue) and v.conversion == -1 and v.format_spec is None:
                    parts.append(self.as_str(v.value, env, "formatted value of an f-string"))
                else:
                    fail(v, "f-string part with conversion or format spec")
            if not parts:
                return "([] : str)", "str"
            if len(parts) == 1:
                return parts[0], "str"
            return "(" + " ++ ".join(parts) + ")", "str"
        if isinstance(e, ast.BinOp) and isinstance(e.op, ast.Add):
            a, ta = self.expr(e.left, env)
            b, tb = self.expr(e.right, env)
            if ta == tb == "str":
                return f"({a} ++ {b})", "str"
            if ta == tb == "int":
                return f"({a} + {b})", "int"
            if {ta, tb} <= {"int", "zint"}:
                return f"py_zint_add {paren_arg(self.coerce(a, ta, 'zint'))} " \
                       f"{paren_arg(self.coerce(b, tb, 'zint'))}", "zint"
            if is_list(ta) and is_list(tb) and unify(ta, tb) is not None:
                return f"({a} ++ {b})", unify(ta, tb)
            fail(e, f"+ on {ta} and {tb}")
        if isinstance(e, ast.BinOp) and isinstance(e.op, ast.Sub):
            a, ta = self.expr(e.left, env)
            b, tb = self.expr(e.right, env)
            if {ta, tb} <= {"int", "zint"}:
                # a difference can be negative: an integer
                return f"py_zint_sub {paren_arg(self.coerce(a, ta, 'zint'))} " \
                       f"{paren_arg(self.coerce(b, tb, 'zint'))}", "zint"
            fail(e, f"- on {ta} and {tb}")
        if isinstance(e, ast.IfExp) and self.none_test(e.test, env) is not None:
            key, v, is_not = self.none_test(e.test, env)
            env_some = dict(env)
            env_some[key] = Var(v.coq, v.type[1], v.group)
            e_some, e_none = (e.body, e.orelse) if is_not else (e.orelse, e.body)
            a, ta = self.expr(e_some, env_some)
            b, tb = self.expr(e_none, env)
            t = unify(ta, tb)
            if t is None:
                fail(e, f"conditional expression with branches of type {ta} and {tb}")
            return f"(match {v.coq} with Some {v.coq} => {a} | None => {b} end)", t
        if isinstance(e, ast.IfExp):
            c = self.cond(e.test, env)
            a, ta = self.expr(e.body, env)
            b, tb = self.expr(e.orelse, env)
            t = unify(ta, tb)
            if t is None:
                fail(e, f"conditional expression with branches of type {ta} and {tb}")
            return f"(if {c} then {self.coerce(a, ta, t)} else {self.coerce(b, tb, t)})", t
        if isinstance(e, ast.BoolOp):
            # as a VALUE, `a and b` is one of its operands: only the same as the boolean when both are bools
            for v in e.values:
                if self.expr(v, env)[1] != "bool":
                    fail(e, "and / or of non-bool operands used as a value")
            return self.cond(e, env), "bool"
        if isinstance(e, ast.Compare) or (isinstance(e, ast.UnaryOp) and isinstance(e.op, ast.Not)):
            return self.cond(e, env), "bool"
        if isinstance(e, ast.Subscript):
            return self.subscript(e, env)
        if isinstance(e, ast.List):
            if not e.elts:
                return "[]", ("list", None)
            items = [self.expr(x, env) for x in e.elts]
            t = items[0][1]
            for _, t2 in items[1:]:
                t = unify(t, t2)
                if t is None:
                    fail(e, "list display with elements of different types")
            return "[" + "; ".join(x for x, _ in items) + "]", ("list", t)
        if isinstance(e, ast.ListComp):
            return self.comprehension(e, env)
        if isinstance(e, ast.Call):
            return self.call(e, env)
        fail(e, "expression")

    def settings_field(self, e, env):
        """self.<F>.<group>.<option> for a field F annotated Settings -> (Gallina name of the settings
        argument, 'group.option', 'str' | 'bool'), or None when e has not that shape"""
        if not (isinstance(e, ast.Attribute) and isinstance(e.value, ast.Attribute)
                and isinstance(e.value.value, ast.Attribute) and isinstance(e.value.value.value, ast.Name)
                and e.value.value.value.id == "self" and self.cname
                and self.fields.get(e.value.value.attr) == "settings"):
            return None
        group, option = e.value.attr, e.attr
        try:
            gann, _ = SETTINGS_CLASSES["Settings"][group]
            oann, _ = SETTINGS_CLASSES[gann.id][option]
        except (KeyError, AttributeError):
            fail(e, "settings option that config.py does not declare")
        ty = self.mod.annotation(oann)
        if ty not in ("str", "bool"):
            fail(e, "settings option of a type other than str / bool")
        v = self.read_field(e.value.value, env, "self." + e.value.value.attr)
        return v.coq, f"{group}.{option}", ty

    def documented_var(self, node, env):
        """the Var of THE list of documentation objects"""
        if not self.cname or self.fields.get(DOCUMENTED[5:]) != ("list", "entry"):
            fail(node, f"a reference to a documentation object in a class without the field {DOCUMENTED}")
        if DOCUMENTED in env:
            return env[DOCUMENTED]
        return self.read_field(node, env, DOCUMENTED)

    def as_type(self, a, env, want, what):
        """the Python expression a as a Gallina term of type want.  A local documentation object that was
        appended to self.documented is, as a reference, the position at which it was appended."""
        ref = ("ref", DOCUMENTED)
        if want in (ref, ("opt", ref)) and isinstance(a, ast.Name) and a.id in env and env[a.id].type == "entry":
            if env[a.id].index is None:
                fail(a, f"{what}: the object {a.id} is kept as a reference but was not appended to "
                        f"{DOCUMENTED} before")
            return env[a.id].index if want == ref else f"(Some {env[a.id].index})"
        x, t = self.expr(a, env)
        if t == want:
            return x
        if unify(t, want) != want:
            fail(a, f"{what} has type {t}, expected {want}")
        return self.coerce(x, t, want)

    def object_update(self, st, recv, upd, x, env, cont):
        """the statement mutates, through the expression recv, an object that is an element of
        self.documented: update that element"""
        ref = ("ref", DOCUMENTED)
        r, tr = self.expr(recv, env)
        if tr not in (ref, ("opt", ref)):
            fail(st, f"mutation of an object reached through a value of type {tr} (not a reference into "
                     f"{DOCUMENTED})")
        lv = self.documented_var(st, env)
        comb = "py_ref_update" if tr == ref else "py_optref_update"
        rhs = f"{comb} {lv.coq} {paren_arg(r)} ({upd} {paren_arg(x)})"
        return self.mutate(env, DOCUMENTED, lv, rhs, lv.type, lambda envx: cont(envx, r, tr))

    def dir_names(self, node, prefix):
        """the names in dir(self) that start with prefix: methods and class attributes of the class body, the
        self.<f> fields of __init__; the base classes contribute none (checked: the generated parser listener
        of the repository and the ANTLR runtime's ParseTreeListener; object only has dunder names)"""
        c = self.mod.classes[self.cname]
        names = []
        for m in c.body:
            n_ = m.name if isinstance(m, ast.FunctionDef) else \
                m.target.id if isinstance(m, ast.AnnAssign) and isinstance(m.target, ast.Name) else None
            if n_ and n_.startswith(prefix) and n_ not in names:
                names.append(n_)
        for f_ in self.mod.fields(self.cname):
            if f_.startswith(prefix) and f_ not in names:
                names.append(f_)
        for b in c.bases:
            if not (isinstance(b, ast.Name) and b.id == "CMakeListener"):
                fail(node, f"dir(self) in a class with a base class other than CMakeListener")
            if BASE_LISTENER_NAMES is None:
                fail(node, f"dir(self): {LISTENER_FILE} could not be read")
            bad = [n_ for n_ in list(BASE_LISTENER_NAMES) + RUNTIME_LISTENER_NAMES if n_.startswith(prefix)]
            if bad or prefix.startswith("_"):
                fail(node, f"dir(self): inherited names {bad} start with {prefix!r}")
        return names

    def await_update(self, st, slot, tables, attr, x, env, cont):
        """mutation of the object the awaiting slot refers to"""
        a, ta = self.expr(slot, env)
        if ta != "await":
            fail(st, f".{attr} of a value of type {ta}")
        fe, fm, _ = tables[attr]
        lv = self.documented_var(st, env)
        rhs = f"py_await_update {lv.coq} {paren_arg(a)} ({fe} {paren_arg(x)}) ({fm} {paren_arg(x)})"
        return self.mutate(env, DOCUMENTED, lv, rhs, lv.type, cont)

    def class_module(self, node, cls):
        """the Module that defines the class cls (this one, or the one it is imported from)"""
        if cls in self.mod.classes:
            return self.mod
        if cls in self.mod.imports and self.mod.imports[cls][0] in MODULES \
                and cls in MODULES[self.mod.imports[cls][0]].classes:
            return MODULES[self.mod.imports[cls][0]]
        fail(node, f"the class {cls} is neither defined in this module nor imported from a translated one")

    def check_part_table(self, node, ptype):
        """the declared projections of a part type cover exactly the dataclass fields of its class in the source"""
        cls, acc = PART_ACCESSORS[ptype]
        src = self.class_module(node, cls).fields(cls)
        if list(src) != list(acc):
            fail(node, f"the dataclass fields of {cls} are {list(src)}, its representation has {list(acc)}")
        for f_, (_, pt) in acc.items():
            if src[f_] != pt and ("opt", src[f_]) != pt:
                fail(node, f"field {f_} of {cls} has type {src[f_]} in the source, {pt} in its representation")

    def is_entry_obj_call(self, n, var):
        return (isinstance(n, ast.Call) and isinstance(n.func, ast.Attribute) and isinstance(n.func.value, ast.Name)
                and n.func.value.id == var and n.func.attr in OBJ_METHOD_NAMES)

    def obj_method_call(self, st, e, env, cont):
        """v.m(w) as a statement, for a documentation object v and a method m translated before: one call of the
        translated method on the fields of v, threading the document"""
        recv = env[e.func.value.id]
        mname = e.func.attr
        if e.keywords or len(e.args) != 1 or isinstance(e.args[0], ast.Starred):
            fail(st, "call of an object method with other than one positional argument")
        wx, wt = self.expr(e.args[0], env)
        if wt != "writer":
            fail(st, f"object method called with an argument of type {wt} (expected a writer)")
        if WORLD not in env:
            fail(st, "call of a rendering method in a function that has no writer")
        w = env[WORLD].coq
        if recv.type in PART_ACCESSORS:
            cls, acc = PART_ACCESSORS[recv.type]
            self.check_part_table(st, recv.type)
            key = resolve_method(self.class_module(st, cls), cls, mname)
            info = OBJ_METHODS.get(key)
            if info is None:
                fail(st, f"{cls}.{mname} resolves to {key}, which is not translated (before this function)")
            if info["out"]:
                fail(st, f"{key[0]}.{key[1]} assigns fields of its object, which lives inside a class entry")
            if info["has_raise"]:
                fail(st, f"{key[0]}.{key[1]} can raise; not supported for objects inside a class entry")
            args = []
            for attr, ft in info["field_params"]:
                if attr not in acc or acc[attr][1] != ft:
                    fail(st, f"field {attr} of {cls}: type {ft} in {key[0]}.{key[1]}, "
                             f"{acc.get(attr, (None, None))[1]} in the representation")
                args.append(f"({acc[attr][0]} {recv.coq})")
            env2, c = self.bind(env, WORLD, "world")
            return let(c, " ".join([info["name"], w, paren_arg(wx)] + args), cont(env2))
        # the dynamic dispatch on a documentation object of a list of entries
        lp = self.loops[-1] if self.loops else None
        if not (lp and len(lp) > 3 and lp[3] and lp[3]["var"] == e.func.value.id and self.depth == lp[3]["depth"]):
            fail(st, "dynamic dispatch outside the body of a loop over the list that holds the object")
        if not DISPATCH or DISPATCH["method"] != mname:
            fail(st, f"no generated dispatch for the method {mname}")
        root = DISPATCH["root"]
        if self.mod.rel != DISPATCH["rel"] and self.mod.imports.get(root) != (DISPATCH["rel"], root):
            fail(st, f"{root} is not imported from {DISPATCH['rel']}")
        env2, c = self.bind(env, WORLD, "world")
        env3, cv = self.bind(env2, e.func.value.id, "entry")
        call = f"{DISPATCH['name']} {w} {paren_arg(wx)} {recv.coq}"
        return (f"match {call} with\n| None => None\n| Some ({c}, {cv}) =>\n"
                f"{ind(paren(cont(env3)), 4)}\nend")

    def for_obj_stmt(self, st, env, xs, cont):
        """for v in XS: .. v.m(w) ..   for a list XS of documentation objects and the dynamically dispatched m:
        the body may replace the object v (the methods mutate their object) and may raise"""
        lv = st.target.id
        lkey, lvar = self.lookup(st.iter, env)
        if self.loops or self.has_return:
            fail(st, "a loop with dynamic dispatch nested in a loop / in a function with return statements")
        if lvar.group is not None and len(lvar.group) > 1:
            fail(st, f"the list {lkey} has aliases")
        calls = [n for s2 in st.body for n in ast.walk(s2) if self.is_entry_obj_call(n, lv)]
        tops = [s2 for s2 in st.body if isinstance(s2, ast.Expr) and self.is_entry_obj_call(s2.value, lv)]
        if len(calls) != len(tops):
            fail(st, "dynamic dispatch that is not a statement of the loop body itself")
        if has_break(st.body) or any(isinstance(n, (ast.Return, ast.Continue, ast.Raise))
                                     for s2 in st.body for n in ast.walk(s2)):
            fail(st, "break / continue / return / raise in a loop with dynamic dispatch")
        assigned = self.expand_aliases(target_names(st.body), env, {lv: "entry"})
        if lv in assigned or lkey in assigned:
            fail(st, f"{lv} or {lkey} is assigned in the loop body")
        self.note_param_mutation(st, lkey)
        env = self.materialize(env, assigned)
        state = [n for n in assigned if n in env]
        if WORLD not in state:
            fail(st, "loop with dynamic dispatch in a function that has no writer")
        env_body, cv = self.bind(env, lv, "entry")

        def kend(e):
            return f"Some ({tup_expr([e[n].coq for n in state])}, {e[lv].coq})"
        self.loops.append((state, False, False, {"var": lv, "depth": self.depth + 1}))
        self.depth += 1
        try:
            body = self.block(st.body, env_body, kend)
        finally:
            self.loops.pop()
            self.depth -= 1
        names_in = [env[n].coq for n in state]
        env2, cl = self.bind(dict(env), lkey, lvar.type, lvar.group)
        fun = f"(fun {tup_pat(names_in)} {cv} =>\n{ind(body, 3)})"
        rhs = f"py_for_obj_raise {paren_arg(xs)}\n{ind(fun)}\n{ind(tup_expr(names_in))}"
        return (f"match\n{ind(rhs)}\nwith\n| None => None\n| Some ({tup_expr(names_in)}, {cl}) =>\n"
                f"{ind(paren(cont(env2)), 4)}\nend")

    def world_method_call(self, st, e, env, cont):
        """self.m(args) as a statement, for a method m of the same class, translated before, that threads the
        document through a writer field: the document, the list arguments it mutates in place and the fields it
        assigns are rebound to its results"""
        info = WORLD_METHODS[e.func.attr]
        if e.keywords or any(isinstance(a, ast.Starred) for a in e.args) or len(e.args) != len(info["params"]):
            fail(st, f"call of {e.func.attr} with keywords / starred / a different number of arguments")
        if self.loops or WORLD not in env:
            fail(st, f"call of {e.func.attr} inside a loop / in a function without the document")
        texts, rebind = [], []
        for a, (pn, pt, _) in zip(e.args, info["params"]):
            if pn in info["out_params"]:
                # mutated in place by the callee: must be a variable here, which then holds the new value
                key, v = self.lookup(a, env)
                if v.type != pt or (v.group is not None and len(v.group) > 1):
                    fail(a, f"argument {pn} of {e.func.attr}: a list of type {v.type} (expected {pt}) or with aliases")
                self.note_param_mutation(st, key)
                texts.append(v.coq)
                rebind.append((key, pt))
            else:
                texts.append(paren_arg(self.as_type(a, env, pt, f"argument {pn} of {e.func.attr}")))
        for f_, ft in info["field_params"]:
            v = env["self." + f_] if "self." + f_ in env else self.read_field(st, env, "self." + f_)
            if v.type != ft:
                fail(e, f"field self.{f_} has type {v.type} here and {ft} in {e.func.attr}")
            texts.append(v.coq)
        call = " ".join([info["name"], env[WORLD].coq] + texts)
        envx, cw = self.bind(env, WORLD, "world")
        names = [cw]
        for key, pt in rebind:
            envx, c = self.bind(envx, key, pt)
            names.append(c)
        for f_, ft in info["out"]:
            envx, c = self.bind(envx, "self." + f_, ft)
            names.append(c)
        if info["has_raise"]:
            return (f"match {call} with\n| None => None\n| Some {paren_arg(tup_expr(names))} =>\n"
                    f"{ind(paren(cont(envx)), 4)}\nend")
        return let(tup_pat(names), call, cont(envx))

    def method_call(self, st, e, env, cont):
        """self.m(args) as a statement, for a method m translated before: its result is bound to the
        fields it assigns"""
        info = METHODS[e.func.attr]
        kw = {}
        for k_ in e.keywords:
            if k_.arg is None or k_.arg in kw:
                fail(e, "** argument / repeated keyword")
            kw[k_.arg] = k_.value
        if any(isinstance(a, ast.Starred) for a in e.args) or len(e.args) > len(info["params"]):
            fail(e, "call with starred / too many arguments")
        texts = []
        for i, (pn, pt, dflt) in enumerate(info["params"]):
            if i < len(e.args):
                if pn in kw:
                    fail(e, f"argument {pn} given twice")
                a = e.args[i]
            elif pn in kw:
                a = kw.pop(pn)
            elif dflt is not None:
                a = dflt
            else:
                fail(e, f"call without the argument {pn}")
            texts.append(paren_arg(self.as_type(a, env, pt, f"argument {pn} of {e.func.attr}")))
        if kw:
            fail(e, f"unknown keyword arguments {sorted(kw)}")
        for f_, ft in info["field_params"]:
            v = env["self." + f_] if "self." + f_ in env else self.read_field(st, env, "self." + f_)
            if v.type != ft:
                fail(e, f"field self.{f_} has type {v.type} here and {ft} in {e.func.attr}")
            texts.append(v.coq)
        call = info["name"] + " " + " ".join(texts)
        envx = env
        names = []
        for f_, ft in info["out"]:
            envx, c = self.bind(envx, "self." + f_, ft)
            names.append(c)
        if info["has_raise"]:
            if self.loops:
                fail(st, "call of a method that can raise inside a loop")
            return (f"match {call} with\n| None => None\n| Some {paren_arg(tup_expr(names))} =>\n"
                    f"{ind(paren(cont(envx)), 4)}\nend")
        return let(tup_pat(names), call, cont(envx))

    def settings_option(self, e, env):
        """settings.<group>.<option> for a parameter annotated Settings: an argument of the translated
        function, typed by the dataclasses of config.py (a field whose default is None is Optional)"""
        cls = self.settings_params[e.value.value.id]
        group, option = e.value.attr, e.attr
        try:
            gann, _ = SETTINGS_CLASSES[cls][group]
            gcls = gann.id
            oann, odefault = SETTINGS_CLASSES[gcls][option]
        except (KeyError, AttributeError):
            fail(e, "settings option that config.py does not declare")
        ty = self.mod.annotation(oann)
        if ty is None:
            fail(e, "settings option with a type outside the subset")
        if isinstance(odefault, ast.Constant) and odefault.value is None and not (isinstance(ty, tuple)
                                                                                 and ty[0] == "opt"):
            ty = ("opt", ty)
        pname = f"{e.value.value.id}_{group}_{option}"
        if pname not in self.abstract_params:
            self.abstract_params[pname] = (ty, ast.unparse(e))
        return pname, ty

    def coerce(self, x, t, want):
        """the Gallina term x of type t as a term of type want (where unify(t, want) == want)"""
        if t == want:
            return x
        if t == "int" and want == "zint":
            return f"(py_zint_of_int {paren_arg(x)})"
        if want == ("opt", "str") and t == "str":
            return f"(Some {paren_arg(x)})"
        if isinstance(want, tuple) and want[0] == "opt" and t == "none":
            return "None"
        if is_list(t) and is_list(want) and unify(t, want) == want:
            return x
        raise Unsupported(f"{Ctx.file}: {self.qual}: no coercion from {t} to {want}")

    def as_str(self, e, env, what):
        """str(e) as it happens in an f-string / str() call"""
        x, t = self.expr(e, env)
        if t == "str":
            return x
        if t == "int":
            return f"py_str_of_nat {paren_arg(x)}"
        fail(e, f"{what} of type {t}")

    def subscript(self, e, env):
        x, tx = self.expr(e.value, env)
        sl = e.slice
        if isinstance(sl, ast.Slice):
            if sl.step is not None:
                fail(e, "slice with a step")
            if tx != "str" and not is_list(tx):
                fail(e, f"slice of a value of type {tx}")
            if sl.upper is None and sl.lower is not None:
                n, tn = self.expr(sl.lower, env)
                if tn != "int":
                    fail(e, "slice bound that is not a non-negative int")
                return f"py_slice_from {paren_arg(x)} {paren_arg(n)}", tx
            if sl.lower is None and sl.upper is not None and is_minus_one(sl.upper):
                return f"py_slice_drop_last {paren_arg(x)}", tx
            if sl.lower is not None and sl.upper is not None and is_minus_one(sl.upper):
                # x[a:-1] is (x[a:])[:-1] for a >= 0
                n, tn = self.expr(sl.lower, env)
                if tn != "int":
                    fail(e, "slice bound that is not a non-negative int")
                return f"py_slice_drop_last (py_slice_from {paren_arg(x)} {paren_arg(n)})", tx
            fail(e, "slice form (only x[n:], x[:-1] and x[n:-1])")
        if is_minus_one(sl):
            if tx == "str":
                return f"py_last_str {paren_arg(x)}", "str"
            if is_list(tx) and tx[1] is not None:
                return f"py_list_last {default_of(tx[1])} {paren_arg(x)}", tx[1]
            fail(e, f"[-1] on a value of type {tx}")
        i, ti = self.expr(sl, env)
        if ti != "int":
            fail(e, "index that is not a non-negative int")
        if tx == "str":
            return f"py_index_str {paren_arg(x)} {paren_arg(i)}", "str"
        if is_list(tx) and tx[1] is not None:
            return f"py_list_index {default_of(tx[1])} {paren_arg(x)} {paren_arg(i)}", tx[1]
        fail(e, f"index on a value of type {tx}")

    def iterable(self, it, env):
        """the for / comprehension iterable -> (Gallina list, element type)"""
        if isinstance(it, ast.Call) and isinstance(it.func, ast.Name) and it.func.id == "range":
            if it.keywords or not 1 <= len(it.args) <= 2:
                fail(it, "range with a step or keywords")
            args = [self.expr(a, env) for a in it.args]
            if any(t != "int" for _, t in args):
                fail(it, "range over non-int")
            if len(args) == 1:
                return f"py_range 0 {paren_arg(args[0][0])}", "int"
            return f"py_range {paren_arg(args[0][0])} {paren_arg(args[1][0])}", "int"
        x, t = self.expr(it, env)
        if isinstance(t, tuple) and t[0] == "refs":
            return x, ("ref", t[1])
        if t == "str":
            return f"py_chars {paren_arg(x)}", "str"
        if is_list(t) and t[1] is not None:
            return x, t[1]
        fail(it, f"iteration over a value of type {t}")

    def is_argument_filter(self, test, var):
        """test = isinstance(var, (CMakeParser.Single_argumentContext, CMakeParser.Compound_argumentContext))"""
        if not (isinstance(test, ast.Call) and isinstance(test.func, ast.Name) and test.func.id == "isinstance"
                and len(test.args) == 2 and not test.keywords and isinstance(test.args[0], ast.Name)
                and test.args[0].id == var and isinstance(test.args[1], ast.Tuple)):
            return False
        names = []
        for c in test.args[1].elts:
            if not (isinstance(c, ast.Attribute) and isinstance(c.value, ast.Name) and c.value.id == "CMakeParser"):
                return False
            names.append(c.attr)
        return sorted(names) == ["Compound_argumentContext", "Single_argumentContext"]

    def comprehension(self, e, env):
        if len(e.generators) != 1:
            fail(e, "comprehension with several for clauses")
        g = e.generators[0]
        if g.is_async:
            fail(e, "async comprehension")
        ifs = list(g.ifs)
        it = g.iter
        # references:  [x for x in L if isinstance(x, <documentation class>)]  for a list L of entries
        if isinstance(g.target, ast.Name) and isinstance(e.elt, ast.Name) and e.elt.id == g.target.id \
                and isinstance(it, ast.Name) and it.id in env and env[it.id].type == ("list", "entry") \
                and len(ifs) == 1 and isinstance(ifs[0], ast.Call) and isinstance(ifs[0].func, ast.Name) \
                and ifs[0].func.id == "isinstance" and len(ifs[0].args) == 2 \
                and isinstance(ifs[0].args[0], ast.Name) and ifs[0].args[0].id == g.target.id \
                and isinstance(ifs[0].args[1], ast.Name) and ifs[0].args[1].id in ENTRY_RECOGNIZERS:
            return f"py_refs_where {ENTRY_RECOGNIZERS[ifs[0].args[1].id]} {env[it.id].coq}", ("refs", it.id)
        # the argument children of a parser context:  X.getChildren()  filtered by isinstance
        if isinstance(it, ast.Call) and isinstance(it.func, ast.Attribute) and it.func.attr == "getChildren" \
                and not it.args and not it.keywords:
            x, tx = self.expr(it.func.value, env)
            if tx not in ("arg", "cmd") or not isinstance(g.target, ast.Name) or len(ifs) != 1 \
                    or not self.is_argument_filter(ifs[0], g.target.id):
                fail(e, "getChildren() outside the fixed shape [.. for v in X.getChildren() if isinstance(v, "
                        "(CMakeParser.Single_argumentContext, CMakeParser.Compound_argumentContext))]")
            xs = f"py_argument_children {paren_arg(x)}" if tx == "arg" else f"py_cmd_argument_children {paren_arg(x)}"
            if g.target.id in env:
                fail(e, f"comprehension variable {g.target.id} shadows a local variable")
            env2, v = self.bind(env, g.target.id, "arg")
            is_param_child = tx == "arg" and isinstance(it.func.value, ast.Name) and it.func.value.id == self.rec_param
            env2[g.target.id] = Var(v, "arg", None, None, is_param_child)
            body, tb = self.expr(e.elt, env2)
            return f"py_listcomp (fun {v} => {body}) {paren_arg(xs)}", ("list", tb)
        # for i, v in enumerate(XS)
        if isinstance(g.target, ast.Tuple) and len(g.target.elts) == 2 \
                and all(isinstance(x, ast.Name) for x in g.target.elts) \
                and isinstance(it, ast.Call) and isinstance(it.func, ast.Name) and it.func.id == "enumerate" \
                and len(it.args) == 1 and not it.keywords:
            inner, te = self.iterable(it.args[0], env)
            xs = f"py_enumerate {paren_arg(inner)}"
            env2 = env
            names = []
            for nm, ty in zip(g.target.elts, ("int", te)):
                if nm.id in env:
                    fail(e, f"comprehension variable {nm.id} shadows a local variable")
                env2, v = self.bind(env2, nm.id, ty)
                names.append(v)
            pat = "'(" + ", ".join(names) + ")"
        elif isinstance(g.target, ast.Name):
            xs, te = self.iterable(it, env)
            if g.target.id in env:
                fail(e, f"comprehension variable {g.target.id} shadows a local variable")
            env2, pat = self.bind(env, g.target.id, te)
        else:
            fail(e, "comprehension target")
        body, tb = self.expr(e.elt, env2)
        if ifs:
            c = self.cond(ifs[0], env2) if len(ifs) == 1 else \
                "(" + " && ".join(self.cond(i, env2) for i in ifs) + ")"
            return f"py_listcomp_if (fun {pat} => {c}) (fun {pat} => {body}) {paren_arg(xs)}", ("list", tb)
        return f"py_listcomp (fun {pat} => {body}) {paren_arg(xs)}", ("list", tb)

    def call(self, e, env):
        if e.keywords:
            fail(e, "keyword arguments")
        f = e.func
        # ---- documentation objects: constructors of Model.DocTypes.entry
        if isinstance(f, ast.Name) and f.id not in env \
                and (f.id in ENTRY_CONSTRUCTORS or f.id in ENTRY_CONSTRUCTORS_4 or f.id in PART_CONSTRUCTORS):
            result_t = "entry"
            if f.id in PART_CONSTRUCTORS:
                head, arity, slots, result_t = PART_CONSTRUCTORS[f.id]
            else:
                head, arity, slots = (ENTRY_CONSTRUCTORS.get(f.id) or ENTRY_CONSTRUCTORS_4[f.id])
            if len(e.args) != arity or any(isinstance(a, ast.Starred) for a in e.args):
                fail(e, f"{f.id} with other than {arity} positional arguments")
            out = [head]
            for slot in slots:
                kind = slot[0]
                if kind == "lit":
                    out.append(slot[1])
                    continue
                a = e.args[slot[1]]
                if kind == "const":
                    if not (isinstance(a, ast.Constant) and a.value == slot[2]):
                        fail(a, f"argument {slot[1]} of {f.id} must be the constant {slot[2]!r}")
                    continue
                if kind == "empty":
                    if not (isinstance(a, ast.List) and not a.elts):
                        fail(a, f"argument {slot[1]} of {f.id} must be the literal []")
                    out.append("[]")
                    continue
                if kind == "vartype":
                    if not (isinstance(a, ast.Attribute) and isinstance(a.value, ast.Name)
                            and a.value.id == "VarType" and a.attr in VARTYPES and "VarType" not in env):
                        fail(a, "variable type that is not a VarType member")
                    out.append(VARTYPES[a.attr])
                    continue
                x, tx = self.expr(a, env)
                if kind == "liststr" and (isinstance(a, (ast.Name, ast.Attribute))):
                    # the object keeps a reference to the list: it must not be mutated in this function
                    akey, _ = self.lookup(a, env)
                    if akey in self.inplace_mutated:
                        fail(a, f"the list {akey} is stored in a documentation object and mutated in place")
                want = {"str": "str", "opt": ("opt", "str"), "liststr": ("list", "str"), "bool": "bool"}[kind]
                if unify(tx, want) != want:
                    fail(a, f"argument {slot[1]} of {f.id} has type {tx}, expected {want}")
                out.append(paren_arg(self.coerce(x, tx, want)))
            return "(" + " ".join(out) + ")", result_t
        # ---- a plain dataclass of the module: the pair of its fields
        if isinstance(f, ast.Name) and f.id in self.mod.classes and f.id not in env and f.id not in self.mod.enums \
                and self.mod.is_dataclass(f.id):
            rt = self.mod.record_type(f.id)
            if any(isinstance(a, ast.Starred) for a in e.args) or len(e.args) > len(rt[2]):
                fail(e, f"{f.id} with starred / too many arguments")
            parts = []
            for i, (fname, ft, dflt) in enumerate(rt[2]):
                if i < len(e.args):
                    parts.append(self.as_type(e.args[i], env, ft, f"field {fname} of {f.id}"))
                elif dflt is not None:
                    parts.append(dflt)
                else:
                    fail(e, f"{f.id} without a value for the field {fname}")
            return "(" + ", ".join(parts) + ")", rt
        # ---- the parser-context protocol
        if isinstance(f, ast.Name) and f.id == "isinstance" and len(e.args) == 2:
            x, tx = self.expr(e.args[0], env)
            c = e.args[1]
            if tx == "arg" and isinstance(c, ast.Attribute) and isinstance(c.value, ast.Name) \
                    and c.value.id == "CMakeParser" and c.attr == "Compound_argumentContext":
                return f"py_is_compound {paren_arg(x)}", "bool"
            if tx == "entry" and isinstance(c, ast.Name) and c.id in ENTRY_RECOGNIZERS and c.id not in env:
                return f"{ENTRY_RECOGNIZERS[c.id]} {paren_arg(x)}", "bool"
            if tx == "await" and isinstance(c, ast.Name) and c.id in AWAIT_RECOGNIZERS and c.id not in env:
                return f"{AWAIT_RECOGNIZERS[c.id]} {paren_arg(x)}", "bool"
            if isinstance(c, ast.Name) and c.id in REF_CLASSES and c.id not in env:
                # the class of the object a reference denotes (None is an instance of nothing)
                if tx == ("ref", DOCUMENTED):
                    lv = self.documented_var(e, env)
                    return f"{REF_CLASSES[c.id]} (py_deref {lv.coq} {paren_arg(x)})", "bool"
                if tx == ("opt", ("ref", DOCUMENTED)):
                    lv = self.documented_var(e, env)
                    return f"py_optref_test {lv.coq} {paren_arg(x)} {REF_CLASSES[c.id]}", "bool"
            fail(e, "isinstance outside the parser-context vocabulary")
        if isinstance(f, ast.Attribute) and f.attr == "getText" and not e.args and isinstance(f.value, ast.Call) \
                and isinstance(f.value.func, ast.Attribute) and f.value.func.attr == "Module_docstring" \
                and not f.value.args and not f.value.keywords:
            x, tx = self.expr(f.value.func.value, env)
            if tx != "modctx":
                fail(e, f".Module_docstring() on a value of type {tx}")
            return x, "str"         # a Documented_moduleContext is the text of its Module_docstring token
        if isinstance(f, ast.Attribute) and f.attr == "lower" and not e.args:
            # X.Identifier().getText().lower(): the command name, an ASCII identifier by the grammar
            g = f.value
            if isinstance(g, ast.Call) and isinstance(g.func, ast.Attribute) and g.func.attr == "getText" \
                    and not g.args and not g.keywords and isinstance(g.func.value, ast.Call) \
                    and isinstance(g.func.value.func, ast.Attribute) and g.func.value.func.attr == "Identifier" \
                    and not g.func.value.args and not g.func.value.keywords:
                x, tx = self.expr(g.func.value.func.value, env)
                if tx == "cmd":
                    return f"py_lower_ascii (py_cmd_identifier {paren_arg(x)})", "str"
            fail(e, ".lower() on something other than ctx.Identifier().getText() of a command invocation")
        dotted = dotted_name(f)
        if dotted in OPAQUE_CALLS and dotted.split(".")[0] not in env:
            # a pure library call on parameters that are never assigned: an argument of the translated function
            if not e.args or not all(isinstance(a, ast.Name) and a.id in self.opaque_params for a in e.args):
                fail(e, f"{dotted} on something other than the plain parameters {sorted(self.opaque_params)}")
            pname = dotted.replace(".", "_") + "_" + "_".join(a.id for a in e.args)
            if pname not in self.abstract_params:
                self.abstract_params[pname] = (OPAQUE_CALLS[dotted], ast.unparse(e))
            return pname, OPAQUE_CALLS[dotted]
        if dotted == "re.sub" and "re" not in env and len(e.args) == 3 \
                and self.settings_field(e.args[0], env) is not None:
            # re.sub(self.settings.<group>.<option>, "", x): the settings argument knows what deleting the
            # matches of that option's regular expression does to a str
            sv, sk, sty = self.settings_field(e.args[0], env)
            if sty != "str" or not (isinstance(e.args[1], ast.Constant) and e.args[1].value == ""):
                fail(e, "re.sub with a settings option that is not a str / a replacement other than ''")
            x, tx = self.expr(e.args[2], env)
            if tx != "str":
                fail(e, f"re.sub on a value of type {tx}")
            return f"py_setting_re_sub {sv} {paren_arg(pystr(sk))} {paren_arg(x)}", "str"
        if dotted == "re.sub" and "re" not in env:
            if len(e.args) != 3 or not all(isinstance(a, ast.Constant) and isinstance(a.value, str)
                                            for a in e.args[:2]) \
                    or (e.args[0].value, e.args[1].value) != CMAKE_EXT_SUB:
                fail(e, "re.sub with a pattern / replacement other than (r'\\.cmake$', '')")
            x, tx = self.expr(e.args[2], env)
            if tx != "str":
                fail(e, f"re.sub on a value of type {tx}")
            return f"py_re_sub_cmake_ext {paren_arg(x)}", "str"
        if isinstance(f, ast.Attribute) and f.attr in ("bracket_doccomment", "command_invocation") and not e.args:
            # a Documented_commandContext is the pair (text of its bracket_doccomment, its command_invocation)
            x, tx = self.expr(f.value, env)
            if tx != "doccmd":
                fail(e, f".{f.attr}() on a value of type {tx}")
            return (f"(fst {paren_arg(x)})", "doccomment") if f.attr == "bracket_doccomment" else \
                (f"(snd {paren_arg(x)})", "cmd")
        if isinstance(f, ast.Attribute) and f.attr in ("getText", "single_argument") and not e.args:
            x, tx = self.expr(f.value, env)
            if f.attr == "getText" and tx == "doccomment":
                return x, "str"
            if f.attr == "getText" and tx == "arg":
                return f"py_get_text {paren_arg(x)}", "str"
            if f.attr == "getText" and tx == "cmd":
                return f"py_cmd_text {paren_arg(x)}", "str"
            if f.attr == "single_argument" and tx == "cmd":
                return f"py_single_arguments {paren_arg(x)}", ("list", "arg")
            fail(e, f".{f.attr}() on a value of type {tx}")
        # ---- Class.static_method(args): the function itself (recursion) or one translated before
        if isinstance(f, ast.Attribute) and isinstance(f.value, ast.Name) and f.value.id in self.mod.classes \
                and f.value.id not in env:
            q = f"{f.value.id}.{f.attr}"
            name = q.replace(".", "_")
            if q == self.qual and self.rec_param is not None:
                if len(e.args) != 1 or not (isinstance(e.args[0], ast.Name) and e.args[0].id in env
                                            and env[e.args[0].id].child):
                    fail(e, "recursive call on something that is not an argument child of the parameter")
                self.recursive = True
                return f"{name} {env[e.args[0].id].coq}", self.declared_result
            if name in EMITTED:
                sig = EMITTED[name]
                if len(sig[0]) != len(e.args):
                    fail(e, "call with a different number of arguments")
                args = []
                for a, want in zip(e.args, sig[0]):
                    x, tx = self.expr(a, env)
                    if unify(tx, want) != want:
                        fail(e, f"argument of type {tx}, expected {want}")
                    args.append(paren_arg(self.coerce(x, tx, want)))
                return f"{name} " + " ".join(args), sig[1]
            fail(e, f"call of {q}, which is not translated (before this function)")
        if isinstance(f, ast.Name):
            if f.id == "len" and len(e.args) == 1:
                x, t = self.expr(e.args[0], env)
                if t != "str" and not is_list(t) and not (isinstance(t, tuple) and t[0] == "refs"):
                    fail(e, f"len of a value of type {t}")
                return f"py_len {paren_arg(x)}", "int"
            if f.id == "str" and len(e.args) == 1:
                return self.as_str(e.args[0], env, "argument of str()"), "str"
            if f.id == "map" and len(e.args) == 2 and isinstance(e.args[0], ast.Name) and e.args[0].id == "str":
                x, t = self.expr(e.args[1], env)
                if t != ("list", "str"):
                    fail(e, f"map(str, .) over a value of type {t}")
                return f"py_map_str {paren_arg(x)}", t
            if f.id in self.mod.functions and self.mod.functions[f.id][1] is None and f.id in EMITTED:
                sig = EMITTED[f.id]
                if len(sig[0]) != len(e.args):
                    fail(e, "call with a different number of arguments")
                args = []
                for a, want in zip(e.args, sig[0]):
                    x, t = self.expr(a, env)
                    if unify(t, want) is None:
                        fail(e, f"argument of type {t}, expected {want}")
                    args.append(paren_arg(x))
                return f"{f.id} " + " ".join(args), sig[1]
            if f.id in self.mod.imports and f.id not in env and f.id not in self.mod.functions \
                    and f.id not in self.mod.classes and f.id in EMITTED \
                    and EMITTED_REL.get(f.id) == self.mod.imports[f.id][0]:
                # from .m import f  for a module-level function f of m translated before
                sig = EMITTED[f.id]
                if len(sig[0]) != len(e.args) or any(isinstance(a, ast.Starred) for a in e.args):
                    fail(e, "call with a different number of arguments")
                args = []
                for a, want in zip(e.args, sig[0]):
                    x, t = self.expr(a, env)
                    if unify(t, want) != want:
                        fail(e, f"argument of type {t}, expected {want}")
                    args.append(paren_arg(self.coerce(x, t, want)))
                return f"{f.id} " + " ".join(args), sig[1]
            fail(e, "call of a function outside the subset")
        if isinstance(f, ast.Attribute) and isinstance(f.value, ast.Name) and f.value.id == "textwrap" \
                and f.attr == "dedent" and "textwrap" not in env:
            # textwrap.dedent of a CONSTANT is computed here, by the standard library itself
            a = e.args[0] if len(e.args) == 1 else None
            if isinstance(a, ast.JoinedStr) and all(isinstance(v, ast.Constant) and isinstance(v.value, str)
                                                    for v in a.values):
                const = "".join(v.value for v in a.values)
            elif isinstance(a, ast.Constant) and isinstance(a.value, str):
                const = a.value
            else:
                fail(e, "textwrap.dedent of something that is not a constant string")
            import textwrap
            return pystr(textwrap.dedent(const)), "str"
        if isinstance(f, ast.Attribute):
            m = f.attr
            if m == "join" and len(e.args) == 1:
                sep, ts = self.expr(f.value, env)
                a = e.args[0]
                if isinstance(a, ast.GeneratorExp):
                    a2 = ast.ListComp(elt=a.elt, generators=a.generators)
                    ast.copy_location(a2, a)
                    a = a2
                xs, tx = self.expr(a, env)
                if ts != "str" or unify(tx, ("list", "str")) is None:
                    fail(e, f"join of {tx} with separator {ts}")
                return f"py_join {paren_arg(sep)} {paren_arg(xs)}", "str"
            if m == "strip" and not e.args:
                x, tx = self.expr(f.value, env)
                if tx != "str":
                    fail(e, f".strip() on a value of type {tx}")
                return f"py_strip {paren_arg(x)}", "str"
            if m == "replace" and len(e.args) == 2:
                x, tx = self.expr(f.value, env)
                old, new = e.args
                if tx != "str" or not (isinstance(old, ast.Constant) and isinstance(old.value, str) and old.value):
                    fail(e, ".replace needs a str receiver and a non-empty constant pattern")
                nw, tn = self.expr(new, env)
                if tn != "str":
                    fail(e, f".replace with a replacement of type {tn}")
                return f"py_replace {paren_arg(x)} {paren_arg(pystr(old.value))} {paren_arg(nw)}", "str"
            if m in ("lstrip", "rstrip", "split", "startswith"):
                x, tx = self.expr(f.value, env)
                if tx != "str" or len(e.args) != 1:
                    fail(e, f"str.{m} needs a str receiver and exactly one argument")
                a, ta = self.expr(e.args[0], env)
                if ta != "str":
                    fail(e, f"str.{m} with an argument of type {ta}")
                if m == "split":
                    c = e.args[0]
                    if not (isinstance(c, ast.Constant) and isinstance(c.value, str) and len(c.value) == 1):
                        fail(e, "split with a separator that is not a one-character constant")
                    return f"py_split {paren_arg(x)} {paren_arg(a)}", ("list", "str")
                if m == "startswith":
                    return f"py_startswith {paren_arg(x)} {paren_arg(a)}", "bool"
                return f"py_{m} {paren_arg(x)} {paren_arg(a)}", "str"
            fail(e, f"method call .{m}")
        fail(e, "call")

    def cond(self, e, env):
        """expression in a boolean position -> Gallina bool"""
        if isinstance(e, ast.BoolOp):
            op = " && " if isinstance(e.op, ast.And) else " || "
            return "(" + op.join(self.cond(v, env) for v in e.values) + ")"
        if isinstance(e, ast.UnaryOp) and isinstance(e.op, ast.Not):
            return f"negb {paren_arg(self.cond(e.operand, env))}"
        if isinstance(e, ast.Compare):
            if len(e.ops) != 1:
                fail(e, "chained comparison")
            op, l, r = e.ops[0], e.left, e.comparators[0]
            if isinstance(op, (ast.Is, ast.IsNot)):
                if not (isinstance(r, ast.Constant) and r.value is None):
                    fail(e, "is / is not with something other than None")
                if isinstance(l, ast.Attribute) and isinstance(l.value, ast.Name) and l.value.id in env \
                        and isinstance(env[l.value.id].type, tuple) and env[l.value.id].type[0] == "ref":
                    self.expr(l, env)
                    note = (f"line {e.lineno}: the name of a documentation object is a str in Model.DocTypes.entry, "
                            f"never None: `{ast.unparse(e)}` is the constant "
                            + ("false" if isinstance(op, ast.Is) else "true"))
                    if note not in self.notes:
                        self.notes.append(note)
                    return "false" if isinstance(op, ast.Is) else "true"
                x, t = self.expr(l, env)
                if t == "await":
                    return ("py_await_is_none " if isinstance(op, ast.Is) else "py_await_is_not_none ") + paren_arg(x)
                if isinstance(t, tuple) and t[0] == "opt":
                    return ("py_is_none " if isinstance(op, ast.Is) else "py_is_not_none ") + paren_arg(x)
                fail(e, f"is / is not None on a value of type {t} that is not Optional")
            if isinstance(op, (ast.In, ast.NotIn)) and isinstance(r, ast.Tuple) and r.elts:
                # x in (a, b, ..)  is  x == a or x == b or ..
                eqs = []
                for el in r.elts:
                    cmp_ = ast.Compare(left=l, ops=[ast.Eq()], comparators=[el])
                    ast.copy_location(cmp_, e)
                    eqs.append(self.cond(cmp_, env))
                c = eqs[0] if len(eqs) == 1 else "(" + " || ".join(eqs) + ")"
                return c if isinstance(op, ast.In) else f"negb {paren_arg(c)}"
            if isinstance(op, (ast.In, ast.NotIn)) and isinstance(l, ast.Name) and l.id in self.explicit_keys \
                    and l.id in env and env[l.id].type == "cmd" and self.field_key(r) is not None \
                    and self.fields.get(self.field_key(r)[5:]) == ("list", "arg"):
                # membership of a parser context in a list of contexts held in a field is OBJECT IDENTITY, which
                # the values Parser.cmd cannot express: an abstract bool argument, provided that neither the
                # parameter nor the field changes in this function
                fkey = self.field_key(r)
                if fkey[5:] in self.out_fields or fkey in self.inplace_mutated or fkey in env \
                        or l.id in target_names(self.stmts):
                    fail(e, f"{ast.unparse(e)}: the parameter or the field is assigned in this function")
                pname = f"{mangle(l.id)}_in_self_{fkey[5:]}"
                if pname not in self.abstract_params:
                    self.abstract_params[pname] = ("bool", f"{l.id} in {fkey}")
                return pname if isinstance(op, ast.In) else f"negb {pname}"
            if isinstance(op, (ast.In, ast.NotIn)) and isinstance(r, ast.Call) and isinstance(r.func, ast.Name) \
                    and r.func.id == "dir" and "dir" not in env and len(r.args) == 1 and not r.keywords \
                    and isinstance(r.args[0], ast.Name) and r.args[0].id == "self" and self.cname:
                # KEY in dir(self) for KEY = f"<prefix>{..}": the attribute names with that prefix
                prefix = l.values[0].value if (isinstance(l, ast.JoinedStr) and l.values
                                               and isinstance(l.values[0], ast.Constant)
                                               and isinstance(l.values[0].value, str)) else ""
                if not prefix:
                    fail(e, "in dir(self) for something other than an f-string with a constant prefix")
                a, ta = self.expr(l, env)
                names = "[" + "; ".join(pystr(n_) for n_ in self.dir_names(e, prefix)) + "]"
                c = f"py_in_list {paren_arg(a)} {names}"
                return c if isinstance(op, ast.In) else f"negb ({c})"
            a, ta = self.expr(l, env)
            b, tb = self.expr(r, env)
            if isinstance(op, (ast.In, ast.NotIn)):
                if ta == "str" and tb == "str":
                    c = f"py_in_str {paren_arg(a)} {paren_arg(b)}"
                elif ta == "str" and unify(tb, ("list", "str")) is not None:
                    c = f"py_in_list {paren_arg(a)} {paren_arg(b)}"
                else:
                    fail(e, f"in on {ta} and {tb}")
                return c if isinstance(op, ast.In) else f"negb ({c})"
            for (x1, t1), (x2, t2) in (((a, ta), (b, tb)), ((b, tb), (a, ta))):
                if isinstance(t1, tuple) and t1[0] == "union" and t2 == ("enum", t1[1]) \
                        and isinstance(op, (ast.Eq, ast.NotEq)):
                    c = f"py_union_is {t1[1]}_eqb {paren_arg(x1)} {paren_arg(x2)}"
                    return c if isinstance(op, ast.Eq) else f"negb ({c})"
            if unify(ta, tb) is None:
                fail(e, f"comparison of {ta} with {tb}")
            t = unify(ta, tb)
            if t == "zint":
                znames = {ast.Eq: "py_zint_eq", ast.NotEq: "py_zint_ne", ast.Lt: "py_zint_lt", ast.LtE: "py_zint_le",
                          ast.Gt: "py_zint_gt", ast.GtE: "py_zint_ge"}
                if type(op) not in znames:
                    fail(e, "comparison operator")
                return f"{znames[type(op)]} {paren_arg(self.coerce(a, ta, t))} {paren_arg(self.coerce(b, tb, t))}"
            if isinstance(op, (ast.Eq, ast.NotEq)):
                eq = isinstance(op, ast.Eq)
                if t == "str":
                    return ("py_str_eq " if eq else "py_str_ne ") + f"{paren_arg(a)} {paren_arg(b)}"
                if t == "int":
                    return ("py_int_eq " if eq else "py_int_ne ") + f"{paren_arg(a)} {paren_arg(b)}"
                if isinstance(t, tuple) and t[0] == "enum":
                    c = f"{t[1]}_eqb {paren_arg(a)} {paren_arg(b)}"
                    return c if eq else f"negb ({c})"
                fail(e, f"== on values of type {t}")
            names = {ast.Lt: "py_int_lt", ast.LtE: "py_int_le", ast.Gt: "py_int_gt", ast.GtE: "py_int_ge"}
            if type(op) in names and t == "int":
                return f"{names[type(op)]} {paren_arg(a)} {paren_arg(b)}"
            fail(e, "comparison operator")
        x, t = self.expr(e, env)
        if t == "bool":
            return x
        if t == "str" or is_list(t):
            return f"py_truth {paren_arg(x)}"
        if t == "int":
            return f"py_truth_int {paren_arg(x)}"
        fail(e, f"truth value of a value of type {t}")

    # ---- writer API calls (statements) ----------------------------------------------
    def writer_call(self, e, env):
        """e = <writer var>.<method>(args) -> (Gallina text of type wstate or wstate * handle, returns_handle)
        or None when e is not a writer call"""
        if not (isinstance(e, ast.Call) and isinstance(e.func, ast.Attribute) and e.func.attr in WRITER_METHODS
                and isinstance(e.func.value, ast.Name) and e.func.value.id in env
                and env[e.func.value.id].type == "writer"):
            return None
        if e.keywords:
            fail(e, "keyword arguments")
        h = env[e.func.value.id].coq
        m = e.func.attr
        if WORLD not in env:
            fail(e, "writer call in a function without RSTWriter parameter")
        w = env[WORLD].coq
        args = []
        star = None
        for a in e.args:
            if isinstance(a, ast.Starred):
                if a is not e.args[-1] or m not in ("bulleted_list", "enumerated_list", "directive"):
                    fail(e, "starred argument")
                x, t = self.expr(a.value, env)
                if unify(t, ("list", "str")) is None:
                    fail(e, f"starred argument of type {t}")
                star = x
            else:
                x, t = self.expr(a, env)
                if t != "str" and m == "field" and a is e.args[-1] and len(e.args) == 2:
                    # Field only ever formats its text with an f-string (Field.build_field_string):
                    # the argument counts as str(argument)
                    if t == ("opt", "str"):
                        x, t = f"py_str_of_opt {paren_arg(x)}", "str"
                    elif isinstance(t, tuple) and t[0] == "union":
                        x, t = f"py_str_of_union {t[1]}_str {paren_arg(x)}", "str"
                if t != "str":
                    fail(a, f"writer argument of type {t} (only str)")
                args.append(x)

        def lst(xs):
            base = "[" + "; ".join(xs) + "]"
            if star is None:
                return base
            return paren_arg(star) if not xs else f"({base} ++ {star})"
        if m == "directive":
            if not args:
                fail(e, "directive without a name")
            return f"py_w_directive {w} {h} {paren_arg(args[0])} {lst(args[1:])}", True
        if star is not None and m not in ("bulleted_list", "enumerated_list"):
            fail(e, "starred argument")
        if m == "text" and len(args) == 1:
            return f"py_w_text {w} {h} {paren_arg(args[0])}", False
        if m == "field" and len(args) == 2:
            return f"py_w_field {w} {h} {paren_arg(args[0])} {paren_arg(args[1])}", False
        if m == "doctest" and len(args) == 2:
            return f"py_w_doctest {w} {h} {paren_arg(args[0])} {paren_arg(args[1])}", False
        if m == "option" and len(args) == 2:
            return f"py_w_option {w} {h} {paren_arg(args[0])} {paren_arg(args[1])}", False
        if m == "bulleted_list":
            return f"py_w_bulleted_list {w} {h} {lst(args)}", False
        if m == "enumerated_list":
            return f"py_w_enumerated_list {w} {h} {lst(args)}", False
        fail(e, f"writer call .{m} with {len(args)} arguments")

    # ---- statements -----------------------------------------------------------------
    def block(self, stmts, env, k):
        """Gallina term for the statement list followed by the continuation k(env)"""
        if not stmts:
            return k(env)
        st, rest = stmts[0], stmts[1:]

        def cont(env2):
            return self.block(rest, env2, k)

        if is_docstring(st) or isinstance(st, ast.Pass):
            return cont(env)

        if isinstance(st, ast.Assign):
            if len(st.targets) != 1:
                fail(st, "multiple assignment targets")
            return self.assign(st, st.targets[0], st.value, env, cont)

        if isinstance(st, ast.AnnAssign) and st.value is not None and st.simple == 0 \
                and self.field_key(st.target) is not None:
            # self.f: T = E   (the annotation declares the field, see Module.fields; the statement is self.f = E)
            return self.assign(st, st.target, st.value, env, cont)

        if isinstance(st, ast.AugAssign):
            if not isinstance(st.op, ast.Add):
                fail(st, "augmented assignment other than +=")
            key, v = self.lookup(st.target, env)
            x, t = self.expr(st.value, env)
            if v.type == t == "str":
                rhs = f"{v.coq} ++ {x}"
            elif v.type == t == "int":
                rhs = f"{v.coq} + {x}"
            else:
                fail(st, f"+= on {v.type} and {t} (only str and int; lists are mutated in place)")
            env2, c = self.bind(env, key, t)
            return let(c, rhs, cont(env2))

        if isinstance(st, ast.Expr):
            e = st.value
            wc = self.writer_call(e, env)
            if wc is not None:
                text, returns_handle = wc
                env2, c = self.bind(env, WORLD, "world")
                if returns_handle:
                    return let(f"'({c}, _)", text, cont(env2))
                return let(c, text, cont(env2))
            if isinstance(e, ast.Call) and isinstance(e.func, ast.Attribute) and isinstance(e.func.value, ast.Name) \
                    and e.func.value.id in env and e.func.value.id != "self" \
                    and (env[e.func.value.id].type in PART_ACCESSORS or env[e.func.value.id].type == "entry") \
                    and e.func.attr in OBJ_METHOD_NAMES:
                return self.obj_method_call(st, e, env, cont)
            if isinstance(e, ast.Call) and isinstance(e.func, ast.Attribute) and e.func.attr in LOG_METHODS \
                    and isinstance(e.func.value, ast.Attribute) and isinstance(e.func.value.value, ast.Name) \
                    and e.func.value.value.id == "self" and e.func.value.attr == "logger":
                return cont(env)        # self.logger.<level>(...): no effect on the computation
            if isinstance(e, ast.Call) and isinstance(e.func, ast.Attribute) and e.func.attr == "insert" \
                    and len(e.args) == 2 and not e.keywords and isinstance(e.args[0], ast.Constant) \
                    and e.args[0].value == 0 and not isinstance(e.args[0].value, bool):
                key, v = self.lookup(e.func.value, env)
                x, tx = self.expr(e.args[1], env)
                if not is_list(v.type) or unify(v.type, ("list", tx)) is None:
                    fail(st, f"insert of {tx} into a value of type {v.type}")
                self.note_param_mutation(st, key)
                refs = [k for k in sorted(env) if env[k].type == ("refs", key)]

                def shifted(envx, todo):
                    if not todo:
                        return cont(envx)
                    envy, c2 = self.bind(envx, todo[0], ("refs", key))
                    return let(c2, f"py_shift_refs {envx[todo[0]].coq}", shifted(envy, todo[1:]))
                return self.mutate(env, key, v, f"py_insert_front {v.coq} {paren_arg(x)}",
                                   unify(v.type, ("list", tx)), lambda envx: shifted(envx, refs))
            if isinstance(e, ast.Call) and isinstance(e.func, ast.Attribute) and isinstance(e.func.value, ast.Name) \
                    and e.func.value.id == "self" and self.cname and e.func.attr in WORLD_METHODS \
                    and WORLD_METHODS[e.func.attr]["cname"] == self.cname:
                return self.world_method_call(st, e, env, cont)
            if isinstance(e, ast.Call) and isinstance(e.func, ast.Attribute) and isinstance(e.func.value, ast.Name) \
                    and e.func.value.id == "self" and self.cname and e.func.attr in METHODS \
                    and METHODS[e.func.attr]["cname"] == self.cname:
                return self.method_call(st, e, env, cont)
            if isinstance(e, ast.Call) and isinstance(e.func, ast.Attribute) and e.func.attr == "append" \
                    and len(e.args) == 1 and not e.keywords and self.cname and self.field_key(e.func.value) is not None \
                    and self.field_key(e.func.value)[5:] in IDENTITY_FIELDS \
                    and self.fields.get(self.field_key(e.func.value)[5:]) == ("list", "arg"):
                # self.consumed.append(<parser context>): only object identity is recorded, which the translated
                # state does not carry (the later test `ctx in self.consumed` is an abstract argument)
                x, tx = self.expr(e.args[0], env)
                if tx not in ("cmd", "doccomment", "arg"):
                    fail(st, f"append of a value of type {tx} to {self.field_key(e.func.value)}")
                return cont(env)
            if isinstance(e, ast.Call) and getattr_dispatch_prefix(e) is not None and self.cname:
                return self.block([self.dispatch_as_if(st, e)] + rest, env, k)
            if isinstance(e, ast.Call) and isinstance(e.func, ast.Attribute) and e.func.attr == "pop" \
                    and not e.args and not e.keywords:
                # xs.pop() as a statement: IndexError on the empty list
                key, v = self.lookup(e.func.value, env)
                if not is_list(v.type) or (v.group is not None and len(v.group) > 1) or self.loops:
                    fail(st, "pop() on something other than an unaliased list outside loops")
                self.note_param_mutation(st, key)
                env2, c = self.bind(env, key, v.type, v.group)
                return (f"match py_pop {v.coq} with\n| None => None\n| Some {c} =>\n"
                        f"{ind(paren(cont(env2)), 4)}\nend")
            if isinstance(e, ast.Call) and isinstance(e.func, ast.Attribute) and e.func.attr == "extend" \
                    and len(e.args) == 1 and not e.keywords and isinstance(e.func.value, ast.Attribute) \
                    and e.func.value.attr in AWAIT_EXTEND_ATTRS and self.field_key(e.func.value) is not None \
                    and self.fields.get(self.field_key(e.func.value.value)[5:] if self.field_key(e.func.value.value)
                                        else None) == "await":
                # self.<awaiting slot>.params.extend(xs)
                x, tx = self.expr(e.args[0], env)
                want = AWAIT_EXTEND_ATTRS[e.func.value.attr][2]
                if unify(tx, want) != want:
                    fail(st, f"extend of .{e.func.value.attr} with a value of type {tx}")
                return self.await_update(st, e.func.value.value, AWAIT_EXTEND_ATTRS, e.func.value.attr, x, env, cont)
            if isinstance(e, ast.Call) and isinstance(e.func, ast.Attribute) and e.func.attr == "append" \
                    and len(e.args) == 1 and not e.keywords and isinstance(e.func.value, ast.Attribute) \
                    and e.func.value.attr in REF_LIST_ATTRS and self.field_key(e.func.value) is None:
                # R.<list attribute>.append(E) for an object R that is an element of self.documented
                upd, et, locfmt = REF_LIST_ATTRS[e.func.value.attr]
                a0 = e.args[0]
                x, tx = self.expr(a0, env)
                if tx != et:
                    fail(st, f"append of {tx} to .{e.func.value.attr} (expected {et})")

                def after(envx, r, tr):
                    if locfmt is None or not isinstance(a0, ast.Name):
                        return cont(envx)
                    if tr != ("ref", DOCUMENTED):
                        fail(st, "the appended object stays reachable, but the receiver may be None")
                    # the object stays reachable through the local name: remember WHERE it is stored
                    envy, c = self.bind(envx, "$loc of " + a0.id, "await")
                    return let(c, locfmt.format(r=paren_arg(r)), cont(envy))
                return self.object_update(st, e.func.value.value, upd, x, env, after)
            if isinstance(e, ast.Call) and isinstance(e.func, ast.Attribute) and e.func.attr == "append" \
                    and len(e.args) == 1 and not e.keywords:
                key, v = self.lookup(e.func.value, env)
                self.note_param_mutation(st, key)
                a0 = e.args[0]
                if is_list(v.type) and isinstance(v.type[1], tuple) and v.type[1][0] in ("ref", "opt", "record") \
                        and v.type[1] != ("opt", "str"):
                    x, t = self.as_type(a0, env, v.type[1], f"element appended to {key}"), v.type[1]
                else:
                    x, t = self.expr(a0, env)
                if not is_list(v.type) or unify(v.type, ("list", t)) is None:
                    fail(st, f"append of {t} to a value of type {v.type}")
                if key == DOCUMENTED and isinstance(a0, ast.Name) and t == "entry" \
                        and (any(self.fields.get(f) == "await" for f in self.out_fields)
                             or self.load_counts.get(a0.id, 0) > 1):
                    # the object stays reachable through the local name: remember WHERE it is stored
                    okey = a0.id
                    env1, ci = self.bind(env, "$index of " + okey, "int")
                    ov = env1[okey]
                    env1 = dict(env1)
                    env1[okey] = Var(ov.coq, ov.type, ov.group, ci, ov.child)
                    return let(ci, f"py_len {v.coq}",
                               self.mutate(env1, key, v, f"py_append {v.coq} {paren_arg(x)}",
                                           unify(v.type, ("list", t)), cont))
                return self.mutate(env, key, v, f"py_append {v.coq} {paren_arg(x)}", unify(v.type, ("list", t)), cont)
            fail(st, "expression statement")

        if isinstance(st, ast.If):
            return self.if_stmt(st, env, rest, k)

        if isinstance(st, ast.For):
            return self.for_stmt(st, env, cont)

        if isinstance(st, ast.Try) and self.is_reraise_try(st):
            # try: BODY except Exception as e: <log>; raise e   -- the exception goes on unchanged: BODY
            return self.block(list(st.body) + rest, env, k)
        if isinstance(st, ast.Try):
            return self.if_stmt(self.try_as_if(st, env), env, rest, k)

        if isinstance(st, ast.Break):
            if rest:
                fail(rest[0], "statement after break")
            if not self.loops or not self.loops[-1][1] or self.loops[-1][2]:
                fail(st, "break outside a loop body / at an unsupported place")
            names = [env[key].coq for key in self.loops[-1][0]]
            return f"({tup_expr(names)}, true)"

        if isinstance(st, ast.Return):
            if rest:
                fail(rest[0], "statement after return")
            if self.loops and not (len(self.loops) == 1 and self.loops[0][2]):
                fail(st, "return inside nested loops / a loop with break")
            if st.value is None:
                res = self.exit_value(env, st)
            elif WORLD in env and self.cname:
                # a method that threads the document and returns a value: the document, the value, and the
                # fields it assigned (a field not assigned on this path has its incoming value)
                if self.loops or self.out_params:
                    fail(st, "return of a value inside a loop / with mutated list parameters in a function that "
                             "threads the document")
                x, t = self.expr(st.value, env)
                fields = list(self.out_fields) + [f for f in self.mutated_params if f not in self.out_fields]
                envm = self.materialize(env, ["self." + f for f in fields])
                outs = [(envm[WORLD].coq, "world"), (x, t)] + [(envm["self." + f].coq, envm["self." + f].type)
                                                               for f in fields]
                self.set_result(st, ("tuple", [o_[1] for o_ in outs]))
                self.result_fields = [envm[WORLD].coq, "<the returned value>"] + [o_[0] for o_ in outs[2:]]
                tx = tup_expr([o_[0] for o_ in outs])
                res = f"Some {paren_arg(tx)}" if self.has_raise else tx
            else:
                x, t = self.expr(st.value, env)
                self.set_result(st, t)
                res = f"Some {paren_arg(x)}" if self.has_raise else x
            return f"inr {paren_arg(res)}" if self.loops else res

        if isinstance(st, ast.Raise):
            if rest:
                fail(rest[0], "statement after raise")
            if self.loops:
                fail(st, "raise inside a loop")
            return "None"

        fail(st, "statement")

    def is_reraise_try(self, st):
        """try: .. except Exception as e: x = <attribute chain>; self.logger.<level>(..); raise e"""
        if len(st.handlers) != 1 or st.orelse or st.finalbody:
            return False
        h = st.handlers[0]
        if not (isinstance(h.type, ast.Name) and h.type.id == "Exception" and h.name and h.body):
            return False
        last = h.body[-1]
        if not (isinstance(last, ast.Raise) and isinstance(last.exc, ast.Name) and last.exc.id == h.name
                and last.cause is None):
            return False
        assigned = set()
        for b in h.body[:-1]:
            if isinstance(b, ast.Assign) and len(b.targets) == 1 and isinstance(b.targets[0], ast.Name) \
                    and is_accessor_chain(b.value):
                assigned.add(b.targets[0].id)       # reading attributes has no effect
                continue
            if isinstance(b, ast.Expr) and isinstance(b.value, ast.Call) and isinstance(b.value.func, ast.Attribute) \
                    and b.value.func.attr in LOG_METHODS and dotted_name(b.value.func.value) == "self.logger":
                continue
            return False
        return True

    def dispatch_as_if(self, st, e):
        """getattr(self, KEY)(args) for KEY = f"<prefix>{..}"  ->  the if / elif chain over the attribute names with
        that prefix:  if KEY == "<name>": self.<name>(args) .. else: raise (AttributeError); a name that is not a
        method taking these arguments: raise (TypeError)"""
        prefix = getattr_dispatch_prefix(e)
        key = e.func.args[1]
        if any(isinstance(a, ast.Starred) for a in e.args) or any(k_.arg is None for k_ in e.keywords):
            fail(st, "reflective call with starred arguments")
        c = self.mod.classes[self.cname]
        chain = [ast.Raise(exc=None, cause=None)]
        for n_ in reversed(self.dir_names(st, prefix)):
            fdef = next((m for m in c.body if isinstance(m, ast.FunctionDef) and m.name == n_), None)
            body = None
            if fdef is not None and not fdef.decorator_list and not fdef.args.vararg and not fdef.args.kwarg \
                    and not fdef.args.kwonlyargs and not fdef.args.posonlyargs:
                names = [a.arg for a in fdef.args.args][1:]
                required = names[:len(names) - len(fdef.args.defaults)]
                given = set(names[:len(e.args)]) | {k_.arg for k_ in e.keywords}
                if len(e.args) <= len(names) and all(k_.arg in names for k_ in e.keywords) \
                        and all(r_ in given for r_ in required):
                    if n_ not in METHODS or METHODS[n_]["cname"] != self.cname:
                        fail(st, f"reflective call: the method {n_} is not translated (before this function)")
                    call = ast.Call(func=ast.Attribute(value=ast.Name(id="self", ctx=ast.Load()), attr=n_,
                                                       ctx=ast.Load()), args=list(e.args), keywords=list(e.keywords))
                    body = [ast.Expr(value=call)]
            elif fdef is not None:
                fail(st, f"reflective call: the method {n_} has a parameter list outside the subset")
            if body is None:
                body = [ast.Raise(exc=None, cause=None)]        # not callable like this: TypeError
            test = ast.Compare(left=key, ops=[ast.Eq()], comparators=[ast.Constant(value=n_)])
            chain = [ast.If(test=test, body=body, orelse=chain)]
        node = chain[0]
        for n in ast.walk(node):
            if not hasattr(n, "lineno"):
                ast.copy_location(n, st)
        ast.fix_missing_locations(node)
        return node

    def note_param_mutation(self, node, key):
        """an explicit list parameter mutated in place is a result of the translated function"""
        if key in self.explicit_keys and key not in self.out_params:
            fail(node, f"the parameter {key} is mutated in place only through a reference / in a way the "
                       f"translator did not foresee")

    def try_as_if(self, st, env):
        """try: x = xs[e]; <assignments that cannot raise>  except IndexError: <handler ending in return>
        is   if e < len(xs): <try body> else: <handler>   (e is a natural number, so xs[e] raises
        IndexError exactly when e >= len(xs))"""
        ok = (len(st.handlers) == 1 and not st.orelse and not st.finalbody
              and isinstance(st.handlers[0].type, ast.Name) and st.handlers[0].type.id == "IndexError"
              and st.handlers[0].name is None and st.body
              and isinstance(st.body[0], ast.Assign) and len(st.body[0].targets) == 1
              and isinstance(st.body[0].targets[0], ast.Name)
              and isinstance(st.body[0].value, ast.Subscript)
              and not isinstance(st.body[0].value.slice, ast.Slice)
              and isinstance(st.body[0].value.value, ast.Name))
        if ok:
            for s2 in st.body[1:]:
                # nothing else in the try body may be able to raise IndexError
                if not (isinstance(s2, ast.Assign) and len(s2.targets) == 1 and isinstance(s2.targets[0], ast.Name)
                        and isinstance(s2.value, (ast.Name, ast.Constant))):
                    ok = False
            h = st.handlers[0].body
            if not (h and isinstance(h[-1], ast.Return)):
                ok = False
        if not ok:
            fail(st, "try statement outside the shape  try: x = xs[e]; y = z ..  except IndexError: ..; return")
        sub = st.body[0].value
        xs, txs = self.expr(sub.value, env)
        i, ti = self.expr(sub.slice, env)
        if not is_list(txs) or ti != "int":
            fail(st, "try: x = xs[e] with xs not a list or e not a non-negative int")
        test = ast.Compare(left=sub.slice, ops=[ast.Lt()],
                           comparators=[ast.Call(func=ast.Name(id="len", ctx=ast.Load()), args=[sub.value],
                                                 keywords=[])])
        node = ast.If(test=test, body=st.body, orelse=st.handlers[0].body)
        for n in ast.walk(node):
            if not hasattr(n, "lineno"):
                ast.copy_location(n, st)
        ast.copy_location(node, st)
        ast.fix_missing_locations(node)
        return node

    def materialize(self, env, keys):
        """make the fields among keys that are still the object's incoming values explicit in env"""
        env2 = env
        for key in keys:
            if key.startswith("self.") and key not in env2:
                v = self.read_field(self.fn, env2, key)
                env2 = dict(env2)
                env2[key] = v
        return env2

    def exit_value(self, env, node):
        """the result at a bare return / at the end of the body: (world and) the fields the method
        assigns anywhere; a field not assigned on this path has its incoming value"""
        if self.has_return:
            fail(node, "a path that ends without a value in a function with return statements")
        fields = list(self.out_fields) + [f for f in self.mutated_params if f not in self.out_fields]
        env = self.materialize(env, ["self." + f for f in fields])
        outs = []
        if self.uses_world or (self.creates_world and WORLD in env):
            outs.append((env[WORLD].coq, "world"))
        for pk in self.out_params:
            outs.append((env[pk].coq, env[pk].type))
        for f in fields:
            v = env["self." + f]
            outs.append((v.coq, v.type))
        if self.opts.get("result"):
            # a slice of a function body: its result is the named local variables
            outs = []
            for rv in self.opts["result"]:
                if rv not in env:
                    fail(node, f"{rv} is not defined at the end of the translated part")
                outs.append((env[rv].coq, env[rv].type))
        if not outs:
            fail(node, "function without result")
        t = outs[0][1] if len(outs) == 1 else ("tuple", [x[1] for x in outs])
        self.set_result(node, t)
        self.result_fields = [o[0] for o in outs]
        self.result_out_attrs = None if self.opts.get("result") else [(f, env["self." + f].type) for f in fields]
        self.result_attrs = None if (self.uses_world or self.creates_world or self.out_params
                                     or self.opts.get("result")) else \
            [(f, env["self." + f].type) for f in fields]
        x = tup_expr([o[0] for o in outs])
        return f"Some {paren_arg(x)}" if self.has_raise else x

    def set_result(self, node, t):
        if self.result_type is None:
            self.result_type = t
        else:
            u = unify(self.result_type, t)
            if u is None:
                fail(node, f"results of different types {self.result_type} and {t}")
            self.result_type = u

    def mutate(self, env, key, v, rhs, new_type, cont):
        """in-place mutation of the list object bound to key: every alias sees it"""
        group = v.group if v.group is not None else frozenset([key])
        env2, c = self.bind(env, key, new_type, group)
        others = [k2 for k2 in sorted(group) if k2 != key and k2 in env]

        def after(envx, todo):
            if not todo:
                return cont(envx)
            k2 = todo[0]
            envy, c2 = self.bind(envx, k2, new_type, group)
            return let(c2, c, after(envy, todo[1:]))
        return let(c, rhs, after(env2, others))

    def assign(self, st, tgt, value, env, cont):
        if isinstance(tgt, ast.Attribute) and tgt.attr == "title" and isinstance(tgt.value, ast.Attribute) \
                and isinstance(tgt.value.value, ast.Name) and tgt.value.value.id == "self" \
                and tgt.value.attr in self.world_fields:
            # self.<writer field>.title = E  in a function that threads the document: the title setter of that writer
            x, tx = self.expr(value, env)
            if tx != "str":
                fail(st, f"title assigned a value of type {tx}")
            h, _ = self.expr(tgt.value, env)
            w = env[WORLD].coq
            env2, c = self.bind(env, WORLD, "world")
            return let(c, f"py_w_set_title {w} {h} {paren_arg(x)}", cont(env2))
        if isinstance(value, ast.Call) and isinstance(value.func, ast.Name) and value.func.id == "RSTWriter" \
                and "RSTWriter" not in env and self.field_key(tgt) is not None and self.cname \
                and self.fields.get(self.field_key(tgt)[5:]) == "writer":
            # self.f = RSTWriter(title, settings=S): the function CREATES the document; the new writer is its
            # top-level writer (section_level and indent keep their defaults 0)
            if self.mod.imports.get("RSTWriter", (None,))[0] != WRITER_FILE:
                fail(st, f"RSTWriter is not imported from {WRITER_FILE}")
            kws = {k_.arg: k_.value for k_ in value.keywords}
            if len(value.args) != 1 or isinstance(value.args[0], ast.Starred) or set(kws) - {"settings"}:
                fail(st, "RSTWriter(..) with other than one positional argument and the keyword settings")
            if "settings" in kws and not (isinstance(kws["settings"], ast.Name)
                                          and kws["settings"].id in self.settings_params):
                fail(st, "RSTWriter(.., settings=S) where S is not the Settings parameter of the function")
            if WORLD in env or self.loops or self.depth > 0:
                fail(st, "construction of a writer in a function that already has a document / inside if or for")
            x, tx = self.expr(value.args[0], env)
            if tx != "str":
                fail(st, f"RSTWriter(title) with a title of type {tx}")
            self.creates_world = True
            env2, cw = self.bind(env, WORLD, "world")
            env3, c = self.bind(env2, self.field_key(tgt), "writer")
            return let(cw, f"py_w_new {paren_arg(x)}", let(c, "py_w_top", cont(env3)))
        if isinstance(tgt, ast.Subscript):
            if not is_minus_one(tgt.slice):
                fail(st, "subscript assignment other than xs[-1] = v")
            key, v = self.lookup(tgt.value, env)
            x, t = self.expr(value, env)
            if not is_list(v.type) or unify(v.type, ("list", t)) is None:
                fail(st, f"xs[-1] = v with xs of type {v.type} and v of type {t}")
            if any(env[k].type == ("refs", key) for k in env):
                fail(st, f"{key}[-1] = v while references into {key} are alive")
            self.note_param_mutation(st, key)
            return self.mutate(env, key, v, f"py_set_last {v.coq} {paren_arg(x)}", unify(v.type, ("list", t)), cont)
        if isinstance(tgt, ast.Attribute) and tgt.attr in AWAIT_SET_ATTRS and self.field_key(tgt.value) is not None \
                and self.fields.get(self.field_key(tgt.value)[5:]) == "await":
            # self.<awaiting slot>.is_macro = v
            x, tx = self.expr(value, env)
            if tx != AWAIT_SET_ATTRS[tgt.attr][2]:
                fail(st, f".{tgt.attr} assigned a value of type {tx}")
            return self.await_update(st, tgt.value, AWAIT_SET_ATTRS, tgt.attr, x, env, cont)
        if isinstance(tgt, ast.Name):
            key = tgt.id
            if key == "self":
                fail(st, "assignment to self")
        elif self.field_key(tgt) is not None and self.cname:
            key = self.field_key(tgt)
            if key[5:] not in self.fields:
                fail(st, f"{key} is not a field declared in the class")
        elif isinstance(tgt, ast.Attribute) and tgt.attr in REF_SET_ATTRS:
            # R.<attribute> = v  for an object R that is an element of self.documented
            upd, vt = REF_SET_ATTRS[tgt.attr]
            x, tx = self.expr(value, env)
            if tx != vt:
                fail(st, f".{tgt.attr} assigned a value of type {tx}")
            return self.object_update(st, tgt.value, upd, x, env, lambda envx, r, tr: cont(envx))
        elif isinstance(tgt, ast.Attribute) and isinstance(tgt.value, ast.Name) and tgt.value.id in env \
                and isinstance(env[tgt.value.id].type, tuple) and env[tgt.value.id].type[0] == "ref":
            # r.name = v  through a reference r into a list of documentation objects
            r = env[tgt.value.id]
            if tgt.attr != "name":
                fail(st, "assignment to an attribute of a referenced documentation object other than .name")
            lkey = r.type[1]
            lk, lv = self.lookup(ast.copy_location(ast.Name(id=lkey, ctx=ast.Load()), st), env)
            x, tx = self.expr(value, env)
            if tx != "str":
                fail(st, f".name assigned a value of type {tx}")
            self.note_param_mutation(st, lkey)
            return self.mutate(env, lkey, lv, f"py_set_ref_name {lv.coq} {r.coq} {paren_arg(x)}", lv.type, cont)
        else:
            fail(st, "assignment target")
        wc = self.writer_call(value, env)
        if wc is not None:
            text, returns_handle = wc
            if not returns_handle:
                fail(st, "assignment of a writer call that returns None")
            if key.startswith("self."):
                fail(st, "writer handle stored in a field")
            env2, cw = self.bind(env, WORLD, "world")
            env3, c = self.bind(env2, key, "writer")
            return let(f"'({cw}, {c})", text, cont(env3))
        x, t = self.expr(value, env)
        group = None
        if is_list(t) and (isinstance(value, ast.Name) or isinstance(value, ast.Attribute)):
            # x = y for a mutable list: x and y name the same object from now on
            if self.depth > 0:
                fail(st, "aliasing of a list inside if/for")
            okey, ov = self.lookup(value, env)
            if okey not in env:
                # a field parameter: make it a tracked variable so that mutations through the
                # alias are visible in it
                env, _ = self.bind(env, okey, ov.type)
                if okey.startswith("self.") and okey[5:] not in self.mutated_params:
                    self.mutated_params.append(okey[5:])
                ov = env[okey]
            group = (ov.group or frozenset([okey])) | {key}
        old = env.get(key)
        if key.startswith("self.") and self.fields.get(key[5:]) == "await":
            # the one aliasing rule: a field holding a reference to a documentation object is the
            # POSITION of that object in self.documented
            if isinstance(value, ast.Constant) and value.value is None:
                env2, c = self.bind(env, key, "await")
                return let(c, "Aggregator.AwNone", cont(env2))
            if isinstance(value, ast.Name) and t in ("method",) and ("$loc of " + value.id) in env:
                # a local object that was appended to a list inside a class entry: the place noted there
                env2, c = self.bind(env, key, "await")
                return let(c, env["$loc of " + value.id].coq, cont(env2))
            if not (isinstance(value, ast.Name) and t == "entry" and env[value.id].index is not None):
                fail(st, f"{key} is assigned something that was not just appended to {DOCUMENTED}")
            if self.local_classes.get(value.id) not in AWAIT_TOP_CLASSES:
                fail(st, f"{key} is assigned an object of a class other than {sorted(AWAIT_TOP_CLASSES)}")
            env2, c = self.bind(env, key, "await")
            return let(c, f"Aggregator.AwTop {env[value.id].index}", cont(env2))
        if t == "none":
            fail(st, "assignment of None to a variable")
        if old is not None and unify(old.type, t) is None:
            fail(st, f"variable {key} changes its type from {old.type} to {t}")
        if old is not None and old.type == "zint" and t == "int":
            x, t = self.coerce(x, t, "zint"), "zint"     # the variable holds integers that may be negative
        elif old is not None and old.type == "int" and t == "zint":
            fail(st, f"variable {key} holds natural numbers and is assigned a possibly negative int")
        index = None
        if t == "entry" and isinstance(value, ast.Name):
            index = env[value.id].index
        env2, c = self.bind(env, key, t, group)
        if index is not None:
            env2[key] = Var(c, t, group, index)
        return let(c, x, cont(env2))

    def capture_env(self, stmts, env):
        """dry run: the environment at the end of the statement list (which has no escapes)"""
        got = []

        def kk(e):
            got.append(e)
            return "_"
        saved = (list(self.field_params), list(self.ever_written), list(self.notes), self.result_type)
        self.block(stmts, env, kk)
        self.field_params, self.ever_written, self.notes, self.result_type = \
            saved[0], saved[1], saved[2], saved[3]
        if len(got) != 1:
            fail(stmts[0] if stmts else self.fn, "internal: branch with several exits")
        return got[0]

    def expand_aliases(self, names, env, extra=None):
        """the variables that change when the named ones are assigned / mutated: list aliases, the list a
        reference points into (@ref:x), the reference lists into a list that is restructured"""
        out = []

        def add(n):
            if n not in out:
                out.append(n)
        for n in names:
            if n.startswith("@ref:"):
                x = n[5:]
                ty = (extra or {}).get(x) or (env[x].type if x in env else None)
                if not (isinstance(ty, tuple) and ty[0] == "ref"):
                    raise Unsupported(f"{Ctx.file}: {self.qual}: attribute assignment through {x}, which is "
                                      f"not a reference into a list of documentation objects")
                n = ty[1]
            if n.startswith("@shift:"):
                for k in sorted(env):
                    if env[k].type == ("refs", n[7:]):
                        add(k)
                continue
            add(n)
            if n in env and env[n].group:
                for a in sorted(env[n].group):
                    add(a)
        return out

    def none_test(self, test, env):
        """test = `X is None` / `X is not None` for a variable X of Optional type
        -> (python key, Var, True when `is not`), else None"""
        if not (isinstance(test, ast.Compare) and len(test.ops) == 1
                and isinstance(test.ops[0], (ast.Is, ast.IsNot))
                and isinstance(test.comparators[0], ast.Constant) and test.comparators[0].value is None):
            return None
        x = test.left
        if not (isinstance(x, ast.Name) or (isinstance(x, ast.Attribute) and isinstance(x.value, ast.Name)
                                            and x.value.id == "self")):
            return None
        key, v = self.lookup(x, env)
        if not (isinstance(v.type, tuple) and v.type[0] == "opt"):
            return None
        return key, v, isinstance(test.ops[0], ast.IsNot)

    def settings_dict_lookup(self, e, env):
        """self.<F>.<group>.__dict__[KEY] for a settings field F and KEY = f"<prefix>{..}" -> Gallina of type
        option bool (None = KeyError): the fields of the group's dataclass in config.py whose names start with the
        prefix must all be bool, and are listed"""
        g = e.value.value
        f_ = g.value.attr
        if not self.cname or self.fields.get(f_) != "settings":
            fail(e, "__dict__ of something other than a group of the settings field")
        key = e.slice
        prefix = key.values[0].value if (isinstance(key, ast.JoinedStr) and key.values
                                         and isinstance(key.values[0], ast.Constant)
                                         and isinstance(key.values[0].value, str)) else ""
        try:
            gann, _ = SETTINGS_CLASSES["Settings"][g.attr]
            members = SETTINGS_CLASSES[gann.id]
        except (KeyError, AttributeError):
            fail(e, "settings group that config.py does not declare")
        names = [n_ for n_ in members if n_.startswith(prefix)]
        if not prefix or any(self.mod.annotation(members[n_][0]) != "bool" for n_ in names):
            fail(e, "settings __dict__ lookup whose possible keys are not all bool options")
        kx, kt = self.expr(key, env)
        if kt != "str":
            fail(e, f"__dict__ key of type {kt}")
        v = self.read_field(g.value, env, "self." + f_)
        lst = "[" + "; ".join(pystr(n_) for n_ in names) + "]"
        return f"py_setting_dict_bool {v.coq} {paren_arg(pystr(g.attr))} {lst} {paren_arg(kx)}"

    def if_stmt(self, st, env, rest, k):
        if is_settings_dict_lookup(st.test):
            # if D[KEY]: A else: B  where the lookup can raise KeyError
            text = self.settings_dict_lookup(st.test, env)
            fkey = "settings_flag"
            if fkey in env or self.loops:
                fail(st, "settings __dict__ test inside a loop / nested in another one")
            env2, c = self.bind(env, fkey, "bool")
            inner = ast.If(test=ast.Name(id=fkey, ctx=ast.Load()), body=st.body, orelse=st.orelse)
            ast.copy_location(inner, st)
            ast.copy_location(inner.test, st)
            body = self.if_stmt(inner, env2, rest, k)
            return f"match {text} with\n| None => None\n| Some {c} =>\n{ind(paren(body), 4)}\nend"
        # `if X is not None and R: A else: B`  is  `if X is not None: (if R: A else: B) else: B`
        if isinstance(st.test, ast.BoolOp) and isinstance(st.test.op, ast.And):
            nt = self.none_test(st.test.values[0], env)
            if nt is not None and nt[2]:
                others = st.test.values[1:]
                inner_test = others[0] if len(others) == 1 else ast.BoolOp(op=ast.And(), values=others)
                ast.copy_location(inner_test, st.test)
                inner = ast.If(test=inner_test, body=st.body, orelse=st.orelse)
                ast.copy_location(inner, st)
                outer = ast.If(test=st.test.values[0], body=[inner], orelse=st.orelse)
                ast.copy_location(outer, st)
                st = outer
        nt = self.none_test(st.test, env)
        if nt is not None:
            # narrowing: in the branch where X is not None, X is the value itself
            key, v, is_not = nt
            some_body, none_body = (st.body, st.orelse) if is_not else (st.orelse, st.body)
            if not is_not and not st.orelse and len(st.body) == 1 and isinstance(st.body[0], ast.Assign) \
                    and len(st.body[0].targets) == 1 and isinstance(st.body[0].targets[0], ast.Name) \
                    and st.body[0].targets[0].id == key and isinstance(st.test.left, ast.Name):
                # if X is None: X = E    is    X = E if X is None else X
                ife = ast.IfExp(test=st.test, body=st.body[0].value, orelse=ast.Name(id=key, ctx=ast.Load()))
                asg = ast.Assign(targets=[ast.Name(id=key, ctx=ast.Store())], value=ife)
                for n_ in (ife, ife.orelse, asg, asg.targets[0]):
                    ast.copy_location(n_, st)
                return self.block([asg] + rest, env, k)
            if key in target_names(st.body) + target_names(st.orelse):
                fail(st, f"{key} is assigned in a branch of a test against None")
            env_a = dict(env)
            env_a[key] = Var(v.coq, v.type[1], v.group)
            env_b = env
            body_a, body_b = some_body, none_body

            def render(a, b, oneline):
                if oneline:
                    return f"match {v.coq} with Some {v.coq} => {paren(a)} | None => {paren(b)} end"
                return (f"match {v.coq} with\n| Some {v.coq} =>\n{ind(paren(a), 4)}\n"
                        f"| None =>\n{ind(paren(b), 4)}\nend")
        else:
            c = self.cond(st.test, env)
            env_a = env_b = env
            body_a, body_b = st.body, st.orelse

            def render(a, b, oneline):
                if oneline:
                    return f"if {c} then {paren(a)} else {paren(b)}"
                return f"if {c} then\n{ind(paren(a))}\nelse\n{ind(paren(b))}"
        self.depth += 1
        try:
            if escapes(body_a) or escapes(body_b):
                # a branch leaves the enclosing block: each branch is followed by its own copy of
                # the rest of the block
                a = self.block(body_a if terminates(body_a) else body_a + rest, env_a, k)
                b = self.block(body_b if terminates(body_b) else body_b + rest, env_b, k)
                return render(a, b, False)
            ta, tb = target_names(body_a), target_names(body_b)
            cand = self.expand_aliases(ta + [n for n in tb if n not in ta], env)
            # fields assigned in a branch: make their incoming values explicit, so that the branch
            # that does not assign keeps them
            env = self.materialize(env, cand)
            env_a = self.materialize(env_a, cand)
            env_b = self.materialize(env_b, cand)
            e1 = self.capture_env(body_a, env_a)
            e2 = self.capture_env(body_b, env_b)
            vs = []
            for n in cand:
                if n in e1 and n in e2:
                    t = unify(e1[n].type, e2[n].type)
                    if t is None:
                        fail(st, f"variable {n} has different types after the branches")
                    if n in env and unify(env[n].type, t) is None:
                        fail(st, f"variable {n} changes its type in a branch")
                    vs.append((n, t))
            if not vs:
                fail(st, "if statement without effect on the variables")

            def kend(e):
                return tup_expr([e[n].coq for n, _ in vs])
            a = self.block(body_a, env_a, kend)
            b = self.block(body_b, env_b, kend)
        finally:
            self.depth -= 1
        env2 = dict(env)
        names = []
        for n, t in vs:
            env2, cq = self.bind(env2, n, t, env[n].group if n in env else None)
            names.append(cq)
        rhs = render(a, b, "\n" not in a + b and len(a) + len(b) < 70)
        return let(tup_pat(names), rhs, self.block(rest, env2, k))

    def for_stmt(self, st, env, cont):
        if st.orelse:
            fail(st, "for ... else")
        if not isinstance(st.target, ast.Name):
            fail(st, "loop target that is not a plain name")
        lv = st.target.id
        xs, te = self.iterable(st.iter, env)
        if lv != "_" and lv in env:
            fail(st, f"loop variable {lv} overwrites a local variable")
        if te == "entry" and any(self.is_entry_obj_call(n, lv) for s2 in st.body for n in ast.walk(s2)):
            return self.for_obj_stmt(st, env, xs, cont)
        assigned = self.expand_aliases(target_names(st.body), env, {lv: te})
        if lv in assigned:
            fail(st, f"loop variable {lv} is assigned in the loop body")
        for n in ast.walk(st.iter):
            key = n.id if isinstance(n, ast.Name) else \
                ("self." + n.attr if isinstance(n, ast.Attribute) and isinstance(n.value, ast.Name)
                 and n.value.id == "self" else None)
            if key is not None and key in assigned:
                fail(st, f"{key} is used in the loop header and assigned in the loop body")
        env = self.materialize(env, assigned)      # fields assigned in the body: their incoming values
        state = [n for n in assigned if n in env]
        if not state:
            fail(st, "loop without effect on the variables")
        brk = has_break(st.body)
        ret = any(isinstance(n, ast.Return) for s2 in st.body for n in ast.walk(s2))
        if ret and (brk or self.loops):
            fail(st, "a loop with return that also has break / is nested in a loop")
        if any(isinstance(n, ast.Continue) for s2 in st.body for n in ast.walk(s2)):
            fail(st, "continue")
        if lv == "_":
            env_body, cv = dict(env), "_"
        else:
            env_body, cv = self.bind(env, lv, te)

        def kend(e):
            for n in state:
                if n not in e:
                    fail(st, f"internal: state variable {n} lost")
            t = tup_expr([e[n].coq for n in state])
            if ret:
                return f"inl {paren_arg(t)}"
            return f"({t}, false)" if brk else t
        self.loops.append((state, brk, ret))
        self.depth += 1
        try:
            # types of the state at the end of the body (may refine the type of a [] literal)
            ends = []

            def kcap(e):
                ends.append(e)
                return "_"
            saved = (list(self.field_params), list(self.ever_written), list(self.notes), self.result_type)
            self.block(st.body, env_body, kcap)
            self.field_params, self.ever_written, self.notes, self.result_type = saved
            env_in = dict(env_body)
            for n in state:
                t = env[n].type
                for e in ends:
                    t2 = unify(t, e[n].type)
                    if t2 is None:
                        fail(st, f"variable {n} changes its type in the loop body")
                    t = t2
                env_in[n] = Var(env[n].coq, t, env[n].group)
            body = self.block(st.body, env_in, kend)
        finally:
            self.loops.pop()
            self.depth -= 1
        names_in = [env[n].coq for n in state]
        env2 = dict(env)
        for n in state:
            env2[n] = Var(env_in[n].coq, env_in[n].type, env[n].group)
        comb = "py_for_ret" if ret else "py_for_break" if brk else "py_for"
        fun = f"(fun {tup_pat(names_in)} {cv} =>\n{ind(body, 3)})"
        rhs = f"{comb} {paren_arg(xs)}\n{ind(fun)}\n{ind(tup_expr(names_in))}"
        if ret:
            # a return statement inside the loop ends the function with that result
            return (f"match\n{ind(rhs)}\nwith\n| inr result_ => result_\n"
                    f"| inl {paren_arg(tup_expr(names_in))} =>\n{ind(paren(cont(env2)), 4)}\nend")
        return let(tup_pat(names_in), rhs, cont(env2))

    # ---- the whole function -----------------------------------------------------------
    def translate(self):
        fn = self.fn
        a = fn.args
        if a.vararg or a.kwarg or a.kwonlyargs or a.posonlyargs:
            fail(fn, "parameter list with varargs / keyword-only parameters")
        for p_, d in zip(a.args[len(a.args) - len(a.defaults):], a.defaults):
            if isinstance(d, ast.Constant):
                continue
            # settings: Settings = Settings()  -- the Settings parameter is never evaluated by the translation
            # (its options are arguments of the translated function), so its default does not matter
            if isinstance(d, ast.Call) and isinstance(d.func, ast.Name) and d.func.id in SETTINGS_CLASSES \
                    and not d.args and not d.keywords and isinstance(p_.annotation, ast.Name) \
                    and p_.annotation.id == d.func.id:
                continue
            fail(fn, "parameter default that is not a constant")
        # (a parameter with a constant default is an ordinary explicit argument of the translated function;
        #  a call inside the subset passes it explicitly or the translator inserts the constant)
        decos = [d.id for d in fn.decorator_list if isinstance(d, ast.Name)]
        if len(decos) != len(fn.decorator_list) or any(d not in ("staticmethod",) for d in decos):
            fail(fn, "decorator")
        params = list(a.args)
        is_method = self.cname is not None and "staticmethod" not in decos
        if is_method:
            if not params or params[0].arg != "self":
                fail(fn, "method without self")
            params = params[1:]
        else:
            self.cname = None       # a static method or module-level function has no self
            self.fields = {}
        env = {}
        WORLD_TITLE_FIELDS.clear()
        WORLD_TITLE_FIELDS.update(self.world_fields if is_method else ())
        if is_method and self.world_fields:
            env, _ = self.bind(env, WORLD, "world")
            self.uses_world = True
        explicit = []
        defaults = dict(zip([p_.arg for p_ in a.args][len(a.args) - len(a.defaults):], a.defaults))
        self.param_info = []
        for p in params:
            t = self.mod.annotation(p.annotation)
            special = None
            if p.annotation is None and p.arg in self.opts.get("opaque_params", []):
                special = "opaque"
            elif isinstance(p.annotation, ast.Name) and p.annotation.id in SETTINGS_CLASSES:
                special = "settings"
            if special:
                # never bound: only usable inside abstracted calls / as settings.<group>.<option>
                if any(isinstance(n, ast.Name) and isinstance(n.ctx, ast.Store) and n.id == p.arg
                       for n in ast.walk(fn)):
                    fail(p, f"the parameter {p.arg} is assigned in the function")
                if special == "opaque":
                    self.opaque_params.add(p.arg)
                else:
                    self.settings_params[p.arg] = p.annotation.id
                continue
            if t is None:
                fail(p, "parameter without a type annotation of the subset")
            dflt_ = defaults.get(p.arg)
            if isinstance(dflt_, ast.Constant) and dflt_.value is None and t == "str":
                t = ("opt", t)      # x: str = None  is an Optional[str], whatever the annotation says
            if t == "writer" and WORLD not in env:
                env, _ = self.bind(env, WORLD, "world")
                self.uses_world = True
            env, c = self.bind(env, p.arg, t)
            explicit.append((c, t))
            self.param_info.append((p.arg, t, defaults.get(p.arg)))
            self.explicit_keys.add(p.arg)
            if is_list(t) and p.arg in self.inplace_mutated:
                self.out_params.append(p.arg)
        if fn.returns is not None and not (isinstance(fn.returns, ast.Constant) and fn.returns.value is None):
            rt = self.mod.annotation(fn.returns)
            if rt is None:
                fail(fn.returns, "return annotation")
            self.declared_result = rt
        if not is_method and len(explicit) == 1 and explicit[0][1] == "arg" and self.declared_result is not None:
            self.rec_param = params[0].arg      # a function over an argument context may call itself on children

        def kend(e):
            return self.exit_value(e, fn)
        body = self.block(self.stmts, env, kend)
        binders = []
        if self.uses_world:
            binders.append((WORLD, "world"))
        binders += explicit
        binders += [(n, ty) for n, (ty, _) in self.abstract_params.items()]
        for f in self.fields:
            if f in self.field_params:
                binders.append(("self_" + f.replace(".", "_"), self.field_types[f]))
        rt = coq_type(self.result_type)
        if self.has_raise:
            rt = "option " + coq_type(self.result_type, False)
        name = self.opts.get("name") or self.qual.replace(".", "_")
        sig = " ".join(f"({c} : {coq_type(t)})" for c, t in binders)
        if self.recursive:
            if unify(self.result_type, self.declared_result) is None or self.has_raise:
                fail(fn, "recursive function whose result is not of its declared type")
            c0 = binders[0][0]
            body = (f"py_arg_rec {default_of(self.result_type)}\n"
                    f"  (fun {name} {c0} =>\n{ind(body, 5)})\n  {c0}")
        text = f"Definition {name} {sig} : {rt} :=\n{ind(body)}."
        return name, text, [t for _, t in binders], self.result_type


def class_mro(mod, cname):
    """C3 linearization of a class over the classes of its module (bases outside the module -- ABC, Enum, object --
    carry no methods of interest and are left out)"""
    c = mod.classes[cname]
    bases = [b.id for b in c.bases if isinstance(b, ast.Name) and b.id in mod.classes]
    for b in c.bases:
        if not isinstance(b, ast.Name):
            fail(b, f"base class expression of {cname}")
    seqs = [class_mro(mod, b) for b in bases] + [list(bases)]
    out = [cname]
    while any(seqs):
        seqs = [q for q in seqs if q]
        for q in seqs:
            head = q[0]
            if not any(head in q2[1:] for q2 in seqs):
                break
        else:
            fail(c, f"inconsistent method resolution order for {cname}")
        out.append(head)
        seqs = [[x for x in q if x != head] for q in seqs]
    return out


def resolve_method(mod, cname, mname):
    """(defining class, method name) that cname.mname resolves to by the MRO, or None"""
    if cname not in mod.classes:
        return None
    for k in class_mro(mod, cname):
        for m in mod.classes[k].body:
            if isinstance(m, ast.FunctionDef) and m.name == mname:
                return (k, mname)
    return None


def is_abstract_method(mod, key):
    cname, mname = key
    for m in mod.classes[cname].body:
        if isinstance(m, ast.FunctionDef) and m.name == mname:
            return any(isinstance(d, ast.Name) and d.id == "abstractmethod" for d in m.decorator_list)
    return False


def dotted_name(f):
    """a.b.c for an attribute chain on a plain name, else None"""
    parts = []
    while isinstance(f, ast.Attribute):
        parts.append(f.attr)
        f = f.value
    if isinstance(f, ast.Name):
        parts.append(f.id)
        return ".".join(reversed(parts))
    return None


def paren_arg(x):
    x = x.strip()
    if x.startswith("(") and x.endswith(")") and balanced(x[1:-1]):
        return x
    if x.startswith("[") and x.endswith("]") and balanced(x[1:-1]):
        return x
    if all(ch.isalnum() or ch in "_'." for ch in x):
        return x
    return "(" + x + ")"


def balanced(x):
    """are the brackets of x balanced with depth never below zero (so that (x) is one group)"""
    d = 0
    in_str = False
    for ch in x:
        if ch == '"':
            in_str = not in_str
        if in_str:
            continue
        if ch in "([":
            d += 1
        elif ch in ")]":
            d -= 1
            if d < 0:
                return False
    return d == 0


WORLD_TITLE_FIELDS = set()      # writer fields of the function being translated whose title lives in the world
OBJ_METHODS = {}        # (class, method) -> info: translated methods of documentation objects that take a writer
OBJ_METHOD_NAMES = set()
DISPATCH = {}           # the generated dynamic dispatch: name, method, source file
WORLD_METHODS = {}      # methods that thread the document through a writer FIELD, callable as self.m(..): name -> info
EMITTED_REL = {}        # module-level function -> the source file it was translated from
BASE_LISTENER_NAMES = None     # method names of the generated parser listener (base class of the aggregator)
EMITTED = {}    # module-level functions already translated: name -> ([param types], result type)
METHODS = {}    # methods (without return value) already translated, callable as self.m(..): method name -> info
GLOBAL_NAMES = set()    # global identifiers of the generated file


HEADER = """(* GENERATED by translators/py2coq.py from the Python source of CMinx -- do not edit;
   regenerated on every run.

   Every definition below is the statement-by-statement rendering of one Python function.
   Proofs/SourceMatch.v proves that each of them equals the hand-written model function.

   Translation scheme (one Gallina form per Python construct; combinators in Base/PySem.v):
     x = E                      let x := E in ...              (re-assignment shadows)
     self.f = E                 let self_f := E in ...
     x += E                     let x := x ++ E in / let x := x + E in      (str / int)
     xs.append(E)               let xs := py_append xs E in ...   (and let a := xs in for every alias a of xs)
     xs[-1] = E                 let xs := py_set_last xs E in ...
     for v in XS: BODY          let st := py_for XS (fun st v => BODY) st in ...
                                st = the variables BODY assigns that exist before the loop;
                                py_for_break when BODY contains break: BODY then yields (st, true) at a
                                break and (st, false) at its end.  XS: a list is itself, a str is py_chars,
                                range(a, b) is py_range a b.  The loop variable and variables first assigned
                                in BODY are not visible after the loop (a later use fails the translation).
     if C: A else: B            let vs := if C then A' else B' in ...   vs = the variables A or B assign
                                (defined before, or assigned in both); when a branch ends in break /
                                return / raise, each branch is instead followed by its own copy of the
                                rest of the block.
     return E                   E          raise ...     None  (the function then returns option, results Some)
     f'a{x}b'                   (s 'a') ++ x ++ (s 'b')   (quotes as in Python / Coq), py_str_of_nat around an int x
     E1 + E2                    E1 ++ E2 (str, list)   E1 + E2 (int)
                                A Python int is a natural number here: the subset has no subtraction or
                                negation, constants are >= 0, and a parameter annotated int is taken to be
                                non-negative (get_indents is only called with indent levels).
     ==, != , <, ...            py_str_eq/py_str_ne, py_int_eq/..., <Enum>_eqb
     and / or / not             && / || / negb ; a str or list in a condition is py_truth
     x[i] x[-1] x[n:] x[:-1]    py_index_str / py_list_index, py_last_str / py_list_last, py_slice_from,
                                py_slice_drop_last
     len str(.) map(str, .)     py_len, identity on str / py_str_of_nat on int, py_map_str
     .lstrip .rstrip .split .join .startswith          py_lstrip ... (receiver first)
     [E for v in XS]            py_listcomp (fun v => E) XS
     class C(Enum)              Inductive C with constructors C_<MEMBER> and C_eqb
     w.directive(n, a...)       let '(world, d) := py_w_directive world w n [a...] in ...
     w.text(t) w.field(n, t) w.option(n, v)            let world := py_w_text world w t in ...
                                (an Optional[str] / Enum-or-str text of field is py_str_of_opt / py_str_of_union:
                                Field only formats it with an f-string)
     X is None / X is not None  for a field X: X is Optional (whatever its annotation says);
                                if X is not None: A else: B   is   match X with Some X => A | None => B end
                                and  `X is not None and R`  is the nested  if X is not None: (if R: ..)
     A if C else B              (if C then A else B)
     x in y / x not in y        py_in_str (substring) / py_in_list ; negb
     Union[E, str] (E an Enum)  the sum type E + str ; == E.MEMBER is py_union_is
     textwrap.dedent(CONSTANT)  the constant computed by the translator with Python's own textwrap
     -c, a - b, and what is     an int that may be negative is an integer Z (py_zint_add, py_zint_sub, py_zint_lt ..);
     computed from them         a natural number meeting it is injected with py_zint_of_int.  Indices, slice and
                                range bounds must be natural numbers.  (process_add_test: name_index = -1)
     x[a:-1]                    py_slice_drop_last (py_slice_from x a)
     x in (a, b) / not in       (x == a || x == b) / negb
     [E for v in XS if C]       py_listcomp_if (fun v => C) (fun v => E) XS ; for i, v in enumerate(XS): py_enumerate XS
     for .. : .. return ..      match py_for_ret XS (fun st v => BODY) st with inr r => r | inl st => ... end
                                BODY yields inr <result> at a return statement and inl st at its end
     return (no value), or      the result of a method: the tuple of the fields self.f it assigns anywhere (in order of
     the end of a method        first assignment in the source); a field not assigned on the path taken has its incoming
                                value, and then is also an argument of the translated function
     try: x = xs[e]; y = z ..   if e < len(xs) then (x = xs[e]; y = z ..) else HANDLER      only this shape: e a natural
     except IndexError: HANDLER number, the other statements of the try body plain copies, HANDLER ending in return
     self.logger.error(..) etc. no effect (the arguments are not evaluated)
   Parser contexts (aggregator.py).  A parameter annotated CMakeParser.Command_invocationContext is a
   Model.Parser.cmd; a Single_/Compound_argumentContext, or a parameter annotated ParserRuleContext, is a
   Model.Parser.arg.  Understood on them, and nothing else:
     ctx.single_argument()      py_single_arguments ctx  (list of arg)      a.getText() / ctx.getText()   py_get_text / py_cmd_text
     isinstance(a, CMakeParser.Compound_argumentContext)                    py_is_compound a
     [E for v in X.getChildren() if isinstance(v, (CMakeParser.Single_argumentContext,
                                                   CMakeParser.Compound_argumentContext))]
                                py_listcomp (fun v => E) (py_argument_children X)     (py_cmd_argument_children for a cmd)
     Class.f(v) inside f        recursion: only for a function of one argument context, only on such a child v;
                                Definition f a := py_arg_rec <default> (fun f a => BODY) a     (unrolled depth + 1 times)
   Documentation objects (aggregator.py).  self.documented is a list of Model.DocTypes.entry, and
     GenericCommandDocumentation(n, d, ps)       DocTypes.EGeneric n d ps       CTestDocumentation(n, d, ps)   DocTypes.ECTest n d ps
     VariableDocumentation(n, d, VarType.X, v)   DocTypes.EVariable n d VX v   (v: a str is Some v, None is None)
     OptionDocumentation(n, d, 'bool', v, h)     DocTypes.EOption n d v h      (the third argument must be that constant)
     TestDocumentation(n, d, xf) / SectionDocumentation(n, d, xf)              DocTypes.ETest false/true n d xf [] false
   The ONE aliasing rule: a field annotated Union[DocumentationType, None] (documented_awaiting_function_def)
   may only be assigned a local object that was just appended to self.documented, and then holds the POSITION
   of that object:  let x_index := py_len self_documented in let self_documented := py_append .. in
   let self_f := Aggregator.AwTop x_index in ...   A list stored in a documentation object must not be mutated
   in place anywhere in the function.
   Batch 3 (enterDocumented_module, Documenter.process_docs, document_single_file):
     x.replace(CONST, e) / x.strip()    py_replace x CONST e (CONST a non-empty constant) / py_strip x (Python whitespace)
     re.sub(r'\\.cmake$', '', x)         py_re_sub_cmake_ext x = Naming.strip_cmake_ext x ; no other regular expression
     ctx.Module_docstring().getText()   ctx : a Documented_moduleContext is the text of its Module_docstring token
     ModuleDocumentation(n, d)          DocTypes.EModule n d ;  isinstance(x, ModuleDocumentation) is py_is_module_entry x
     xs.insert(0, e)                    let xs := py_insert_front xs e in ...
     an explicit list parameter that the function mutates in place is returned, before the fields
     self.writer.title = E              let self_writer_title := E in ... : the title of the RSTWriter held in the field
                                        writer is a str variable of the translated function (argument and result)
   References (the aliasing rule in general form): where Python holds references to elements of a list L of
   documentation objects and mutates the objects through them, a reference is the POSITION of the object in L:
     refs = [x for x in L if isinstance(x, ModuleDocumentation)]     let refs := py_refs_where py_is_module_entry L
     L.insert(0, e)  also gives  let refs := py_shift_refs refs  for every such refs ;  L[-1] = v is rejected then
     for r in refs: .. r.name ..        py_entry_name (py_deref L r)       (r.name is None: the constant false, names are str)
     r.name = v                         let L := py_set_ref_name L r v in ...
   Batch 4 (the stateful methods of DocumentationAggregator; combinators in the batch-4 part of Base/PySem.v).
   Object aliasing is rendered by ONE scheme: the documentation objects that the aggregator shares between
   self.documented and its stacks / slots are elements of self.documented, and a second reference to such an object
   is its POSITION in self.documented (append-only, so positions are stable):
     x = C(..); self.documented.append(x)     let x_index := py_len self_documented in let self_documented := py_append ..
                                              (x_index is emitted when x is used again after the append)
     a value of a class in REF_CLASSES (AbstractCommandDefinitionDocumentation, ClassDocumentation) held in a field,
     a dataclass record or a list             nat (the position) ; Union[.., None]: option nat ; a local x stored there: x_index
     @dataclass class D: f1: T1; f2: T2 = c   the pair T1 * T2 ; D(a) is (a, c) ; d.f1 / d.f2 are fst d / snd d
                                              (DefinitionCommand(doc) is (Some doc_index, true); records are not mutated)
     R.has_kwargs = v                         let self_documented := py_ref_update self_documented R (py_entry_set_has_kwargs v)
     R.attributes.append(a) .members. ..      let self_documented := py_ref_update self_documented R (py_entry_add_attribute a)
                                              py_optref_update when R is Optional (unchanged on None, where Python raises)
     R.inner_classes.append(c)                py_entry_add_inner_class c : DocTypes.EClass keeps the names of the inner classes
     isinstance(R, C) for a reference R       C's recognizer on py_deref self_documented R ; py_optref_test for an Optional R
     FunctionDocumentation(n, d, ps, kw) / MacroDocumentation(..)            DocTypes.EFunction false/true n d ps kw
     ClassDocumentation(n, d, supers, [], [], [], [])                        DocTypes.EClass n d supers [] [] [] []
     MethodDocumentation(n, d, parent, types, params, is_ctor)               py_new_method ..   : DocTypes.method
     AttributeDocumentation(n, d, parent, default)                           py_new_attribute .. : DocTypes.attribute
     m = MethodDocumentation(..); R.constructors.append(m) / R.members.append(m)
                                              also  let m_loc := Aggregator.AwMethod R true / false  (the newest
                                              constructor / member of the class at R; checked: no untranslated method of
                                              the class changes such a list), and a later
     self.documented_awaiting_function_def = m      let self_documented_awaiting_function_def := m_loc
     self.settings.G.O                        py_setting_str / py_setting_bool self_settings (s'G.O') : options are looked up
     re.sub(self.settings.G.O, '', x)         py_setting_re_sub self_settings (s'G.O') x    BY NAME in the one settings argument
                                              (config.py must declare the option with that type)
     self.m(a, k=b)                           let '(fields m assigns) := C_m a b (fields m reads) in ...   for a method m of
                                              the same class translated before (defaults of omitted parameters inserted;
                                              match .. with None => None | Some .. when m can raise)
     def m(self, x, flag: bool = False)       a parameter with a constant default is an ordinary argument
   Batch 4, part 2 (enterCommand_invocation):
     try: B  except Exception as e: x = <attribute chain>; self.logger.error(..); raise e
                                              B  (the exception goes on unchanged; nothing else is accepted in the handler)
     xs.pop()   (statement)                   match py_pop xs with None => None | Some xs => ... end     (None: IndexError)
     ctx.Identifier().getText().lower()       py_lower_ascii (py_cmd_identifier ctx)   (.lower() only there: an ASCII identifier)
     the awaiting slot S (the field of type Aggregator.await):
       S is None / S is not None              py_await_is_none S / py_await_is_not_none S
       isinstance(S, MethodDocumentation)     py_await_is_method S
       S.is_macro = v                         let self_documented := py_await_update self_documented S (py_entry_set_is_macro v) (py_method_set_is_macro v)
       S.params.extend(ps)                    .. py_await_update self_documented S (py_entry_extend_params ps) (py_method_extend_params ps)
       S = None                               let S := Aggregator.AwNone
       S = x  for x appended to self.documented   only when x was constructed as Test/SectionDocumentation (AwTop x_index)
     ctx in self.consumed / not in            an abstract bool ARGUMENT ctx_in_self_consumed: membership of a parser context in a
                                              list of contexts is object identity, which Parser.cmd values cannot express; accepted
                                              only when neither the parameter nor the field changes in the function
     KEY in dir(self),  KEY = f'<prefix>{e}'  py_in_list KEY [the attribute names of the class with that prefix, in source order]
                                              (the base classes contribute none: parser/CMakeListener.py is read and checked)
     getattr(self, KEY)(args)                 the if / elif chain over the same names:  if KEY == '<name>': self.<name>(args) ...
                                              else: raise  -- synthesized as Python AST and translated by the ordinary rules; a name
                                              whose method does not take these arguments: raise (TypeError)
     if self.settings.G.__dict__[KEY]: A else: B      match py_setting_dict_bool self_settings (s'G') [the bool options of G with KEY's
                                              prefix] KEY with None => None | Some settings_flag => if settings_flag then A else B end
     a parameter annotated CMakeParser.Documented_commandContext     the pair  str * Parser.cmd : ctx.bracket_doccomment() is
                                              fst ctx (getText() of it: that text), ctx.command_invocation() is snd ctx
     self.consumed.append(<parser context>)   no effect on the translated state: the field only serves the object-identity
                                              tests above (that enterDocumented_command marks its command_invocation, so that
                                              the walker's following enterCommand_invocation sees ctx in self.consumed, is the
                                              model's  agg_step (EDocCmd ..) = enter_documented ; enter_command true  and is
                                              NOT derived from the source)
     A statement that can raise without a raise statement (pop, a call of a method that can raise, the reflective call, the
     __dict__ test) ends its block like raise does: each branch of an enclosing if is followed by its own copy of the rest.
   Batch 5 (the rendering loop: ClassDocumentation.process, the dynamic dispatch, the whole Documenter.process_docs;
   proved equal to the model in Proofs/SourceMatch3.v):
     a field / element annotated MethodDocumentation / AttributeDocumentation      a DocTypes.method / DocTypes.attribute ;
                                              x.f for such an x is the record projection (DocTypes.m_name x ...); the
                                              projections must cover exactly the dataclass fields the source declares
     ClassDocumentation.inner_classes         list str: DocTypes.EClass keeps the NAMES of the inner classes; for an element c,
                                              c.name is py_inner_class_name c (the identity) and every other attribute is rejected
     from .m import f ; f(a, ..)              the function f of src/cminx/m.py translated before (interpreted_text)
     for v in XS: .. v.m(w) ..                for a list field XS of method / attribute objects and a method m translated before
                                              (resolved by the MRO of v's class):  let world := C_m world w (proj1 v) (proj2 v) .. in
                                              inside the ordinary py_for; m must neither assign fields of v nor raise
     w.bulleted_list( *[E for v in XS])       py_w_bulleted_list world w (py_listcomp (fun v => E) XS)     (a starred list)
     x.m(w) for x : DocumentationType         dispatch_<m> world w x : option (wstate * DocTypes.entry), GENERATED from the class
                                              statements of documentation_types.py: one arm per concrete subclass (a class whose m
                                              does not resolve to an @abstractmethod), pattern = the entry constructor of the class
                                              (slot i = dataclass field i), calling the method that the class resolves to by its MRO
                                              (C3 over the classes of the module), which must be translated.  A concrete subclass
                                              without representation stops the translator, except the declared part classes
                                              (Method/AttributeDocumentation) and DanglingDoccomment, for which it checks that
                                              aggregator.py, documenter.py and __init__.py never construct one.  Result: None when
                                              the method raises; else the new document and the object after the call (the fields the
                                              method assigns -- FunctionDocumentation.process appends to self.params -- replaced).
                                              dispatch_<m>_hierarchy records class, MRO, resolved class and kind (pinned in SourceMatch3.v)
     for v in XS: v.m(w)   (v an entry)       match py_for_obj_raise XS (fun st v => match dispatch_m world w v with None => None
                                              | Some (world, v) => Some (st, v) end) st with None => None | Some (st, XS) => .. end :
                                              XS (a plain list variable) afterwards holds the objects as their methods left them; the
                                              dispatched call must be a statement of the loop body itself, the loop not nested
     self.writer used as a writer             (passed to a method, not only the base of .title): the function threads `world`, the
                                              field is the handle argument self_writer, and
     self.writer.title = E                    let world := py_w_set_title world self_writer E in ...   (the title-setter step of the
                                              writer state machine) -- instead of the str variable self_writer_title above
   Batch 5, part 3 (the glue of Documenter: the end of process(), the writer construction of __init__):
     self.m(xs) for a method m of the same     match C_m world xs (fields m reads) with None => None | Some (world, xs, fields m assigns) => ..
     class that threads the document          xs, a list m mutates in place, must be a variable and is rebound (self.process_docs)
     self.f.g  for a field f whose class is   a variable self_f_g of the translated function (argument, and result when assigned /
     imported from a module translated before mutated), typed by that class's own field g  (self.aggregator.documented)
     return E  in a method that threads       the tuple  (world, E, fields assigned)
     the document
     x: str = None  (parameter)               x : option str ;  if x is None: x = E  is  x = E if x is None else x
     settings: Settings = Settings()          the Settings parameter is never evaluated (its options are arguments), nor is its default
     self.f: T = E                            self.f = E   (the annotation declares the field)
     self.f = RSTWriter(t, settings=S)        let world := py_w_new t in let self_f := py_w_top in ..  : the function CREATES the
                                              document (no document argument; `world` is its first result); S must be the Settings
                                              parameter; only at the top level of a function that has no document yet
     a target may select the statements after a given top-level statement, or from the first assignment of a local to the
     last assignment of a field (the fields assigned in between must not be assigned again later in the function)
   Abstracted values: the pure library calls os.path.isdir / os.path.relpath / os.path.basename applied to plain
   parameters that are never assigned, and the options settings.<group>.<option> of a parameter annotated Settings
   (typed by the dataclasses of config.py; a field whose default is None is Optional) are ARGUMENTS of the translated
   function, one per distinct expression, in order of first use: the function is the code's dataflow given those values.
   Parts of a function: a target may select the statements from the first assignment of one variable to the last
   assignment of another (the results being named locals that the function then passes on in a given call, and
   does not assign again), or everything but a given final statement; the generated comment says which.
   Arguments of a translated function: (the RST document `world`, when the function has an
   RSTWriter parameter;) the explicit Python parameters in order; then, for a method, the fields
   self.f that the method reads before assigning them, in the order in which the class declares
   them (the assignments of __init__, or the dataclass fields, base classes first).
   Result: the returned value; for a method without return, the tuple of (world and) the fields it
   assigns, in order of first assignment. *)
From Coq Require Import String List NArith ZArith Bool Arith.
From CMinx Require Import Base.Str Base.PySem.
Import ListNotations.
"""


def emit_enum(name, members):
    lines = [f"(* class {name}(Enum) *)",
             f"Inductive {name} := " + " | ".join(f"{name}_{m}" for m in members) + ".",
             f"Definition {name}_eqb (a b : {name}) : bool :=",
             "  match a, b with"]
    for m in members:
        lines.append(f"  | {name}_{m}, {name}_{m} => true")
    if len(members) > 1:
        lines.append("  | _, _ => false")
    lines.append("  end.")
    lines.append(f"(* str(member), which is also what an f-string shows *)")
    lines.append(f"Definition {name}_str (a : {name}) : str :=")
    lines.append("  match a with")
    for m in members:
        lines.append(f"  | {name}_{m} => {cstr(name + '.' + m)}")
    lines.append("  end.")
    return "\n".join(lines)


SETTINGS_CLASSES = {}      # dataclass name -> {field: (annotation, default)} from config.py


def load_settings_classes(repo):
    path = repo / SETTINGS_FILE
    if not path.is_file():
        raise Unsupported(f"{SETTINGS_FILE}: source file not found")
    for n in ast.parse(path.read_text(encoding="utf-8")).body:
        if isinstance(n, ast.ClassDef) and any(isinstance(d, ast.Name) and d.id == "dataclass"
                                               for d in n.decorator_list):
            SETTINGS_CLASSES[n.name] = {m.target.id: (m.annotation, m.value) for m in n.body
                                        if isinstance(m, ast.AnnAssign) and isinstance(m.target, ast.Name)}


def load_listener_names(repo):
    global BASE_LISTENER_NAMES
    path = repo / LISTENER_FILE
    if path.is_file():
        try:
            tree = ast.parse(path.read_text(encoding="utf-8"))
        except SyntaxError:
            return
        BASE_LISTENER_NAMES = [m.name for n in tree.body if isinstance(n, ast.ClassDef) and n.name == "CMakeListener"
                               for m in n.body if isinstance(m, ast.FunctionDef)]


MODULES = {}    # source file -> Module, for the files translated so far


def emit_dispatch(mod, repo):
    """The dynamic dispatch x.<method>(writer) for x annotated with the root class, as a function over
    Model.DocTypes.entry: one arm per CONCRETE subclass the source declares, calling the method that the class
    resolves to by its MRO.  Everything is read from the class statements of the module; the only declared
    knowledge is how a class is a constructor of DocTypes.entry (ENTRY_CONSTRUCTORS*, slot i = dataclass field i)."""
    root, mname, _ = DISPATCH_ROOT
    if root not in mod.classes:
        raise Unsupported(f"{mod.rel}: the class {root} is not defined")
    rootdef = mod.classes[root]
    tables = dict(ENTRY_CONSTRUCTORS)
    tables.update(ENTRY_CONSTRUCTORS_4)
    name = "dispatch_" + mname
    lines = []
    comment = [f"(* {mod.rel}: the dynamic dispatch  x.{mname}(writer)  for x : {root}  (class {root}, line "
               f"{rootdef.lineno}).",
               f"   One arm per concrete subclass, in source order; class (its MRO) -> the method it resolves to:"]
    arms = []
    seen = set()
    uses_vartype = False
    hierarchy = []      # (class, its MRO, the class whose method it resolves to, kind)
    for cname, cdef in mod.classes.items():
        if cname in mod.enums:
            continue
        mro = class_mro(mod, cname)
        if root not in mro:
            continue
        seen.add(cname)
        key = resolve_method(mod, cname, mname)
        if key is None:
            fail(cdef, f"{cname} has no method {mname}")
        how = f"     {cname} ({' < '.join(mro)}) -> {key[0]}.{key[1]}"
        if is_abstract_method(mod, key):
            if cname in tables or cname in NON_ENTRY_CLASSES:
                fail(cdef, f"{cname}.{mname} resolves to the abstract {key[0]}.{key[1]}, but {cname} is "
                           f"declared as a concrete documentation class")
            comment.append(how + "  [abstract: no instances]")
            hierarchy.append((cname, mro, key[0], "abstract"))
            continue
        if cname in NON_ENTRY_CLASSES:
            why = NON_ENTRY_CLASSES[cname]
            if why == "part":
                if cname not in PART_CLASS_TYPES:
                    fail(cdef, f"{cname} is declared a part of a class entry but has no part type")
                comment.append(how + f"  [not an entry: lives inside a class entry as DocTypes.{PART_CLASS_TYPES[cname]}]")
            else:
                for prel in PRODUCER_FILES:
                    ppath = repo / prel
                    if not ppath.is_file():
                        raise Unsupported(f"{prel}: source file not found")
                    for n in ast.walk(ast.parse(ppath.read_text(encoding="utf-8"))):
                        if isinstance(n, ast.Call) and ((isinstance(n.func, ast.Name) and n.func.id == cname) or
                                                        (isinstance(n.func, ast.Attribute) and n.func.attr == cname)):
                            raise Unsupported(f"{prel}:{n.lineno}: {cname} is constructed here, but it has no "
                                              f"representation in Model.DocTypes.entry")
                comment.append(how + f"  [not an entry: never constructed in {', '.join(PRODUCER_FILES)} (checked)]")
            hierarchy.append((cname, mro, key[0], why))
            continue
        if cname not in tables:
            fail(cdef, f"the concrete subclass {cname} of {root} has no representation in Model.DocTypes.entry "
                       f"(its {mname} resolves to {key[0]}.{key[1]})")
        info = OBJ_METHODS.get(key)
        if info is None:
            fail(cdef, f"{cname}.{mname} resolves to {key[0]}.{key[1]}, which is not translated")
        comment.append(how)
        hierarchy.append((cname, mro, key[0], "entry"))
        head, _, slots = tables[cname]
        src = list(mod.fields(cname).items())
        if len(src) != len(slots):
            fail(cdef, f"{cname} declares the fields {[f_ for f_, _ in src]}, its representation has {len(slots)} slots")
        natural = {"str": "str", "opt": ("opt", "str"), "liststr": ("list", "str"), "bool": "bool"}
        binders, slot_of = [], {}
        for (fname, ftype), slot in zip(src, slots):
            slot_of[fname] = (slot, ftype)
            if slot[0] != "const":
                binders.append("self_" + fname)
        pattern = " ".join([head] + binders)

        def arg_for(attr, want):
            if attr not in slot_of:
                fail(cdef, f"{key[0]}.{key[1]} reads the field {attr}, which {cname} does not declare")
            slot, ftype = slot_of[attr]
            kind = slot[0]
            if kind == "const":
                if isinstance(want, tuple) and want[0] == "union":
                    return f"(inr {paren_arg(pystr(slot[2]))})", False
                if want == "str":
                    return paren_arg(pystr(slot[2])), False
                fail(cdef, f"field {attr} of {cname}: the constant {slot[2]!r} as a value of type {want}")
            if kind == "vartype":
                if want != ("union", "VarType"):
                    fail(cdef, f"field {attr} of {cname}: a DocTypes.vartype as a value of type {want}")
                return f"(inl (VarType_of_model self_{attr}))", False
            nat = natural.get(kind, ftype)
            if ftype is not None and kind in natural and ftype != nat and ("opt", ftype) != nat:
                fail(cdef, f"field {attr} of {cname} is annotated {ftype}, its representation is {nat}")
            if want == nat:
                return "self_" + attr, True
            if want == ("opt", nat):
                return f"(Some self_{attr})", False
            fail(cdef, f"field {attr} of {cname}: representation of type {nat}, {key[0]}.{key[1]} expects {want}")
        args = []
        for attr, want in info["field_params"]:
            a_, _ = arg_for(attr, want)
            uses_vartype = uses_vartype or "VarType_of_model" in a_
            args.append(a_)
        outs = [WORLD]
        for attr, t_ in info["out"]:
            a_, plain = arg_for(attr, t_)
            if not plain:
                fail(cdef, f"{key[0]}.{key[1]} assigns the field {attr}, which has no plain slot in the entry")
            outs.append(a_)
        call = " ".join([info["name"], WORLD, "writer"] + args)
        rebuilt = f"Some ({WORLD}, {pattern})"
        if info["has_raise"]:
            body = (f"match {call} with\n| None => None\n| Some {paren_arg(tup_expr(outs))} => {rebuilt}\nend")
        else:
            body = let(tup_pat(outs), call, rebuilt)
        arms.append(f"  | {pattern} =>\n{ind(body, 6)}")
    for cname in list(tables) + list(NON_ENTRY_CLASSES):
        if cname not in seen:
            raise Unsupported(f"{mod.rel}: {cname} is declared a documentation class but is not a subclass of "
                              f"{root} in the source")
    comment.append(f"   The result is None when the method raises, else the new document and the object after the call")
    comment.append(f"   (a method that assigns fields of its object changes the entry). *)")
    if uses_vartype:
        if "VarType" not in mod.enums or sorted(mod.enums["VarType"]) != sorted(VARTYPES):
            raise Unsupported(f"{mod.rel}: the members of VarType are not {sorted(VARTYPES)}")
        lines.append("(* Model.DocTypes.vartype as the Enum class VarType *)")
        lines.append("Definition VarType_of_model (t : DocTypes.vartype) : VarType :=\n  match t with\n"
                     + "\n".join(f"  | {VARTYPES[m_]} => VarType_{m_}" for m_ in mod.enums["VarType"]) + "\n  end.")
        GLOBAL_NAMES.add("VarType_of_model")
    lines.append("\n".join(comment))
    lines.append(f"Definition {name} ({WORLD} : wstate) (writer : handle) (obj : DocTypes.entry) "
                 f": option (wstate * DocTypes.entry) :=\n  match obj with\n" + "\n".join(arms) + "\n  end.")
    rows = ["  (" + pystr(c_) + ", ([" + "; ".join(pystr(x_) for x_ in m_) + "], (" + pystr(r_) + ", " + pystr(k_) + ")))"
            for c_, m_, r_, k_ in hierarchy]
    lines.append(f"(* the class hierarchy below {root} as read from the source: class, its method resolution order (within "
                 f"the module), the class whose {mname} it resolves to, and how the dispatch treats it *)\n"
                 f"Definition {name}_hierarchy : list (str * (list str * (str * str))) :=\n  [\n  "
                 + ";\n  ".join(rows) + "\n  ].")
    GLOBAL_NAMES.add(name)
    GLOBAL_NAMES.add(name + "_hierarchy")
    DISPATCH.update({"name": name, "method": mname, "root": root, "rel": mod.rel})
    return "\n".join(lines)


def generate(repo):
    load_settings_classes(repo)
    load_listener_names(repo)
    out = [HEADER]
    for rel, names in TARGETS:
        Ctx.file = rel
        path = repo / rel
        if not path.is_file():
            raise Unsupported(f"{rel}: source file not found")
        src = path.read_text(encoding="utf-8")
        mod = Module(rel, ast.parse(src))
        MODULES[rel] = mod
        lines = src.split("\n")
        out.append(f"(* ======== {rel} ======== *)")
        for en, members in mod.enums.items():
            GLOBAL_NAMES.update([en, en + "_eqb", en + "_str"] + [f"{en}_{m}" for m in members])
        # the reference Aggregator.AwMethod r b denotes the NEWEST constructor / member of the class at r: every
        # append to such a list in a class with translated methods must itself be in a translated method
        qnames = {(sp if isinstance(sp, str) else sp[0]) for sp in names}
        for cn, cd in mod.classes.items():
            if not any(q.startswith(cn + ".") for q in qnames):
                continue
            for m in cd.body:
                if isinstance(m, ast.FunctionDef) and f"{cn}.{m.name}" not in qnames:
                    for n in ast.walk(m):
                        if isinstance(n, ast.Call) and isinstance(n.func, ast.Attribute) \
                                and n.func.attr in ("append", "insert", "extend", "pop", "remove", "clear") \
                                and isinstance(n.func.value, ast.Attribute) \
                                and REF_LIST_ATTRS.get(n.func.value.attr, (0, 0, None))[2] is not None:
                            fail(n, f"{cn}.{m.name} changes a .{n.func.value.attr} list but is not translated")
        need_writer = False
        defs = []
        for spec in names:
            q, opts = (spec, {}) if isinstance(spec, str) else spec
            if q not in mod.functions or mod.functions[q][0] is None:
                raise Unsupported(f"{rel}: function {q} not found (or defined twice)")
            fn, cname = mod.functions[q]
            f = Fn(mod, q, fn, cname, opts)
            name, text, ptypes, rtype = f.translate()
            GLOBAL_NAMES.add(name)
            if f.cname is None and not f.uses_world:
                EMITTED[name] = (ptypes, rtype)
                EMITTED_REL[name] = rel
            if f.cname is not None and f.uses_world and not opts and not f.abstract_params \
                    and not f.settings_params and not f.opaque_params and not f.world_fields \
                    and [t_ for _, t_, _ in f.param_info] == ["writer"] \
                    and getattr(f, "result_out_attrs", None) is not None:
                # a method of a documentation object that takes the writer: callable as v.m(w) later on
                OBJ_METHODS[(f.cname, fn.name)] = {
                    "name": name, "has_raise": f.has_raise, "out": f.result_out_attrs,
                    "field_params": [(a_, f.field_types[a_]) for a_ in f.fields if a_ in f.field_params]}
                OBJ_METHOD_NAMES.add(fn.name)
            if f.cname is not None and f.uses_world and f.world_fields and set(opts) <= {"name"} \
                    and not f.abstract_params and not f.settings_params and not f.opaque_params \
                    and not f.has_return and getattr(f, "result_out_attrs", None) is not None:
                # a method that threads the document through a writer field: callable as self.m(..) later on
                WORLD_METHODS[fn.name] = {
                    "cname": f.cname, "name": name, "params": f.param_info, "out_params": list(f.out_params),
                    "world_fields": set(f.world_fields), "has_raise": f.has_raise, "out": f.result_out_attrs,
                    "field_params": [(a_, f.field_types[a_]) for a_ in f.fields if a_ in f.field_params]}
            if f.cname is not None and getattr(f, "result_attrs", None) and not f.abstract_params \
                    and not f.settings_params and not f.opaque_params and not opts:
                METHODS[fn.name] = {"cname": f.cname, "name": name, "params": f.param_info,
                                    "field_params": [(a_, f.field_types[a_]) for a_ in f.fields
                                                     if a_ in f.field_params],
                                    "out": f.result_attrs, "has_raise": f.has_raise}
            need_writer = need_writer or f.uses_world
            comment = [f"(* {rel}, {q} (line {fn.lineno})"]
            if f.has_raise:
                comment.append("   the function can raise: result type option, None = the raise statement")
            if "drop_last" in opts:
                comment.append("   translated: the body without its final statement  "
                               + " ".join(opts["drop_last"].split()))
            if set(opts) == {"name"}:
                comment.append(f"   translated: the WHOLE method, under the name {opts['name']}")
            for wf in sorted(f.world_fields):
                comment.append(f"   self.{wf} is used as a writer: the function threads the RST document `world`; "
                               f"self_{wf} is the handle of that writer, and its title lives in the document")
            if "after_stmt" in opts:
                comment.append(f"   translated: lines {f.stmts[0].lineno}-{f.stmts[-1].end_lineno}, the statements after  "
                               f"{opts['after_stmt']}")
            if "to_field" in opts:
                comment.append(f"   translated: lines {f.stmts[0].lineno}-{f.stmts[-1].end_lineno}, from the first "
                               f"assignment of {opts['from_assign']} to the last one of self.{opts['to_field']}; the "
                               f"fields assigned there are not assigned again in the function")
            if f.creates_world:
                comment.append("   the function constructs the top-level RSTWriter: the new RST document `world` is a result")
            if "from_assign" in opts and "to_assign" in opts:
                comment.append(f"   translated: lines {f.stmts[0].lineno}-{f.stmts[-1].end_lineno}, from the first "
                               f"assignment of {opts['from_assign']} to the last one of {opts['to_assign']}; the "
                               f"results are what the function then passes to  {opts['then_call']}")
            for pn, (pt, src_) in f.abstract_params.items():
                comment.append(f"   argument {pn} : {coq_type(pt)}  stands for  " + src_.replace('"', "'"))
            if getattr(f, "result_fields", None):
                comment.append("   result: " + ", ".join(f.result_fields))
            for n in f.notes:
                comment.append("   note: " + n.replace('"', "'").replace("(*", "( *").replace("*)", "* )"))
            comment[-1] += " *)"
            defs.append("\n".join(comment) + "\n" + text)
        if rel == DISPATCH_ROOT[2]:
            defs.append(emit_dispatch(mod, repo))
        if need_writer:
            out.append("From CMinx Require Import Model.Writer.")
        if any("Parser." in d or "DocTypes." in d or "Aggregator." in d for d in defs):
            out.append("From CMinx Require Model.Lexer Model.Parser Model.DocTypes Model.Aggregator.")
        for en, members in mod.enums.items():
            out.append(emit_enum(en, members))
        out.extend(defs)
    return "\n\n".join(out) + "\n"


def main():
    if len(sys.argv) != 3:
        print("usage: py2coq.py <repo> <outdir>", file=sys.stderr)
        return 2
    repo = Path(sys.argv[1])
    outdir = Path(sys.argv[2])
    try:
        text = generate(repo)
    except Unsupported as e:
        print(f"py2coq: {e}", file=sys.stderr)
        return 1
    except SyntaxError as e:
        print(f"py2coq: cannot parse {Ctx.file}: {e}", file=sys.stderr)
        return 1
    outdir.mkdir(parents=True, exist_ok=True)
    (outdir / "PySource.v").write_text(text)
    return 0


if __name__ == "__main__":
    sys.exit(main())
