#!/usr/bin/env python3
"""negative tests of batch 5: mutate a scratch copy of the Python source, run the translator on it, and when it
still succeeds compile the generated file and the proof files against it; report the first failure"""
import shutil, subprocess, sys, re
from pathlib import Path
ROOT = Path("/tmp/pyrender")
SNAP, COPY = ROOT / "repo_snapshot", ROOT / "repo_copy"
NEGCOQ = ROOT / "negcoq"
DT = "src/cminx/documentation_types.py"
DOC = "src/cminx/documenter.py"

CTORS = '''        if len(self.constructors) > 0:
            d.text("**Additional Constructors**")
            for member in self.constructors:
                member.process(d)

'''
METHS = '''        if len(self.members) > 0:
            d.text("**Methods**")
            for member in self.members:
                member.process(d)

'''
MACRO_PROCESS = '''    def process(self, writer: RSTWriter) -> None:
        param_list = self.params
        if self.has_kwargs:
            param_list.append("**kwargs")
        d = writer.directive(
            "function", f"{self.name}({' '.join(param_list)})")
        d.directive(
            "note",
            "This is a macro, and so does not introduce a new scope.")
        d.text(self.doc)
'''
TESTS = {
    "a_methods_before_constructors": (DT, CTORS + METHS, METHS + CTORS),
    "b_superclass_line_without_newline": (DT, "d.text(bases + '\\n')", "d.text(bases)"),
    "c_inner_class_doc": (DT, 'interpreted_text("class", clazz.name)', 'interpreted_text("class", clazz.doc)'),
    "d_docs_from_second": (DOC, "        for doc in docs:\n            doc.process(self.writer)",
                           "        for doc in docs[1:]:\n            doc.process(self.writer)"),
    "e_dangling_writes_nothing": (DT, "        writer.text(self.doc)\n", "        pass\n"),
    "f_new_subclass": (DT, "@dataclass\nclass MacroDocumentation(",
                       "@dataclass\nclass FooDocumentation(FunctionDocumentation):\n    pass\n\n\n"
                       "@dataclass\nclass MacroDocumentation("),
    "g_macro_inherits_process": (DT, MACRO_PROCESS, ""),
}
AGG = "src/cminx/aggregator.py"
TESTS.update({
    "h_member_process_on_top_writer": (DT, '''            d.text("**Methods**")
            for member in self.members:
                member.process(d)''', '''            d.text("**Methods**")
            for member in self.members:
                member.process(writer)'''),
    "i_section_inherits_process": (DT, '''    def process(self, writer: RSTWriter) -> None:
        d = writer.directive(
            "function",
            f"{self.name}({'EXPECTFAIL' if self.expect_fail else ''})")
        d.directive(
            "warning",
            "This is a CMakeTest section definition, do not call this manually.")
        d.text(self.doc)
''', "    pass\n"),
    "k_new_field_in_method_doc": (DT, '    is_macro: bool = False\n    """Whether the linked command is a macro or a function. If true, a note saying so is generated."""',
                                  '    is_macro: bool = False\n    is_static: bool = False'),
    "l_aggregator_constructs_dangling": (AGG, '            # self.documented.append(DanglingDoccomment("", "\\n".join(cleaned_lines)))',
                                         '            self.documented.append(DanglingDoccomment("", "x"))'),
    "m_macro_subclass_of_function": (DT, "class MacroDocumentation(AbstractCommandDefinitionDocumentation):",
                                     "class MacroDocumentation(FunctionDocumentation):"),
    "n_title_from_module_name": (DOC, "self.writer.title = module_doc.name", "self.writer.title = self.module_name"),
    "o_attributes_skip_first": (DT, "for attribute in self.attributes:", "for attribute in self.attributes[1:]:"),
    "p_class_name_twice": (DT, 'd = writer.directive("py:class", f"{self.name}")', 'd = writer.directive("py:class", f"{self.name}", self.name)'),
    "q_process_twice": (DOC, "            doc.process(self.writer)", "            doc.process(self.writer)\n            doc.process(self.writer)"),
    "r_new_field_in_function_doc": (DT, '    has_kwargs: bool = False\n', '    has_kwargs: bool = False\n    deprecated: bool = False\n'),
})
TESTS.update({
    "s_process_skips_process_docs": (DOC, "        self.process_docs(self.aggregator.documented)\n        return self.writer",
                                     "        return self.writer"),
    "t_module_name_defaults_to_file": (DOC, "            module_name = title\n", "            module_name = file\n"),
    "u_writer_titled_with_file": (DOC, "RSTWriter(title, settings=settings)", "RSTWriter(file, settings=settings)"),
    "v_writer_with_section_level": (DOC, "RSTWriter(title, settings=settings)", "RSTWriter(title, 1, settings=settings)"),
    "w_process_docs_on_copy": (DOC, "self.process_docs(self.aggregator.documented)", "self.process_docs(list(self.aggregator.documented))"),
})
EXTRA = {}

def run(name, spec):
    rel, old, new = spec
    if COPY.exists():
        shutil.rmtree(COPY)
    shutil.copytree(SNAP, COPY)
    p = COPY / rel
    s = p.read_text()
    assert s.count(old) == 1, (name, s.count(old))
    p.write_text(s.replace(old, new))
    # the mutated file must still be valid Python
    compile(p.read_text(), str(p), "exec")
    gen = ROOT / "negtests" / "gen" / name
    gen.mkdir(parents=True, exist_ok=True)
    r = subprocess.run([sys.executable, str(ROOT / "translators/py2coq.py"), str(COPY), str(gen)],
                       capture_output=True, text=True)
    if r.returncode != 0:
        return f"TRANSLATOR FAILS (exit {r.returncode}): {r.stderr.strip()[:600]}"
    if NEGCOQ.exists():
        shutil.rmtree(NEGCOQ)
    shutil.copytree(ROOT / "coq", NEGCOQ)
    shutil.copy(gen / "PySource.v", NEGCOQ / "theories/Gen/PySource.v")
    same = (gen / "PySource.v").read_text() == (ROOT / "coq/theories/Gen/PySource.v").read_text()
    if same:
        return "UNDETECTED: generated file identical"
    for f in ["Gen/PySource", "Proofs/SourceMatch", "Proofs/SourceLinks", "Proofs/SourceMatch2", "Proofs/SourceMatch3"]:
        r = subprocess.run(["timeout", "900", "coqc", "-Q", "theories", "CMinx", f"theories/{f}.v"],
                           cwd=NEGCOQ, capture_output=True, text=True)
        if r.returncode != 0:
            err = r.stderr.strip()
            m = re.search(r'line (\d+)', err)
            where = ""
            if m:
                lines = (NEGCOQ / f"theories/{f}.v").read_text().split("\n")
                ln = int(m.group(1))
                for i in range(ln - 1, -1, -1):
                    mm = re.match(r'\s*(Theorem|Lemma|Example|Corollary|Definition)\s+(\w+)', lines[i])
                    if mm:
                        where = f" in {mm.group(1)} {mm.group(2)}"
                        break
            return f"PROOF BREAKS: {f}.v{where}: " + " ".join(err.split())[:300]
    return "UNDETECTED: everything still compiles"

if __name__ == "__main__":
    names = sys.argv[1:] or list(TESTS)
    for n in names:
        print(f"{n}: {run(n, TESTS[n])}", flush=True)
