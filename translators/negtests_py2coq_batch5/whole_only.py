import sys
sys.path.insert(0, "/tmp/pyrender/translators")
import py2coq
from pathlib import Path
# test-only configuration: without the truncated Documenter.process_docs target (whose drop_last check
# would stop the translator first), to see what the WHOLE-function path does with the mutation
py2coq.TARGETS = [(rel, [sp for sp in names if not (isinstance(sp, tuple) and "drop_last" in sp[1])])
                  for rel, names in py2coq.TARGETS]
try:
    text = py2coq.generate(Path(sys.argv[1]))
    Path(sys.argv[2]).write_text(text)
    print("translated")
except py2coq.Unsupported as e:
    print("FAILS:", str(e)[:400])
