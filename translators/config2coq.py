#!/usr/bin/env python3
"""config_default.yaml + config.py (template, dataclasses) + __init__.py (argparse table, source
order)  ->  Gen/ConfigData.v.   Fail-closed: any syntactic shape not listed here is an error."""
import ast
import sys
from pathlib import Path

import yaml

sys.path.insert(0, str(Path(__file__).resolve().parent))
from coqfmt import cstr, cbool, copt, clist, HEADER


class Unsupported(Exception):
    pass


def yval(v):
    if isinstance(v, bool):
        return f"(YBool {cbool(v)})"
    if isinstance(v, int):
        if v < 0:
            raise Unsupported(f"negative integer {v}")
        return f"(YInt {v}%N)"
    if isinstance(v, str):
        return f"(YStr {cstr(v)})"
    if v is None:
        return "YNull"
    if isinstance(v, list):
        return f"(YList {clist(v, yval)})"
    if isinstance(v, dict):
        if not all(isinstance(k, str) for k in v):
            raise Unsupported(f"mapping with non-string keys {v!r}")
        return f"(YMap {clist(list(v), cstr)})"
    raise Unsupported(f"yaml value {v!r}")


def flatten_yaml(d):
    out = []
    for sec, body in d.items():
        if sec == "logging":
            out.append(("logging", body))
            continue
        if not isinstance(body, dict):
            raise Unsupported(f"section {sec} is not a mapping")
        for k, v in body.items():
            out.append((f"{sec}.{k}", v))
    return out


def dotted(node):
    if isinstance(node, ast.Name):
        return node.id
    if isinstance(node, ast.Attribute):
        return dotted(node.value) + "." + node.attr
    raise Unsupported(ast.dump(node))


def template_type(node):
    """the Coq oty for one template value expression"""
    if isinstance(node, ast.Name) and node.id == "bool":
        return "TBool"
    if isinstance(node, ast.Constant) and isinstance(node.value, str):
        return f"(TString {cstr(node.value)})"
    if isinstance(node, ast.Call):
        fn = dotted(node.func)
        if fn == "confuse.StrSeq" and not node.args and not node.keywords:
            return "TStrSeq"
        if fn == "confuse.TypeTemplate" and len(node.args) == 1 and isinstance(node.args[0], ast.Name) \
                and node.args[0].id == "dict" and not node.keywords:
            return "TDict"
        if fn == "confuse.Optional":
            if len(node.args) != 1:
                raise Unsupported("Optional with != 1 positional argument")
            kw = {k.arg: k.value for k in node.keywords}
            if set(kw) - {"default"}:
                raise Unsupported(f"Optional keywords {sorted(kw)}")
            inner = node.args[0]
            if isinstance(inner, ast.Call) and dotted(inner.func) == "confuse.String" and not inner.args \
                    and not inner.keywords:
                d = kw.get("default")
                if d is None:
                    return "(TOptString None)"
                if isinstance(d, ast.Constant) and isinstance(d.value, str):
                    return f"(TOptString (Some {cstr(d.value)}))"
                raise Unsupported("Optional(String) default is not a string literal")
            if isinstance(inner, ast.Name) and inner.id == "list":
                d = kw.get("default")
                if d is None or (isinstance(d, ast.Tuple) and not d.elts) or (isinstance(d, ast.List) and not d.elts):
                    return "TOptSeq"
                raise Unsupported("Optional(list) default is not empty")
            if isinstance(inner, ast.IfExp):
                # confuse.Filename(cwd=os.getcwd()) if not output_dir_relative_to_config else confuse.Filename(in_source_dir=True)
                t, b, o = inner.test, inner.body, inner.orelse
                ok = (isinstance(t, ast.UnaryOp) and isinstance(t.op, ast.Not) and isinstance(t.operand, ast.Name)
                      and t.operand.id == "output_dir_relative_to_config"
                      and isinstance(b, ast.Call) and dotted(b.func) == "confuse.Filename" and not b.args
                      and [k.arg for k in b.keywords] == ["cwd"]
                      and isinstance(b.keywords[0].value, ast.Call) and dotted(b.keywords[0].value.func) == "os.getcwd"
                      and isinstance(o, ast.Call) and dotted(o.func) == "confuse.Filename" and not o.args
                      and [k.arg for k in o.keywords] == ["in_source_dir"]
                      and isinstance(o.keywords[0].value, ast.Constant) and o.keywords[0].value.value is True)
                if ok and "default" not in kw:
                    return "TOptFilename"
                raise Unsupported("unexpected Filename expression")
    raise Unsupported("template value " + ast.unparse(node))


def read_template(tree):
    fn = next(n for n in tree.body if isinstance(n, ast.FunctionDef) and n.name == "config_template")
    ret = [n for n in ast.walk(fn) if isinstance(n, ast.Return)]
    if len(ret) != 1 or not isinstance(ret[0].value, ast.Dict):
        raise Unsupported("config_template does not return a dict literal")
    out = []
    for k, v in zip(ret[0].value.keys, ret[0].value.values):
        sec = k.value
        if isinstance(v, ast.Dict):
            for k2, v2 in zip(v.keys, v.values):
                out.append((f"{sec}.{k2.value}", template_type(v2)))
        else:
            out.append((sec, template_type(v)))
    return out


def read_dataclasses(tree):
    """{class name: [(field, default expr source)]} for the settings dataclasses"""
    out = {}
    for n in tree.body:
        if isinstance(n, ast.ClassDef) and any(isinstance(d, ast.Name) and d.id == "dataclass" for d in n.decorator_list):
            fields = []
            for st in n.body:
                if isinstance(st, ast.AnnAssign) and isinstance(st.target, ast.Name):
                    fields.append((st.target.id, st.value))
                elif isinstance(st, (ast.Expr, ast.Pass)):
                    continue
                else:
                    raise Unsupported(f"statement in dataclass {n.name}: {ast.unparse(st)}")
            out[n.name] = fields
    return out


def read_dict_to_settings(tree):
    """which dataclass is built from which section, and how (** or positional)"""
    fn = next(n for n in tree.body if isinstance(n, ast.FunctionDef) and n.name == "dict_to_settings")
    out = []
    for st in fn.body:
        if isinstance(st, ast.Assign) and isinstance(st.value, ast.Call) and isinstance(st.value.func, ast.Name):
            call = st.value
            cls = call.func.id
            if call.keywords and call.keywords[0].arg is None and not call.args:
                sub = call.keywords[0].value
                out.append((cls, sub.slice.value, "kwargs"))
            elif len(call.args) == 1 and not call.keywords:
                out.append((cls, call.args[0].slice.value, "positional"))
            else:
                raise Unsupported("dict_to_settings call shape " + ast.unparse(st))
    return out


def read_argparse(tree):
    main = next(n for n in tree.body if isinstance(n, ast.FunctionDef) and n.name == "main")
    args = []
    order = []
    for n in ast.walk(main):
        if isinstance(n, ast.Call) and isinstance(n.func, ast.Attribute):
            if n.func.attr == "add_argument" and isinstance(n.func.value, ast.Name) and n.func.value.id == "parser":
                flags = []
                for a in n.args:
                    if not (isinstance(a, ast.Constant) and isinstance(a.value, str)):
                        raise Unsupported("add_argument positional is not a literal")
                    flags.append(a.value)
                kw = {}
                for k in n.keywords:
                    if k.arg in ("help", "version"):
                        continue
                    if not isinstance(k.value, ast.Constant):
                        raise Unsupported(f"add_argument {k.arg} is not a literal")
                    kw[k.arg] = k.value.value
                if set(kw) - {"dest", "action", "default", "nargs"}:
                    raise Unsupported(f"add_argument keywords {sorted(kw)}")
                args.append((n.lineno, flags, kw))
            elif n.func.attr in ("set_file", "set_args") and isinstance(n.func.value, ast.Name) \
                    and n.func.value.id == "settings":
                order.append((n.lineno, n.func.attr))
    args.sort()
    order.sort()
    return [(f, k) for _, f, k in args], [o for _, o in order]


def main():
    repo, gen = Path(sys.argv[1]), Path(sys.argv[2])
    y = yaml.safe_load((repo / "src/cminx/config_default.yaml").read_text())
    defaults = flatten_yaml(y)
    tree = ast.parse((repo / "src/cminx/config.py").read_text())
    template = read_template(tree)
    dcs = read_dataclasses(tree)
    d2s = read_dict_to_settings(tree)
    itree = ast.parse((repo / "src/cminx/__init__.py").read_text())
    argtable, order = read_argparse(itree)

    out = [HEADER.format(name="config2coq.py", src="config_default.yaml, config.py, __init__.py")]
    out.append("(* config_default.yaml, flattened to section.option *)")
    out.append("Definition yaml_defaults : list (str * yval) :=\n  " +
               clist(defaults, lambda kv: f"({cstr(kv[0])}, {yval(kv[1])})").replace("; (", ";\n   (") + ".\n")
    out.append("(* config_template(): option path and template type, in source order *)")
    out.append("Definition template : list (str * oty) :=\n  " +
               clist(template, lambda kv: f"({cstr(kv[0])}, {kv[1]})").replace("; (", ";\n   (") + ".\n")
    out.append("(* dict_to_settings: (section, field names of the dataclass built from it, true = by keyword expansion) *)")
    secs = []
    for cls, sec, how in d2s:
        if cls not in dcs:
            raise Unsupported(f"dataclass {cls} not found")
        fields = [f for f, _ in dcs[cls]]
        secs.append((sec, fields, how))
    out.append("Definition dataclass_fields : list (str * list str * bool) :=\n  " +
               clist(secs, lambda s: f"({cstr(s[0])}, {clist(s[1], cstr)}, {cbool(s[2] == 'kwargs')})")
               .replace("; (", ";\n   (") + ".\n")

    def action(kw):
        a = kw.get("action")
        if a is None:
            return "AStore"
        if a == "store_true":
            return "AStoreTrue"
        if a == "append":
            return "AAppend"
        if a == "version":
            return "AVersion"
        raise Unsupported(f"argparse action {a}")

    def entry(fk):
        flags, kw = fk
        opts = [f for f in flags if f.startswith("-")]
        pos = [f for f in flags if not f.startswith("-")]
        if pos and opts:
            raise Unsupported("mixed positional/optional flags")
        if "nargs" in kw and kw["nargs"] != "+":
            raise Unsupported("nargs")
        dest = kw.get("dest")
        if dest is None:
            if pos:
                dest = pos[0]
            else:
                longs = [f for f in opts if f.startswith("--")]
                dest = (longs[0][2:] if longs else opts[0][1:]).replace("-", "_")
        has_default = "default" in kw and kw["default"] is not None
        return (f"{{| a_flags := {clist(opts, cstr)}; a_positional := {cbool(bool(pos))}; a_dest := {cstr(dest)}; "
                f"a_action := {action(kw)}; a_default_none := {cbool(not has_default)} |}}")
    out.append("(* parser.add_argument(...) calls of main(), in source order *)")
    out.append("Definition cli_table : list cli_arg :=\n  " + clist(argtable, entry).replace("; {|", ";\n   {|") + ".\n")
    out.append("(* order in which main() stacks the extra sources (later = higher priority) *)")
    out.append("Definition stacking_order : list source_kind :=\n  " +
               clist(order, lambda o: {"set_file": "SrcFile", "set_args": "SrcArgs"}[o]) + ".\n")
    (gen / "ConfigData.v").write_text("\n".join(out))


STUB = """Definition yaml_defaults : list (str * yval) := [].
Definition template : list (str * oty) := [].
Definition dataclass_fields : list (str * list str * bool) := [].
Definition cli_table : list cli_arg := [].
Definition stacking_order : list source_kind := [].
"""

if __name__ == "__main__":
    try:
        main()
    except (Unsupported, StopIteration, KeyError, AttributeError, TypeError, SyntaxError, yaml.YAMLError) as e:
        # fail closed: an empty table, over which the theorems of Properties/C16.v cannot be proved
        Path(sys.argv[2], "ConfigData.v").write_text(
            HEADER.format(name="config2coq.py (FAILED: stub)", src="-") + STUB)
        print("config2coq: unsupported source shape:", repr(e), file=sys.stderr)
        sys.exit(3)
