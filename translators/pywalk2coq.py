#!/usr/bin/env python3
"""document() and document_single_file() of src/cminx/__init__.py  ->  Gen/PyWalkSource.v

    python3 pywalk2coq.py <repo> <outdir>

Reads the CURRENT source with the ast module and renders the two functions statement by statement
as Gallina definitions over the combinators of Base/PyWalkSem.v (the abstract file tree, os.walk,
os.path, pathspec, effects) and Base/PySem.v.  Proofs/WalkSourceMatch.v proves the generated
functions equal to the hand-written model Model/Walk.v.  When somebody edits the Python the
generated term changes and a theorem stops compiling -- or this script stops with a non-zero exit
status naming file:line and the AST node, because the code left the supported subset (fail
closed).  Nothing of the repository is imported or executed.  The output is deterministic.

There is no per-function Coq text in this file: only generic rules per statement / expression
form and the declared tables below (parameter representations, settings attributes, opaque
library calls and their combinators, methods per receiver type, effectful calls, dropped calls).
The scheme is documented in the header this script writes into PyWalkSource.v.
"""
import ast
import sys
from pathlib import Path

sys.path.insert(0, str(Path(__file__).resolve().parent))
from coqfmt import cstr

SOURCE = "src/cminx/__init__.py"

# ---------------------------------------------------------------------------------------
# declared tables

# functions to translate, in dependency order, with the representation of their parameters
TARGETS = [
    ("document_single_file", [("file", "apath"), ("root", "apath"), ("settings", "settings")]),
    ("document", [("input_file", "str"), ("settings", "settings")]),
]

# settings.<group>.<option>  ->  type  (field st_<group>_<option> of PyWalkSem.pysettings)
SETTINGS_ATTRS = {
    "output.directory": ("opt", "apath"),
    "input.recursive": "bool",
    "input.follow_symlinks": "bool",
    "input.auto_exclude_directories_without_cmake": "bool",
    "input.exclude_filters": "filters",
    "rst.prefix": ("opt", "str"),
    "rst.module_path_separator": "str",
    "rst.file_extensions_in_titles": "bool",
    "rst.file_extensions_in_modules": "bool",
}
SETTINGS_SETTERS = {"rst.prefix"}          # attributes that may be assigned

# pure library calls: dotted name -> list of alternatives (argument types, result type, combinator,
# needs the world).  An argument type written  ~T  means: coerced to T.
PURE_CALLS = {
    "os.path.abspath": [(["str"], "apath", "py_os_path_abspath", True),
                        (["apath"], "npath", "py_os_path_abspath_of", False)],
    "os.path.isdir": [(["apath"], "bool", "py_os_path_isdir", True)],
    "os.path.isfile": [(["apath"], "bool", "py_os_path_isfile", True)],
    "os.path.exists": [(["apath"], "bool", "py_os_path_exists", True)],
    # does not follow symbolic links: answered by the field pw_links of the world (assumption A12)
    "os.path.islink": [(["apath"], "bool", "py_os_path_islink", True)],
    "os.path.basename": [(["apath"], "str", "py_os_path_basename", True)],
    "os.path.normpath": [(["apath"], "apath", "py_os_path_normpath", False)],
    "os.path.relpath": [(["apath", "apath"], "rpath", "py_os_path_relpath", False)],
    "os.path.dirname": [(["rpath"], "rpath", "py_os_path_dirname_rel", False)],
    "os.path.join": [(["apath", "~rpath"], "apath", "py_os_path_join", False),
                     (["~rpath", "~rpath"], "rpath", "py_os_path_join_rel", False)],
    "os.scandir": [(["apath"], ("list", "dirent"), "py_os_scandir", True)],
    "sorted": [([("list", "str")], ("list", "str"), "py_sorted", False)],
    "str": [(["rendered"], "str", "py_rendered_str", False)],
}
POLY_COPY = {"copy.copy", "copy.deepcopy"}          # py_copy x : the type of x
PATHSPEC_CALL = "pathspec.PathSpec.from_lines"      # (pathspec.patterns.GitWildMatchPattern, filters)
PATHSPEC_PATTERN = "pathspec.patterns.GitWildMatchPattern"
CMAKE_EXT_SUB = (r"\.cmake$", "")                   # the only re.sub the translator knows
MODULE_CONSTANTS = {"os.curdir": ("py_os_curdir", "rpath")}
# a == b / a != b on opaque values: type -> (combinator, needs the world).  Declared for the normalised
# absolute paths only (results of os.path.abspath on a path): str equality of two such paths is
# decided by the world (assumption A11 of PyWalkSem.v).  T == Optional[T] is py_eq_optional (a value
# is never equal to None).  Paths that did not go through os.path.abspath have no ==.
EQ_COMBINATORS = {"npath": ("py_npath_eq", True)}
WALK_CALL = "os.walk"

# constructors of opaque classes: positional argument types, keyword argument types, result, combinator
CONSTRUCTORS = {
    "RSTWriter": (["~str"], {"settings": "settings"}, "writer", "py_RSTWriter"),
    "Documenter": (["apath", "~str", "~str", "settings"], {}, "documenter", "py_Documenter"),
}

# pure methods: (receiver type, method) -> (argument types, result type, combinator, receiver first)
PURE_METHODS = {
    ("str", "lower"): ([], "str", "py_lower"),
    ("str", "endswith"): (["str"], "bool", "py_endswith"),
    ("spec", "match_file"): (["apath"], "bool", "py_spec_match_file"),
    ("dirent", "is_file"): ([], "bool", "de_is_file"),
}
# attributes of objects: (type, attribute) -> (result type, accessor)
OBJ_ATTRS = {
    ("dirent", "path"): ("apath", "de_path"),
    ("dirent", "name"): ("str", "de_name"),
    ("writer", "title"): ("str", "py_wr_title"),
}
OBJ_ATTR_SETTERS = {("writer", "title"): ("str", "py_wr_set_title")}

# effectful statements.  Every one threads the log.
EFFECT_FUNCS = {"os.makedirs", "print", "exit"}
EFFECT_METHODS = {"write_to_file", "process"}
# calls that are dropped: logger.<level>(...)
LOGGER_NAMES = {"logger"}
LOGGER_METHODS = {"debug", "info", "warning", "error", "critical", "exception"}

# identifiers that must not be used as Gallina binders
RESERVED = {"s", "at", "as", "in", "if", "then", "else", "let", "fun", "forall", "exists", "match",
            "with", "end", "return", "fix", "cofix", "for", "where", "using", "Type", "Prop", "Set",
            "SProp", "nat", "bool", "list", "option", "true", "false", "None", "Some", "str", "map",
            "length", "fst", "snd", "app", "negb", "andb", "orb", "handle", "wstate", "elem", "char",
            "N", "nl", "seq", "concat", "repeat", "rev", "nth", "skipn", "Z", "inl", "inr", "filter",
            "combine", "node", "action", "dot", "slash", "join", "mem", "last", "tt", "unit", "D", "F",
            "anchor", "apath", "rpath", "npath", "stem", "basename", "dirname", "normpath", "prefixed"}
# names the translation itself binds: a Python variable of that name is rejected
INTERNAL = {"world", "docfn", "log", "ctl", "broke"}
LOG = "log"
WORLD = "world"
DOCFN = "docfn"
WALKOBJ = "<the list os.walk descends into>"


class Unsupported(Exception):
    pass


class Ctx:
    file = "?"


def fail(node, why):
    line = getattr(node, "lineno", "?")
    dump = ast.dump(node) if isinstance(node, ast.AST) else repr(node)
    if len(dump) > 400:
        dump = dump[:400] + "..."
    raise Unsupported(f"{Ctx.file}:{line}: unsupported Python ({why}): {dump}")


# ---------------------------------------------------------------------------------------
# types

COQ_TYPES = {"str": "str", "bool": "bool", "int": "nat", "apath": "apath", "rpath": "rpath", "npath": "npath",
             "settings": "pysettings", "spec": "pyspec", "filters": "pyfilters", "writer": "pywriter",
             "dirent": "pydirentry", "documenter": "pydocumenter", "rendered": "str", "log": "pylog"}


def coq_type(t):
    if isinstance(t, tuple):
        if t[0] == "list":
            return f"(list {coq_type(t[1])})"
        if t[0] == "opt":
            return f"(option {coq_type(t[1])})"
        if t[0] == "handle":
            return "handle"
    if t in COQ_TYPES:
        return COQ_TYPES[t]
    raise Unsupported(f"no Coq type for {t!r}")


def show_type(t):
    return repr(t)


def can_coerce(src, dst):
    if src == dst:
        return True
    if isinstance(dst, tuple) and dst[0] == "opt":
        return src == "none" or can_coerce(src, dst[1])
    if (src, dst) in {("rpath", "str"), ("str", "rpath")}:
        return True
    return False


def coerce(text, src, dst, node):
    if src == dst:
        return text
    if isinstance(dst, tuple) and dst[0] == "opt":
        if src == "none":
            return "None"
        if isinstance(src, tuple) and src[0] == "opt":
            fail(node, f"cannot convert {show_type(src)} to {show_type(dst)}")
        return f"(Some {coerce(text, src, dst[1], node)})"
    if src == "rpath" and dst == "str":
        return f"(py_rpath_text {text})"
    if src == "str" and dst == "rpath":
        return f"(py_rpath_of_name {text})"
    fail(node, f"cannot convert {show_type(src)} to {show_type(dst)}")


def unify(a, b, node):
    """least type both can be coerced to"""
    if a == b:
        return a
    if a == "none":
        return b if isinstance(b, tuple) and b[0] == "opt" else ("opt", b)
    if b == "none":
        return unify(b, a, node)
    if isinstance(a, tuple) and a[0] == "opt" and not (isinstance(b, tuple) and b[0] == "opt"):
        return ("opt", unify(a[1], b, node))
    if isinstance(b, tuple) and b[0] == "opt" and not (isinstance(a, tuple) and a[0] == "opt"):
        return unify(b, a, node)
    if {a, b} == {"rpath", "str"}:
        return "str"
    fail(node, f"the branches give the incompatible types {show_type(a)} and {show_type(b)}")


def mangle(name):
    return name + "_" if name in RESERVED else name


def check_name(name, node):
    if name in INTERNAL or name.endswith("_os_walk"):
        fail(node, f"the name {name} is used by the translation itself")


def ind(text, n=2):
    pad = " " * n
    return "\n".join(pad + ln if ln else ln for ln in text.split("\n"))


def tup(names):
    if not names:
        return "tt"
    if len(names) == 1:
        return names[0]
    return "(" + ", ".join(names) + ")"


def let(names, rhs, rest, extra=None):
    """let <pattern of names [, extra]> := rhs in rest"""
    parts = list(names)
    if extra is not None:
        pat = "'(" + tup(parts) + ", " + extra + ")"
    elif not parts:
        pat = "'tt"
    elif len(parts) == 1:
        pat = parts[0]
    else:
        pat = "'" + tup(parts)
    if "\n" in rhs:
        return f"let {pat} :=\n{ind(rhs)} in\n{rest}"
    return f"let {pat} := {rhs} in\n{rest}"


def fun_pat(names):
    if not names:
        return "'tt"
    if len(names) == 1:
        return names[0]
    return "'" + tup(names)


def dotted_name(f):
    parts = []
    while isinstance(f, ast.Attribute):
        parts.append(f.attr)
        f = f.value
    if isinstance(f, ast.Name):
        parts.append(f.id)
        return ".".join(reversed(parts))
    return None


def root_name(e):
    while isinstance(e, ast.Attribute):
        e = e.value
    return e.id if isinstance(e, ast.Name) else None


def is_docstring(st):
    return isinstance(st, ast.Expr) and isinstance(st.value, ast.Constant) and isinstance(st.value.value, str)


def is_logging(st):
    if not (isinstance(st, ast.Expr) and isinstance(st.value, ast.Call)):
        return False
    f = st.value.func
    return (isinstance(f, ast.Attribute) and isinstance(f.value, ast.Name)
            and f.value.id in LOGGER_NAMES and f.attr in LOGGER_METHODS)


def is_minus_one(e):
    return (isinstance(e, ast.UnaryOp) and isinstance(e.op, ast.USub)
            and isinstance(e.operand, ast.Constant) and e.operand.value == 1
            and not isinstance(e.operand.value, bool))


def may_exit(stmts):
    """a break / continue / return of THIS level (not inside the body of a nested loop)"""
    for st in stmts:
        if isinstance(st, (ast.Break, ast.Continue, ast.Return)):
            return True
        if isinstance(st, ast.If) and (may_exit(st.body) or may_exit(st.orelse)):
            return True
        if isinstance(st, ast.For):
            for sub in ast.walk(ast.Module(body=st.body, type_ignores=[])):
                if isinstance(sub, ast.Return):
                    fail(sub, "return inside a loop")
            if may_exit(st.orelse):
                return True
    return False


def definite(stmts):
    """names definitely assigned (by a plain assignment) when the statements end normally"""
    out = []
    for st in stmts:
        if isinstance(st, ast.Assign) and len(st.targets) == 1 and isinstance(st.targets[0], ast.Name):
            if st.targets[0].id not in out:
                out.append(st.targets[0].id)
        elif isinstance(st, ast.AnnAssign) and isinstance(st.target, ast.Name) and st.value is not None:
            if st.target.id not in out:
                out.append(st.target.id)
        elif isinstance(st, ast.If) and st.orelse:
            a, b = definite(st.body), definite(st.orelse)
            for n in a:
                if n in b and n not in out:
                    out.append(n)
    return out


class Env:
    def __init__(self):
        self.vars = {}            # python name -> type
        self.walk_alias = None    # the python name that still denotes the list os.walk handed out
        self.walkobj = None       # the Gallina variable holding that list object
        self.owned = set()        # settings-typed names bound to copy.deepcopy(..) in this function:
                                  # the only settings objects whose attributes may be assigned

    def copy(self):
        e = Env()
        e.vars = dict(self.vars)
        e.walk_alias = self.walk_alias
        e.walkobj = self.walkobj
        e.owned = set(self.owned)
        return e


class Ret:
    """what a statement list hands to its context: the values of these names [and how it ended]"""

    def __init__(self, names, req, abn):
        self.names = names
        self.req = req            # name -> required type, or None (first pass: collect)
        self.abn = abn
        self.seen = []            # the types found at every exit (first pass)


class Translator:
    def __init__(self, funcs):
        self.funcs = funcs        # name -> (params, effectful) of already translated functions

    # ------------------------------------------------------------------ expressions
    def expr(self, e, env):
        if isinstance(e, ast.Constant):
            v = e.value
            if v is None:
                return "None", "none"
            if isinstance(v, bool):
                return ("true" if v else "false"), "bool"
            if isinstance(v, str):
                return cstr(v), "str"
            if isinstance(v, int) and v >= 0:
                return str(v), "int"
            fail(e, "constant")
        if isinstance(e, ast.Name):
            if e.id in env.vars:
                return mangle(e.id), env.vars[e.id]
            fail(e, f"the name {e.id} is not (definitely) defined here")
        if isinstance(e, ast.Attribute):
            return self.attribute(e, env)
        if isinstance(e, ast.Call):
            return self.call(e, env)
        if isinstance(e, ast.BinOp) and isinstance(e.op, ast.Add):
            a, ta = self.expr(e.left, env)
            b, tb = self.expr(e.right, env)
            if can_coerce(ta, "str") and can_coerce(tb, "str") and "none" not in (ta, tb):
                return f"({coerce(a, ta, 'str', e)} ++ {coerce(b, tb, 'str', e)})", "str"
            fail(e, f"+ on {show_type(ta)} and {show_type(tb)}")
        if isinstance(e, ast.UnaryOp) and isinstance(e.op, ast.Not):
            a, ta = self.expr(e.operand, env)
            if ta != "bool":
                fail(e, f"not on {show_type(ta)}")
            return f"(negb {a})", "bool"
        if isinstance(e, ast.BoolOp):
            parts = []
            for v in e.values:
                a, ta = self.expr(v, env)
                if ta != "bool":
                    fail(v, f"and/or on {show_type(ta)}")
                parts.append(a)
            op = " && " if isinstance(e.op, ast.And) else " || "
            return "(" + op.join(parts) + ")", "bool"
        if isinstance(e, ast.Compare):
            return self.compare(e, env)
        if isinstance(e, ast.IfExp):
            return self.ifexp(e, env)
        if isinstance(e, ast.ListComp):
            return self.listcomp(e, env)
        if isinstance(e, ast.Subscript):
            return self.subscript(e, env)
        fail(e, "expression form")

    def attribute(self, e, env):
        d = dotted_name(e)
        r = root_name(e)
        if d in MODULE_CONSTANTS and r not in env.vars:
            return MODULE_CONSTANTS[d]
        if r is not None and env.vars.get(r) == "settings":
            path = d.split(".", 1)[1]
            if path not in SETTINGS_ATTRS:
                fail(e, f"settings attribute {path} is not in the declared table")
            return f"(st_{path.replace('.', '_')} {mangle(r)})", SETTINGS_ATTRS[path]
        v, tv = self.expr(e.value, env)
        if (tv, e.attr) in OBJ_ATTRS:
            ty, acc = OBJ_ATTRS[(tv, e.attr)]
            return f"({acc} {v})", ty
        fail(e, f"attribute {e.attr} of {show_type(tv)}")

    def args_for(self, node, args, alts, env):
        """translate args against the alternatives (types, result, combinator, world)"""
        vals = [self.expr(a, env) for a in args]
        for types, res, comb, needs_world in alts:
            if len(types) != len(vals):
                continue
            ok = True
            for (v, tv), want in zip(vals, types):
                if isinstance(want, str) and want.startswith("~"):
                    if tv == "none" or not can_coerce(tv, want[1:]):
                        ok = False
                elif tv != want:
                    ok = False
            if not ok:
                continue
            texts = []
            for a, (v, tv), want in zip(args, vals, types):
                if want == "~rpath" and isinstance(a, ast.Constant) and isinstance(a.value, str):
                    # a constant str as a path: the empty string, or one component
                    if a.value == "":
                        texts.append("py_rpath_empty")
                    elif "/" in a.value or a.value in (".", ".."):
                        fail(a, "a constant path argument must be one plain component or the empty string")
                    else:
                        texts.append(coerce(v, tv, "rpath", node))
                elif isinstance(want, str) and want.startswith("~"):
                    texts.append(coerce(v, tv, want[1:], node))
                else:
                    texts.append(v)
            head = comb + (f" {WORLD}" if needs_world else "")
            return f"({head} {' '.join(texts)})" if texts else head, res
        fail(node, "argument types " + ", ".join(show_type(t) for _, t in vals)
             + " match no declared alternative")

    def call(self, e, env):
        f = e.func
        d = dotted_name(f)
        r = root_name(f)
        is_local = r in env.vars
        if d is not None and not is_local:
            if d in PURE_CALLS:
                if e.keywords:
                    fail(e, "keyword arguments")
                return self.args_for(e, e.args, PURE_CALLS[d], env)
            if d in POLY_COPY:
                if len(e.args) != 1 or e.keywords:
                    fail(e, "copy arguments")
                v, tv = self.expr(e.args[0], env)
                if tv in ("writer", "documenter") or (isinstance(tv, tuple) and tv[0] == "handle"):
                    fail(e, "copy of an object with identity")
                if tv == "settings" and d != "copy.deepcopy":
                    fail(e, "shallow copy of the settings object (it shares the section objects with the "
                            "original: an attribute assignment on the copy would be seen through the original; "
                            "settings objects are values in the translation, only copy.deepcopy is one)")
                return f"(py_copy {v})", tv
            if d == PATHSPEC_CALL:
                if len(e.args) != 2 or e.keywords or dotted_name(e.args[0]) != PATHSPEC_PATTERN:
                    fail(e, "PathSpec.from_lines is only known with GitWildMatchPattern")
                v, tv = self.expr(e.args[1], env)
                if tv != "filters":
                    fail(e, "PathSpec.from_lines on something that is not the exclude filters")
                return f"(py_pathspec_from_lines {v})", "spec"
            if d == "re.sub":
                if (len(e.args) == 3 and not e.keywords
                        and all(isinstance(a, ast.Constant) for a in e.args[:2])
                        and (e.args[0].value, e.args[1].value) == CMAKE_EXT_SUB):
                    v, tv = self.expr(e.args[2], env)
                    return f"(py_re_sub_cmake_ext {coerce(v, tv, 'str', e)})", "str"
                fail(e, "re.sub is only known with the pattern \\.cmake$ and the empty replacement")
            if d in CONSTRUCTORS:
                ptypes, ktypes, res, comb = CONSTRUCTORS[d]
                if len(e.args) != len(ptypes) or sorted(k.arg for k in e.keywords) != sorted(ktypes):
                    fail(e, f"arguments of {d}")
                texts = []
                for a, want in zip(e.args, ptypes):
                    v, tv = self.expr(a, env)
                    if want.startswith("~"):
                        texts.append(coerce(v, tv, want[1:], a))
                    elif tv != want:
                        fail(a, f"argument of {d}: {show_type(tv)}, expected {want}")
                    else:
                        texts.append(v)
                for k in sorted(ktypes):
                    kw = [x for x in e.keywords if x.arg == k][0]
                    v, tv = self.expr(kw.value, env)
                    if tv != ktypes[k]:
                        fail(kw.value, f"keyword {k} of {d}")
                    texts.append(v)
                return f"({comb} {' '.join(texts)})", res
            fail(e, f"call of {d}: not in the declared tables (or effectful, which is only allowed as a statement)")
        # a method call
        if not isinstance(f, ast.Attribute):
            fail(e, "call")
        if e.keywords:
            fail(e, "keyword arguments of a method")
        recv, tr = self.expr(f.value, env)
        m = f.attr
        if m == "join" and tr == "str" and len(e.args) == 1:
            v, tv = self.expr(e.args[0], env)
            if tv != ("list", "str"):
                fail(e, "join of something that is not a list of str")
            return f"(py_join {recv} {v})", "str"
        if m == "split" and tr == "str" and len(e.args) == 1:
            a = e.args[0]
            if not (isinstance(a, ast.Constant) and isinstance(a.value, str) and len(a.value) == 1):
                fail(e, "split is only known with a constant separator of one character")
            return f"(py_split {recv} {cstr(a.value)})", ("list", "str")
        if m == "endswith" and tr == "apath" and len(e.args) == 1:
            a = e.args[0]
            if not (isinstance(a, ast.Constant) and isinstance(a.value, str) and a.value
                    and "/" not in a.value):
                fail(e, "endswith on a path is only known with a non-empty constant suffix without slash")
            return f"(py_apath_endswith {recv} {cstr(a.value)})", "bool"
        if (tr, m) in PURE_METHODS:
            types, res, comb = PURE_METHODS[(tr, m)]
            if len(types) != len(e.args):
                fail(e, f"arguments of {m}")
            texts = [recv]
            for a, want in zip(e.args, types):
                v, tv = self.expr(a, env)
                if tv != want:
                    fail(a, f"argument of {m}: {show_type(tv)}, expected {want}")
                texts.append(v)
            return f"({comb} {' '.join(texts)})", res
        fail(e, f"method {m} of {show_type(tr)}")

    def none_test(self, e, env):
        """X is None / X is not None for a variable X:  (name, type, positive) or None"""
        if (isinstance(e, ast.Compare) and len(e.ops) == 1 and isinstance(e.ops[0], (ast.Is, ast.IsNot))
                and isinstance(e.comparators[0], ast.Constant) and e.comparators[0].value is None
                and isinstance(e.left, ast.Name)):
            if e.left.id not in env.vars:
                fail(e.left, f"the name {e.left.id} is not defined here")
            return e.left.id, env.vars[e.left.id], isinstance(e.ops[0], ast.IsNot)
        return None

    def compare(self, e, env):
        if len(e.ops) != 1:
            fail(e, "chained comparison")
        nt = self.none_test(e, env)
        if nt is not None:
            name, ty, positive = nt
            if isinstance(ty, tuple) and ty[0] == "opt":
                return f"({'py_is_not_none' if positive else 'py_is_none'} {mangle(name)})", "bool"
            if ty == "none":
                fail(e, "None test on None")
            t = f"(py_is_not_none_value {mangle(name)})"
            return (t if positive else f"(negb {t})"), "bool"
        op = e.ops[0]
        if isinstance(op, (ast.Eq, ast.NotEq)):
            a, ta = self.expr(e.left, env)
            b, tb = self.expr(e.comparators[0], env)
            if ta == "rpath" and tb == "rpath":
                t = f"(py_rpath_eq {a} {b})"
                return (t if isinstance(op, ast.Eq) else f"(negb {t})"), "bool"
            if ta in ("str", "rpath") and tb in ("str", "rpath"):
                c = "py_str_eq" if isinstance(op, ast.Eq) else "py_str_ne"
                return f"({c} {coerce(a, ta, 'str', e)} {coerce(b, tb, 'str', e)})", "bool"
            for base in EQ_COMBINATORS:
                comb, needs_world = EQ_COMBINATORS[base]
                head = f"{comb} {WORLD}" if needs_world else comb
                eq = f"({head})" if needs_world else head
                if ta == base and tb == base:
                    t = f"({head} {a} {b})"
                elif ta == base and tb == ("opt", base):
                    t = f"(py_eq_optional {eq} {a} {b})"
                elif ta == ("opt", base) and tb == base:
                    t = f"(py_eq_optional {eq} {b} {a})"
                else:
                    continue
                return (t if isinstance(op, ast.Eq) else f"(negb {t})"), "bool"
            fail(e, f"comparison of {show_type(ta)} and {show_type(tb)}")
        fail(e, "comparison operator")

    def ifexp(self, e, env):
        nt = self.none_test(e.test, env)
        if nt is not None and isinstance(nt[1], tuple) and nt[1][0] == "opt":
            name, ty, positive = nt
            env_some = env.copy()
            env_some.vars[name] = ty[1]
            some_e, none_e = (e.body, e.orelse) if positive else (e.orelse, e.body)
            a, ta = self.expr(some_e, env_some)
            b, tb = self.expr(none_e, env)
            t = unify(ta, tb, e)
            return (f"(match {mangle(name)} with Some {mangle(name)} => {coerce(a, ta, t, e)} "
                    f"| None => {coerce(b, tb, t, e)} end)"), t
        c, tc = self.expr(e.test, env)
        if tc != "bool":
            fail(e.test, "condition that is not a bool")
        a, ta = self.expr(e.body, env)
        b, tb = self.expr(e.orelse, env)
        t = unify(ta, tb, e)
        return f"(if {c} then {coerce(a, ta, t, e)} else {coerce(b, tb, t, e)})", t

    def listcomp(self, e, env):
        if len(e.generators) != 1 or e.generators[0].is_async:
            fail(e, "list comprehension with several generators")
        g = e.generators[0]
        if not isinstance(g.target, ast.Name):
            fail(e, "comprehension target")
        it, ti = self.expr(g.iter, env)
        if not (isinstance(ti, tuple) and ti[0] == "list"):
            fail(g.iter, "comprehension over something that is not a list")
        v = g.target.id
        check_name(v, g.target)
        if v in env.vars:
            fail(g.target, "comprehension variable shadows a local variable")
        inner = env.copy()
        inner.vars[v] = ti[1]
        conds = []
        for c in g.ifs:
            t, tt_ = self.expr(c, inner)
            if tt_ != "bool":
                fail(c, "comprehension condition that is not a bool")
            conds.append(t)
        elt, te = self.expr(e.elt, inner)
        f = f"(fun {mangle(v)} => {elt})"
        if conds:
            p = f"(fun {mangle(v)} => {' && '.join(conds)})"
            return f"(py_listcomp_if {p} {f} {it})", ("list", te)
        return f"(py_listcomp {f} {it})", ("list", te)

    def subscript(self, e, env):
        v, tv = self.expr(e.value, env)
        if not (isinstance(tv, tuple) and tv[0] == "list" and tv[1] == "str"):
            fail(e, "subscript of something that is not a list of str")
        sl = e.slice
        if isinstance(sl, ast.Slice):
            if sl.lower is None and sl.step is None and is_minus_one(sl.upper):
                return f"(py_slice_drop_last {v})", tv
            fail(e, "slice other than [:-1]")
        if isinstance(sl, ast.Constant) and isinstance(sl.value, int) and not isinstance(sl.value, bool) \
                and sl.value >= 0:
            return f"(py_list_index ([] : str) {v} {sl.value})", "str"
        if is_minus_one(sl):
            return f"(py_list_last ([] : str) {v})", "str"
        fail(e, "subscript")

    # ------------------------------------------------------------------ statements: analysis
    def has_effect(self, node):
        for sub in ast.walk(node):
            if isinstance(sub, ast.Call):
                d = dotted_name(sub.func)
                if d in EFFECT_FUNCS or (d in self.funcs and self.funcs[d][1]):
                    return True
                if isinstance(sub.func, ast.Attribute) and sub.func.attr in EFFECT_METHODS:
                    return True
        return False

    def targets(self, stmts, env):
        """names assigned, mutated in place, or (log) affected by the statements, in order"""
        out = []
        owners = {n: t[1] for n, t in env.vars.items() if isinstance(t, tuple) and t[0] == "handle"}
        writers = {n for n, t in env.vars.items() if t == "writer"}

        def add(n):
            if n not in out:
                out.append(n)

        def visit(st):
            if is_docstring(st) or is_logging(st):
                return
            if isinstance(st, (ast.Break, ast.Continue, ast.Return)):
                return
            if self.has_effect(st) and not isinstance(st, (ast.If, ast.For)):
                add(LOG)
            if isinstance(st, (ast.Assign, ast.AnnAssign)):
                tg = st.targets[0] if isinstance(st, ast.Assign) else st.target
                if isinstance(st, ast.Assign) and len(st.targets) != 1:
                    fail(st, "multiple assignment targets")
                if isinstance(tg, ast.Name):
                    v = st.value
                    if (isinstance(v, ast.Call) and isinstance(v.func, ast.Attribute)
                            and v.func.attr == "directive" and isinstance(v.func.value, ast.Name)):
                        o = v.func.value.id
                        o = owners.get(o, o)
                        owners[tg.id] = o
                        add(o)
                    elif isinstance(v, ast.Call) and dotted_name(v.func) == "RSTWriter":
                        writers.add(tg.id)
                    add(tg.id)
                elif isinstance(tg, ast.Attribute) and root_name(tg) is not None:
                    add(root_name(tg))
                else:
                    fail(st, "assignment target")
                return
            if isinstance(st, ast.Expr) and isinstance(st.value, ast.Call):
                f = st.value.func
                if isinstance(f, ast.Attribute) and isinstance(f.value, ast.Name):
                    x = f.value.id
                    if f.attr == "remove":
                        add(x)
                    elif x in owners:
                        add(owners[x])
                return
            if isinstance(st, ast.If):
                for sub in st.body + st.orelse:
                    visit(sub)
                return
            if isinstance(st, ast.For):
                for sub in st.body + st.orelse:
                    visit(sub)
                return
            fail(st, "statement form")

        for st in stmts:
            visit(st)
        return out

    # ------------------------------------------------------------------ statements: translation
    def emit_ret(self, env, ret, ctl, node):
        vals, types = [], {}
        for n in ret.names:
            if n == WALKOBJ:
                text, ty = env.walkobj, ("list", "str")
            else:
                if n not in env.vars:
                    fail(node, f"the variable {n} is needed after this block but may be undefined here")
                text, ty = mangle(n), env.vars[n]
            types[n] = ty
            if ret.req is not None:
                text = coerce(text, ty, ret.req[n], node)
            vals.append(text)
        ret.seen.append(types)
        t = tup(vals)
        return f"({t}, {ctl})" if ret.abn else t

    def block(self, stmts, env, ret, node, walk_top=False):
        return self.seq(list(stmts), env.copy(), ret, node, walk_top)

    def seq(self, stmts, env, ret, node, walk_top):
        if not stmts:
            return self.emit_ret(env, ret, "CNormal", node)
        st, rest = stmts[0], stmts[1:]
        if is_docstring(st) or is_logging(st) or isinstance(st, ast.Pass):
            return self.seq(rest, env, ret, st, walk_top)
        if isinstance(st, (ast.Break, ast.Continue, ast.Return)):
            if rest:
                fail(rest[0], "statement after break / continue / return")
            if not ret.abn:
                fail(st, "internal: abnormal exit in a block that was analysed as normal")
            if isinstance(st, ast.Return) and st.value is not None:
                fail(st, "return with a value")
            ctl = {ast.Break: "CBreak", ast.Continue: "CContinue", ast.Return: "CReturn"}[type(st)]
            return self.emit_ret(env, ret, ctl, st)
        bindings = self.stmt(st, env, walk_top)        # updates env
        env_here = env.copy()
        rest_text = self.seq(rest, env, ret, st, walk_top)
        text = rest_text
        for names, rhs, abn in reversed(bindings):
            if abn:
                if not ret.abn:
                    fail(st, "internal: abnormal statement in a block that was analysed as normal")
                # env after the statement is the env the pass-through sees
                passthru = self.emit_ret(env_here, ret, "ctl", st)
                body = (f"match ctl with\n| CNormal =>\n{ind(text, 4)}\n| _ => {passthru}\nend")
                text = let(names, rhs, body, extra="ctl")
            else:
                text = let(names, rhs, text)
        return text

    def bind(self, env, name, ty, node, walk_top, snapshot):
        """the python name is (re)bound by an assignment; snapshot: list collecting extra lets"""
        check_name(name, node)
        if env.walk_alias == name:
            if not walk_top:
                fail(node, "the list os.walk descends into is rebound inside a nested block "
                           "(the translation cannot tell statically which object the name denotes afterwards)")
            obj = mangle(name) + "_os_walk"
            snapshot.append(([obj], mangle(name), False))
            env.walkobj = obj
            env.walk_alias = None
        env.vars[name] = ty

    def stmt(self, st, env, walk_top):
        """-> list of (bound names, right-hand side, may exit abnormally); updates env"""
        out = []
        if isinstance(st, (ast.Assign, ast.AnnAssign)):
            if isinstance(st, ast.Assign):
                if len(st.targets) != 1:
                    fail(st, "multiple assignment targets")
                tg = st.targets[0]
            else:
                tg = st.target
                if st.value is None:
                    fail(st, "annotation without value")
            self.assign(tg, st.value, st, env, walk_top, out)
        elif isinstance(st, ast.Expr) and isinstance(st.value, ast.Call):
            self.call_stmt(st.value, st, env, out)
        elif isinstance(st, ast.If):
            self.if_stmt(st, env, out)
        elif isinstance(st, ast.For):
            self.for_stmt(st, env, out)
        else:
            fail(st, "statement form")
        return out

    def owner_handle(self, name, env, node):
        """a writer / directive variable as (owning writer variable, handle term)"""
        ty = env.vars.get(name)
        if ty == "writer":
            return name, "py_wr_top"
        if isinstance(ty, tuple) and ty[0] == "handle":
            return ty[1], mangle(name)
        fail(node, f"{name} is not a writer or a directive")

    def assign(self, tg, value, st, env, walk_top, out):
        if isinstance(tg, ast.Attribute):
            r = root_name(tg)
            if r is None or r not in env.vars:
                fail(st, "assignment target")
            tr = env.vars[r]
            v, tv = self.expr(value, env)
            if tr == "settings":
                if r not in env.owned:
                    fail(st, f"assignment to an attribute of the settings object {r}, which is not a "
                             "copy.deepcopy made in this function: the caller (main() hands the same object to "
                             "every input) would see the change, and the translation treats settings as values")
                path = dotted_name(tg).split(".", 1)[1]
                if path not in SETTINGS_SETTERS:
                    fail(st, f"assignment to settings attribute {path}")
                v = coerce(v, tv, SETTINGS_ATTRS[path], st)
                out.append(([mangle(r)], f"set_st_{path.replace('.', '_')} {mangle(r)} {v}", False))
                return
            if isinstance(tg.value, ast.Name) and (tr, tg.attr) in OBJ_ATTR_SETTERS:
                want, comb = OBJ_ATTR_SETTERS[(tr, tg.attr)]
                out.append(([mangle(r)], f"{comb} {mangle(r)} {coerce(v, tv, want, st)}", False))
                return
            fail(st, "assignment target")
        if not isinstance(tg, ast.Name):
            fail(st, "assignment target")
        name = tg.id
        # x = w.directive(name, ...)
        if (isinstance(value, ast.Call) and isinstance(value.func, ast.Attribute)
                and isinstance(value.func.value, ast.Name)
                and (env.vars.get(value.func.value.id) == "writer"
                     or (isinstance(env.vars.get(value.func.value.id), tuple)
                         and env.vars[value.func.value.id][0] == "handle"))):
            if value.func.attr != "directive" or value.keywords or not value.args:
                fail(st, "only x = w.directive(name, args...) is known on writers in an assignment")
            owner, h = self.owner_handle(value.func.value.id, env, st)
            args = []
            for a in value.args:
                v, tv = self.expr(a, env)
                args.append(coerce(v, tv, "str", a))
            snap = []
            self.bind(env, name, ("handle", owner), st, walk_top, snap)
            out.extend(snap)
            out.append(([mangle(owner), mangle(name)],
                        f"py_wr_directive {mangle(owner)} {h} {args[0]} [{'; '.join(args[1:])}]", False))
            return
        # x = d.process()
        if (isinstance(value, ast.Call) and isinstance(value.func, ast.Attribute)
                and value.func.attr in EFFECT_METHODS):
            recv, tr = self.expr(value.func.value, env)
            if not (tr == "documenter" and value.func.attr == "process" and not value.args and not value.keywords):
                fail(st, "effectful method in an assignment: only x = documenter.process() is known")
            snap = []
            self.bind(env, name, "rendered", st, walk_top, snap)
            out.extend(snap)
            out.append(([LOG, mangle(name)], f"py_documenter_process {WORLD} {DOCFN} {LOG} {recv}", False))
            return
        if self.has_effect(value):
            fail(st, "effectful call inside an expression")
        v, tv = self.expr(value, env)
        if tv == "none":
            fail(st, "assignment of None (the type of the variable is not known)")
        if isinstance(value, ast.Name) and (isinstance(tv, tuple) and tv[0] in ("list", "handle")
                                            or tv in ("writer",)):
            fail(st, "assignment creates a second reference to a mutable object")
        if isinstance(value, ast.Name) and tv == "settings":
            fail(st, "assignment creates a second reference to the settings object (an attribute assignment "
                     "through one name would be seen through the other; use copy.deepcopy)")
        snap = []
        self.bind(env, name, tv, st, walk_top, snap)
        if (tv == "settings" and isinstance(value, ast.Call) and dotted_name(value.func) == "copy.deepcopy"):
            env.owned.add(name)
        else:
            env.owned.discard(name)
        out.extend(snap)
        out.append(([mangle(name)], v, False))

    def call_stmt(self, c, st, env, out):
        f = c.func
        d = dotted_name(f)
        r = root_name(f)
        if d is not None and r not in env.vars:
            if d == "os.makedirs":
                kws = {k.arg: k.value for k in c.keywords}
                if (len(c.args) != 1 or set(kws) != {"exist_ok"}
                        or not (isinstance(kws["exist_ok"], ast.Constant) and kws["exist_ok"].value is True)):
                    fail(st, "os.makedirs is only known as os.makedirs(path, exist_ok=True)")
                v, tv = self.expr(c.args[0], env)
                if tv != "apath":
                    fail(st, "os.makedirs of something that is not an absolute path")
                out.append(([LOG], f"py_os_makedirs {LOG} {v}", False))
                return
            if d == "print":
                if len(c.args) != 1 or c.keywords:
                    fail(st, "print is only known with one argument")
                v, tv = self.expr(c.args[0], env)
                out.append(([LOG], f"py_print {LOG} {coerce(v, tv, 'str', st)}", False))
                return
            if d == "exit":
                if len(c.args) != 1 or c.keywords or not is_minus_one(c.args[0]):
                    fail(st, "exit is only known as exit(-1)")
                out.append(([LOG], f"py_exit_minus_one {LOG}", False))
                return
            if d in self.funcs:
                params, effectful = self.funcs[d]
                if not effectful or c.keywords or len(c.args) != len(params):
                    fail(st, f"call of {d}")
                texts = []
                for a, (pn, pt) in zip(c.args, params):
                    v, tv = self.expr(a, env)
                    if tv != pt:
                        fail(a, f"argument {pn} of {d}: {show_type(tv)}, expected {show_type(pt)}")
                    texts.append(v)
                out.append(([LOG], f"{mangle(d)} {LOG} {' '.join(texts)}", False))
                return
            fail(st, f"call statement {d}: not in the declared tables")
        if not (isinstance(f, ast.Attribute) and isinstance(f.value, ast.Name)):
            fail(st, "call statement")
        x, m = f.value.id, f.attr
        tx = env.vars.get(x)
        if c.keywords:
            fail(st, "keyword arguments of a method")
        if m == "remove" and tx == ("list", "str"):
            if len(c.args) != 1:
                fail(st, "remove arguments")
            v, tv = self.expr(c.args[0], env)
            if tv != "str":
                fail(st, "remove of something that is not a str")
            out.append(([mangle(x)], f"py_list_remove {mangle(x)} {v}", False))
            return
        if m == "write_to_file" and tx in ("writer", "rendered"):
            if len(c.args) != 1:
                fail(st, "write_to_file arguments")
            v, tv = self.expr(c.args[0], env)
            if tv != "apath":
                fail(st, "write_to_file to something that is not an absolute path")
            comb = "py_wr_write_to_file" if tx == "writer" else "py_rendered_write_to_file"
            out.append(([LOG], f"{comb} {LOG} {mangle(x)} {v}", False))
            return
        if isinstance(tx, tuple) and tx[0] == "handle":
            owner, h = self.owner_handle(x, env, st)
            if m == "text" and len(c.args) == 1:
                v, tv = self.expr(c.args[0], env)
                out.append(([mangle(owner)], f"py_wr_text {mangle(owner)} {h} {coerce(v, tv, 'str', st)}", False))
                return
            if m == "option" and len(c.args) == 2:
                n, tn = self.expr(c.args[0], env)
                v, tv = self.expr(c.args[1], env)
                if tv == "int":
                    v = f"(py_str_of_nat {v})"        # the value is formatted by str()
                else:
                    v = coerce(v, tv, "str", st)
                out.append(([mangle(owner)],
                            f"py_wr_option {mangle(owner)} {h} {coerce(n, tn, 'str', st)} {v}", False))
                return
        fail(st, f"method statement {m} on {show_type(tx)}")

    def outs_of(self, stmts_lists, st, env):
        tg = self.targets([x for l in stmts_lists for x in l], env)
        before = [n for n in tg if n in env.vars or n == LOG]
        new = []
        if len(stmts_lists) == 2 and stmts_lists[1]:
            a, b = definite(stmts_lists[0]), definite(stmts_lists[1])
            new = [n for n in a if n in b and n not in env.vars]
        return before + new

    def two_pass(self, outs, abn, st, make, before_types):
        """translate with make(ret) twice: first to find the types at the exits, then with the
        unified types required"""
        ret1 = Ret(outs, None, abn)
        make(ret1)
        req = {}
        for n in outs:
            ts = [seen[n] for seen in ret1.seen]
            t = ts[0]
            for u in ts[1:]:
                t = unify(t, u, st)
            req[n] = t
        ret2 = Ret(outs, req, abn)
        return make(ret2), req

    def if_stmt(self, st, env, out):
        abn = may_exit(st.body) or may_exit(st.orelse)
        outs = self.outs_of([st.body, st.orelse], st, env)
        if env.walk_alias is not None:
            for sub in ast.walk(st):
                if isinstance(sub, (ast.Assign, ast.AnnAssign)):
                    tgs = sub.targets if isinstance(sub, ast.Assign) else [sub.target]
                    for t in tgs:
                        if isinstance(t, ast.Name) and t.id == env.walk_alias:
                            fail(sub, "the list os.walk descends into is rebound inside a nested block "
                                      "(the translation cannot tell statically which object the name "
                                      "denotes afterwards)")
        nt = self.none_test(st.test, env)

        def make(ret):
            if nt is not None and isinstance(nt[1], tuple) and nt[1][0] == "opt":
                name, ty, positive = nt
                env_some = env.copy()
                env_some.vars[name] = ty[1]
                some_b, none_b = (st.body, st.orelse) if positive else (st.orelse, st.body)
                a = self.block(some_b, env_some, ret, st)
                b = self.block(none_b, env, ret, st)
                return (f"match {mangle(name)} with\n| Some {mangle(name)} =>\n{ind(a, 4)}\n"
                        f"| None =>\n{ind(b, 4)}\nend")
            c, tc = self.expr(st.test, env)
            if tc != "bool":
                fail(st.test, "condition that is not a bool")
            a = self.block(st.body, env, ret, st)
            b = self.block(st.orelse, env, ret, st)
            return f"if {c} then\n{ind(a)}\nelse\n{ind(b)}"

        text, req = self.two_pass(outs, abn, st, make, env.vars)
        for n in outs:
            if n != LOG:
                env.vars[n] = req[n]
        out.append(([mangle(n) for n in outs], text, abn))

    def for_stmt(self, st, env, out):
        if isinstance(st.iter, ast.Call) and dotted_name(st.iter.func) == WALK_CALL \
                and root_name(st.iter.func) not in env.vars:
            self.walk_stmt(st, env, out)
            return
        if not isinstance(st.target, ast.Name):
            fail(st, "loop target")
        it, ti = self.expr(st.iter, env)
        if not (isinstance(ti, tuple) and ti[0] == "list"):
            fail(st.iter, "loop over something that is not a list")
        v = st.target.id
        check_name(v, st.target)
        if v in env.vars or v == env.walk_alias:
            fail(st.target, "the loop variable shadows a variable that exists before the loop")
        body_tg = self.targets(st.body, env)
        if isinstance(st.iter, ast.Name) and st.iter.id in body_tg:
            fail(st, "the loop body mutates or rebinds the list it iterates over")
        if env.walk_alias is not None:
            for sub in ast.walk(ast.Module(body=st.body + st.orelse, type_ignores=[])):
                if isinstance(sub, (ast.Assign, ast.AnnAssign)):
                    tgs = sub.targets if isinstance(sub, ast.Assign) else [sub.target]
                    for t in tgs:
                        if isinstance(t, ast.Name) and t.id == env.walk_alias:
                            fail(sub, "the list os.walk descends into is rebound inside a nested block "
                                      "(the translation cannot tell statically which object the name "
                                      "denotes afterwards)")
        sv = [n for n in body_tg if n in env.vars or n == LOG]
        body_abn = may_exit(st.body)
        env_b = env.copy()
        env_b.vars[v] = ti[1]
        req = {n: env.vars[n] for n in sv}
        ret_b = Ret(sv, req, body_abn)
        body = self.block(st.body, env_b, ret_b, st)
        svm = [mangle(n) for n in sv]
        fun = f"(fun {fun_pat(svm)} {mangle(v)} =>\n{ind(body, 4)})"
        if not st.orelse:
            if body_abn:
                out.append((svm, f"fst (py_for_ctl {it} {fun} {tup(svm)})", False))
            else:
                out.append((svm, f"py_for {it} {fun} {tup(svm)}", False))
            return
        # for ... else
        if not body_abn:
            fail(st, "for/else without break")
        else_abn = may_exit(st.orelse)
        else_tg = self.targets(st.orelse, env)
        outs = sv + [n for n in else_tg if (n in env.vars or n == LOG) and n not in sv]
        req_o = {n: env.vars[n] for n in outs}
        ret_o = Ret(outs, req_o, else_abn)
        env_after_loop = env.copy()
        done = self.emit_ret(env_after_loop, ret_o, "CNormal", st)
        els = self.block(st.orelse, env_after_loop, ret_o, st)
        loop = f"py_for_ctl {it} {fun} {tup(svm)}"
        text = let(svm, loop, f"if broke then {done}\nelse\n{ind(els)}", extra="broke")
        out.append(([mangle(n) for n in outs], text, else_abn))

    def walk_stmt(self, st, env, out):
        c = st.iter
        kws = {k.arg: k.value for k in c.keywords}
        if (len(c.args) != 1 or set(kws) != {"topdown", "followlinks"}
                or not (isinstance(kws["topdown"], ast.Constant) and kws["topdown"].value is True)):
            fail(st, "os.walk is only known as os.walk(top, topdown=True, followlinks=...)")
        if st.orelse:
            fail(st, "else clause of the os.walk loop")
        top, tt_ = self.expr(c.args[0], env)
        fl, tf = self.expr(kws["followlinks"], env)
        if tt_ != "apath" or tf != "bool":
            fail(st, "os.walk arguments")
        tg = st.target
        if not (isinstance(tg, ast.Tuple) and len(tg.elts) == 3 and all(isinstance(x, ast.Name) for x in tg.elts)):
            fail(st, "the os.walk loop target must be three names")
        r, d, f = (x.id for x in tg.elts)
        for n in (r, d, f):
            check_name(n, st)
            if n in env.vars:
                fail(st, "an os.walk loop variable shadows an existing variable")
        if env.walk_alias is not None or env.walkobj is not None:
            fail(st, "nested os.walk")
        env_b = env.copy()
        env_b.vars[r] = "apath"
        env_b.vars[d] = ("list", "str")
        env_b.vars[f] = ("list", "str")
        env_b.walk_alias = d
        env_b.walkobj = mangle(d)
        body_tg = self.targets(st.body, env_b)
        sv = [n for n in body_tg if n in env.vars or n == LOG]
        if not sv:
            fail(st, "an os.walk loop without any effect")
        req = {n: env.vars[n] for n in sv}
        req[WALKOBJ] = ("list", "str")
        ret_b = Ret(sv + [WALKOBJ], req, True)
        body = self.block(st.body, env_b, ret_b, st, walk_top=True)
        svm = [mangle(n) for n in sv]
        fun = (f"(fun {mangle(r)} {mangle(d)} {mangle(f)} {fun_pat(svm)} =>\n{ind(body, 4)})")
        out.append((svm, f"py_os_walk {WORLD} {top} {fl}\n{ind(fun)}\n  {tup(svm)}", False))

    # ------------------------------------------------------------------ functions
    def function(self, fd, params):
        if [a.arg for a in fd.args.args] != [p for p, _ in params] or fd.args.vararg or fd.args.kwarg \
                or fd.args.kwonlyargs or fd.args.defaults:
            fail(fd, "the parameters differ from the declared table")
        env = Env()
        for p, t in params:
            check_name(p, fd)
            env.vars[p] = t
        env.vars[LOG] = "log"
        abn = may_exit(fd.body)
        ret = Ret([LOG], {LOG: "log"}, abn)
        body = self.block(fd.body, env, ret, fd)
        if abn:
            body = f"fst (\n{ind(body)})"
        ps = " ".join(f"({mangle(p)} : {coq_type(t)})" for p, t in params)
        return f"Definition {mangle(fd.name)} ({LOG} : pylog) {ps} : pylog :=\n{ind(body)}."


HEADER = """(* GENERATED by translators/pywalk2coq.py from {src} -- do not edit; regenerated on every run.

   Scheme (one rule per Python form; the combinators are those of Base/PyWalkSem.v and Base/PySem.v):

     def f(params): BODY            Definition f (log : pylog) (params) : pylog := BODY
                                    (the functions only act through effects; the result is the log)
     x = E                          let x := E in ...
     x.a.b = E  (settings)          let x := set_st_a_b x E in ...
     w.title = E (writer)           let w := py_wr_set_title w E in ...
     xs.remove(e)                   let xs := py_list_remove xs e in ...      (in-place mutation of a
                                    list no other name refers to = rebinding the name)
     d = w.directive(n)             let '(w, d) := py_wr_directive w h n [] in ...   d is a handle into w
     d.option(n, v) / d.text(t)     let w := py_wr_option w d n v in ... (the owning writer is updated)
     effectful call                 let log := <combinator> log args in ...
     logger.<level>(...)            dropped
     if C: A else: B                let '(vars) := if C then A' else B' in ...   vars = the variables the
                                    statement assigns that exist before it, and the new ones both branches
                                    assign; X is not None on an Optional X is a match that unwraps X
     for v in XS: BODY              py_for XS (fun vars v => BODY') vars
       with break / continue        BODY' yields (vars, CNormal | CContinue | CBreak): py_for_ctl
       with else                    let '(vars, broke) := py_for_ctl .. in if broke then .. else ELSE'
     a block that may break / continue / return yields (vars, ctl); after a statement that may do so
                                    match ctl with CNormal => the rest | _ => (vars, ctl) end
     for r, ds, fs in os.walk(top, topdown=True, followlinks=fl): BODY
                                    py_os_walk world top fl (fun r ds fs vars => BODY') vars
                                    BODY' yields ((vars, OBJ), ctl) where OBJ is the list object os.walk
                                    handed out as ds: the variable ds while the name has only been mutated
                                    in place; the first REBINDING ds = E (only allowed directly in the loop
                                    body) is rendered  let ds_os_walk := ds in let ds := E in  and OBJ is
                                    ds_os_walk from then on (os.walk does not see the rebound name);
                                    fl and the symbolic links of the world decide which of the names left
                                    in OBJ os.walk descends into (assumption A12 of PyWalkSem.v)
     paths                          abspath/isdir/... : apath (anchored) and rpath (relative); a str used as a
                                    path argument is py_rpath_of_name, an rpath used as a str py_rpath_text
     os.path.islink(P)              py_os_path_islink world P : the symbolic links of the world (pw_links, A12)
     os.path.abspath(P)  P a path   py_os_path_abspath_of P : npath, a normalised absolute path; only those
                                    have == (py_npath_eq world a b, decided by where the world says the output
                                    directory is); a == b with b Optional: py_eq_optional (py_npath_eq world) a b
     X if C else Y                  if C then X else Y;  X if V is not None else Y: match V with Some V => X | None => Y
                                    end (the types of the branches are unified: T and None give option T)
   world and docfn are the section variables: the abstract file tree and Documenter(..).process().to_text(). *)
From Coq Require Import String List NArith ZArith Bool Arith.
From CMinx Require Import Base.Str Base.PySem Base.PyWalkSem Model.Writer Model.Walk.
Import ListNotations.

Section PyWalkSource.
  Variable {world} : pyworld.
  Variable {docfn} : pydocfn.

"""


def generate(repo):
    path = Path(repo) / SOURCE
    Ctx.file = str(path)
    tree = ast.parse(path.read_text(encoding="utf-8"), filename=str(path))
    defs = {n.name: n for n in tree.body if isinstance(n, ast.FunctionDef)}
    funcs = {}
    parts = []
    for name, params in TARGETS:
        if name not in defs:
            raise Unsupported(f"{path}: function {name} not found")
        tr = Translator(funcs)
        text = tr.function(defs[name], params)
        parts.append(f"(* {SOURCE}:{defs[name].lineno}  def {name} *)\n" + ind(text))
        funcs[name] = (params, True)
    out = HEADER.format(src=SOURCE, world=WORLD, docfn=DOCFN)
    out += "\n\n".join(parts)
    out += "\n\nEnd PyWalkSource.\n"
    return out


def main():
    if len(sys.argv) != 3:
        print(__doc__)
        return 2
    try:
        text = generate(sys.argv[1])
    except Unsupported as ex:
        print(f"pywalk2coq: {ex}", file=sys.stderr)
        return 1
    except (OSError, SyntaxError) as ex:
        print(f"pywalk2coq: cannot read the source: {ex}", file=sys.stderr)
        return 1
    out = Path(sys.argv[2])
    out.mkdir(parents=True, exist_ok=True)
    (out / "PyWalkSource.v").write_text(text, encoding="utf-8")
    return 0


if __name__ == "__main__":
    sys.exit(main())
