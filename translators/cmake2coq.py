#!/usr/bin/env python3
"""cmake/cminx.cmake -> Gen/CMinxCMake.v : the body of cminx_gen_rst as a Model.CMakeLang AST.
Own tokenizer for the subset; anything outside the subset is an error (fail-closed)."""
import re
import sys
from pathlib import Path

sys.path.insert(0, str(Path(__file__).resolve().parent))
from coqfmt import cstr, cbool, clist


class Unsupported(Exception):
    pass


def tokenize(text):
    """[('id', name) | ('(',) | (')',) | ('arg', quoted, raw)]"""
    toks = []
    i, n = 0, len(text)
    while i < n:
        c = text[i]
        if c in " \t\r\n":
            i += 1
        elif c == "#":
            m = re.match(r"#\[(=*)\[", text[i:])
            if m:
                close = "]" + m.group(1) + "]"
                j = text.find(close, i + len(m.group(0)))
                if j < 0:
                    raise Unsupported("unterminated bracket comment")
                i = j + len(close)
            else:
                j = text.find("\n", i)
                i = n if j < 0 else j + 1
        elif c == "(":
            toks.append(("(",))
            i += 1
        elif c == ")":
            toks.append((")",))
            i += 1
        elif c == '"':
            j = i + 1
            while j < n and text[j] != '"':
                if text[j] == "\\":
                    raise Unsupported("escape sequence in quoted argument")
                j += 1
            if j >= n:
                raise Unsupported("unterminated string")
            toks.append(("arg", True, text[i + 1:j]))
            i = j + 1
        else:
            m = re.match(r"[^\s()#\"\\\[\]]+", text[i:])
            if not m:
                raise Unsupported(f"character {c!r}")
            toks.append(("arg", False, m.group(0)))
            i += len(m.group(0))
    return toks


def commands(toks):
    """[(name, [args])] -- no nested parentheses in the subset"""
    out = []
    i = 0
    while i < len(toks):
        t = toks[i]
        if t[0] != "arg" or t[1] or not re.fullmatch(r"[A-Za-z_][A-Za-z0-9_]*", t[2]):
            raise Unsupported(f"expected a command name, got {t}")
        if i + 1 >= len(toks) or toks[i + 1][0] != "(":
            raise Unsupported("expected '('")
        j = i + 2
        args = []
        while j < len(toks) and toks[j][0] != ")":
            if toks[j][0] == "(":
                raise Unsupported("nested parentheses")
            args.append(toks[j])
            j += 1
        if j >= len(toks):
            raise Unsupported("missing ')'")
        out.append((t[2], args))
        i = j + 1
    return out


def frags(raw):
    out = []
    pos = 0
    for m in re.finditer(r"\$\{([A-Za-z0-9_]+)\}", raw):
        if m.start() > pos:
            out.append(("lit", raw[pos:m.start()]))
        out.append(("var", m.group(1)))
        pos = m.end()
    if pos < len(raw):
        out.append(("lit", raw[pos:]))
    for k, v in out:
        if k == "lit" and ("$" in v or "@" in v):
            raise Unsupported(f"unsupported reference syntax in {raw!r}")
    return out


def carg(tok):
    _, quoted, raw = tok
    fs = clist(frags(raw), lambda f: f"FLit {cstr(f[1])}" if f[0] == "lit" else f"FVar {cstr(f[1])}")
    return f"{{| ca_quoted := {cbool(quoted)}; ca_frags := {fs} |}}"


def plain(tok):
    if tok[1] or "$" in tok[2]:
        raise Unsupported(f"expected a plain word, got {tok}")
    return tok[2]


def stmts(cmds, i, closers):
    out = []
    while i < len(cmds):
        name, args = cmds[i]
        low = name.lower()
        if low in closers:
            return out, i
        if low == "set":
            if not args:
                raise Unsupported("set() without arguments")
            extra = [plain(a) for a in args[1:] if not a[1] and a[2] in ("PARENT_SCOPE", "CACHE")]
            if extra:
                raise Unsupported("set(... PARENT_SCOPE/CACHE)")
            out.append(f"SSet {cstr(plain(args[0]))} {clist(args[1:], carg)}")
            i += 1
        elif low == "list":
            if len(args) < 2 or plain(args[0]) != "APPEND":
                raise Unsupported("list() other than APPEND")
            out.append(f"SListAppend {cstr(plain(args[1]))} {clist(args[2:], carg)}")
            i += 1
        elif low == "if":
            if len(args) == 2 and not args[0][1] and args[0][2] == "IS_DIRECTORY":
                cond = f"CIsDirectory {carg(args[1])}"
            elif len(args) == 3 and not args[1][1] and args[1][2] == "GREATER":
                cond = f"CGreater {carg(args[0])} {carg(args[2])}"
            else:
                raise Unsupported("if() condition " + " ".join(a[2] for a in args))
            body, j = stmts(cmds, i + 1, {"endif", "else", "elseif"})
            if j >= len(cmds) or cmds[j][0].lower() != "endif":
                raise Unsupported("if() without plain endif()")
            out.append(f"SIf ({cond}) {clist(body, lambda x: '(' + x + ')')}")
            i = j + 1
        elif low == "execute_process":
            out.append(f"SExec {clist(args, carg)}")
            i += 1
        else:
            raise Unsupported(f"command {name}() inside cminx_gen_rst")
    return out, i


HEADER = ("(* GENERATED by translators/cmake2coq.py from cmake/cminx.cmake -- do not edit; regenerated on every run *)\n"
          "From Coq Require Import String List NArith Bool.\n"
          "From CMinx Require Import Base.Str Model.CMakeLang.\n"
          "Import ListNotations.\n\n")

STUB = "Definition gen_rst_def : cm_function := {| fn_name := []; fn_params := []; fn_body := [] |}.\n"


def main():
    repo, gen = Path(sys.argv[1]), Path(sys.argv[2])
    cmds = commands(tokenize((repo / "cmake/cminx.cmake").read_text()))
    start = [i for i, (n, a) in enumerate(cmds) if n.lower() == "function" and a and plain(a[0]) == "cminx_gen_rst"]
    if len(start) != 1:
        raise Unsupported("cminx_gen_rst not defined exactly once")
    i = start[0]
    params = [plain(a) for a in cmds[i][1][1:]]
    body, j = stmts(cmds, i + 1, {"endfunction"})
    if j >= len(cmds):
        raise Unsupported("missing endfunction()")
    text = HEADER + "Definition gen_rst_def : cm_function :=\n" \
        f"  {{| fn_name := {cstr('cminx_gen_rst')};\n     fn_params := {clist(params, cstr)};\n     fn_body :=\n       " \
        + clist(body, lambda x: x).replace("; S", ";\n        S") + " |}.\n"
    (gen / "CMinxCMake.v").write_text(text)


if __name__ == "__main__":
    try:
        main()
    except (Unsupported, IndexError) as e:
        Path(sys.argv[2], "CMinxCMake.v").write_text(HEADER.replace("GENERATED", "STUB (translator FAILED)") + STUB)
        print("cmake2coq: unsupported source shape:", repr(e), file=sys.stderr)
        sys.exit(3)
