"""Generators: CMake modules as nested ASTs (G_mod), argument forms (G_lex), doccomment
bodies (G_doc), layouts/trivia.  Every random choice comes from the rng passed in."""
import random

IDENT_START = "abcdefghijklmnopqrstuvwxyzABCDEFGHIJKLMNOPQRSTUVWXYZ_"
IDENT_CHARS = IDENT_START + "0123456789"
NONASCII = ["é", "ß", "λ", "ж", "中", "文", "🙂", "ı", "K", "ñ", "à", " ", " ", "é"]

_ORIG = {}


def set_ascii(on):
    """restrict every text alphabet to ASCII (used by checks whose property does not
    quantify over non-ASCII text, so that a decoding defect is reported by C01/C05 only)"""
    g = globals()
    for name in ("NONASCII", "QUOTED_PIECES", "DOC_WORDS", "COMMENT_TEXTS", "BRACKET_COMMENT_BODIES",
                 "BRACKET_PIECES"):
        if name not in _ORIG:
            _ORIG[name] = list(g[name])
        g[name][:] = [x for x in _ORIG[name] if x.isascii()] if on else _ORIG[name]
        if not g[name]:
            g[name][:] = ["e"]


# ---------------------------------------------------------------------------
# arguments

def rand_ident(rng, lo=1, hi=8):
    n = rng.randint(lo, hi)
    return rng.choice(IDENT_START) + "".join(rng.choice(IDENT_CHARS) for _ in range(n - 1))


UNQ_SPECIALS = list(";[]$@<>=-+./:,*{}!%^&|~?'`")


def rand_unquoted(rng):
    """a valid Unquoted_argument that CMake also treats as one unquoted argument (no legacy forms)"""
    n = rng.randint(1, 7)
    out = []
    for i in range(n):
        r = rng.random()
        if r < 0.5:
            out.append(rng.choice(IDENT_CHARS))
        elif r < 0.75:
            c = rng.choice(UNQ_SPECIALS)
            out.append(c)
        elif r < 0.85:
            out.append(rng.choice(["\\;", "\\ ", "\\(", "\\)", "\\#", "\\\"", "\\\\", "\\n", "\\t", "\\$", "\\@"]))
        elif r < 0.93:
            out.append("${" + rand_ident(rng, 1, 4) + "}")
        else:
            out.append(rng.choice(NONASCII))
    s = "".join(out)
    # must not start like a bracket argument opener, which CMake lexes differently
    while s.startswith("[") and s.lstrip("[=")[:0] == "" and _opens_bracket(s):
        s = "x" + s
    return s


def _opens_bracket(s):
    if not s.startswith("["):
        return False
    t = s[1:].lstrip("=")
    return t.startswith("[")


QUOTED_PIECES = ["a", "b c", " ", "#", ";", "[", "]", "$", "@", "<", ">", "(", ")", "${v}", "\\\"", "\\\\", "\\n",
                 "\\;", "\\$", "\n", "\\\n", "'", "]]", "#]]", "[[", "é", "中", "🙂", "x=y", "\t"]


def rand_quoted(rng):
    n = rng.choice([0, 0, 1, 1, 2, 3, 5])
    return '"' + "".join(rng.choice(QUOTED_PIECES) for _ in range(n)) + '"'


BRACKET_PIECES = ["a", " ", "b c", "#", ";", "[", "]", "$", "\"", "(", ")", "\\", "\n", "é", "[[", "#[[", "${v}"]


def rand_bracket(rng):
    lvl = rng.choice([0, 0, 1, 1, 2, 3])
    eq = "=" * lvl
    pieces = BRACKET_PIECES + ["]" + "=" * (lvl + 1) + "]"]
    if lvl > 0:
        pieces += ["]]", "]" + "=" * (lvl - 1) + "]"]
    body = "".join(rng.choice(pieces) for _ in range(rng.choice([0, 1, 2, 3, 5])))
    close = "]" + eq + "]"
    if close in body or (body + close[:1]).find(close) >= 0:
        body = body.replace(close, "x")
    # the terminator must not be completed early by the body's tail + closing bracket
    while close in (body + close)[:-1]:
        body = body[:-1]
    return "[" + eq + "[" + body + close


def rand_arg(rng, simple=False):
    r = rng.random()
    if simple or r < 0.4:
        return rand_ident(rng)
    if r < 0.6:
        return rand_unquoted(rng)
    if r < 0.8:
        return rand_quoted(rng)
    if r < 0.9:
        return "${" + rand_ident(rng, 1, 5) + "}"
    return rand_bracket(rng)


# ---------------------------------------------------------------------------
# doccomments

LINE_STARTS = ["", "", "", "#", "[", "]", ":", "..", " ", "  ", "    ", "* ", "- ", ":param x: ", ".. note::", "##", "#]",
               "[[", "]", "# "]
DOC_WORDS = ["text", "Some words here.", ":param a: first", ":type a: str", ":returns: x", "**bold**", "``code``",
             "trailing  ", "a#b", "x [y] z", "#", "]", "é中🙂", ":param **kwargs: more", ":keyword k: v", "1. one",
             "| table |", "\\escaped", "tab\there", "end]", "end#",
             # characters that str.splitlines() (but not split("\n")) treats as line boundaries
             "ls\u2028sep", "nel\u0085x", "ff\x0cfeed", "vt\x0btab", "fs\x1csep", "ps\u2029x", "lone\rcr"]


def rand_doc_line(rng):
    if rng.random() < 0.15:
        return ""
    line = rng.choice(LINE_STARTS) + rng.choice(DOC_WORDS)
    if rng.random() < 0.2:
        line += " " + rng.choice(DOC_WORDS)
    if rng.random() < 0.1:
        line += rng.choice(NONASCII)
    return line.replace("]]", "] ]")


def rand_doc_lines(rng, lo=0, hi=6):
    return [rand_doc_line(rng) for _ in range(rng.randint(lo, hi))]


def doc_block(lines, indent="", module=None, cuts=None, prefix=""):
    """the canonical doccomment text for body lines (as the documentation prescribes);
    cuts = {line index: k}: that line is indented by k characters less than the block (a ragged
    block); prefix = extra uniform indentation of the whole block (opening line excluded: the
    caller prints it)"""
    first = "#[[["
    if module is not None:
        first += " @module" + (" " + module if module else "")
    out = [first]
    for i, l in enumerate(lines):
        ind = indent
        if cuts and i in cuts:
            ind = indent[:max(0, len(indent) - cuts[i])]
        out.append(prefix + ind + ("# " + l if l else "#"))
    out.append(prefix + indent + "#]]")
    return "\n".join(out)


# ---------------------------------------------------------------------------
# module AST
#
# node = dict(kind=..., ...):
#   cmd      name args doc                      any single command (incl. set/option/add_test/cpa/...)
#   def      defkind name params body doc       function/macro ... endfunction/endmacro
#   class    name supers body doc               cpp_class ... cpp_end_class
#   member   ctor name cls types impl doc       cpp_member/cpp_constructor (+ optional implementing def)
#   attr     cls name default doc
#   test     section name xf extra impl doc     ct_add_test/ct_add_section (+ optional implementing def)
#   block    blockkind args body                if/foreach/while ... end
# doc = None | dict(lines=[...], indent=str)

KWARGS_P = 0.1


def mk_doc(rng, p=0.5, kwargs_p=None):
    if rng.random() >= p:
        return None
    lines = rand_doc_lines(rng)
    if rng.random() < (KWARGS_P if kwargs_p is None else kwargs_p):
        lines.insert(rng.randint(0, len(lines)), ":param **kwargs: extra")
    return dict(lines=lines, indent=rng.choice(["", "", "  ", "    ", "\t", " \t "]))


class ModGen:
    def __init__(self, rng, max_depth=4, budget=40, doc_p=0.5, weights=None, cpa_p=0.15):
        self.rng = rng
        self.max_depth = max_depth
        self.budget = budget
        self.doc_p = doc_p
        self.cpa_p = cpa_p
        self.w = dict(generic=3, set=2, option=1.5, add_test=1, defn=3, klass=1.5, test=1.5,
                      block=1.5, cpa=1, dangling=0.3)
        if weights:
            self.w.update(weights)

    def doc(self, p=None):
        return mk_doc(self.rng, self.doc_p if p is None else p)

    def body(self, depth, ctx, lo=0, hi=5):
        rng = self.rng
        out = []
        n = rng.randint(lo, hi)
        for _ in range(n):
            if self.budget <= 0:
                break
            out.append(self.node(depth, ctx))
        return out

    def node(self, depth, ctx):
        rng = self.rng
        self.budget -= 1
        kinds = ["generic", "set", "option", "add_test", "cpa", "dangling"]
        if depth < self.max_depth:
            kinds += ["defn", "klass", "test", "block"]
        if ctx == "class":
            kinds += ["member", "attr", "member", "attr"]
            w = dict(self.w, member=4, attr=3)
        else:
            w = dict(self.w, member=0.2, attr=0.2)
            kinds += ["member", "attr"]
        k = rng.choices(kinds, [w[x] for x in kinds])[0]
        return getattr(self, "g_" + k)(depth, ctx)

    def g_generic(self, depth, ctx):
        rng = self.rng
        name = rng.choice(["message", "add_library", "include", "my_cmd", "list", "unset", "find_package",
                           "target_link_libraries", rand_ident(rng)])
        args = [rand_arg(rng) for _ in range(rng.choice([0, 1, 2, 3, 4]))]
        if rng.random() < 0.12:
            args.insert(rng.randint(0, len(args)), ["(", [rand_arg(rng) for _ in range(rng.randint(0, 3))], ")"])
        return dict(kind="cmd", name=name, args=args, doc=self.doc())

    def g_set(self, depth, ctx):
        rng = self.rng
        nvals = rng.choice([0, 1, 1, 1, 2, 3, 4])
        args = [rand_arg(rng, simple=rng.random() < 0.8)] + [rand_arg(rng) for _ in range(nvals)]
        return dict(kind="cmd", name="set", args=args, doc=self.doc(0.6))

    def g_option(self, depth, ctx):
        rng = self.rng
        args = [rand_ident(rng), rand_quoted(rng) if rng.random() < 0.8 else rand_arg(rng)]
        if rng.random() < 0.15:
            # a help text much longer than a line (quoted, single line)
            words = [rng.choice(["Enable", "the", "optional", "component", "when", "building", "documentation", "for",
                                 "every", "target", "of", "this", "project", "x", "and", "tests"]) for _ in range(rng.randint(14, 40))]
            args[1] = '"' + " ".join(words) + '"'
        if rng.random() < 0.5:
            args.append(rng.choice(["ON", "OFF", "TRUE", "${d}", rand_arg(rng)]))
        if rng.random() < 0.05:
            args = args[:1] if rng.random() < 0.5 else args + ["extra", "more"]
        return dict(kind="cmd", name="option", args=args, doc=self.doc())

    def test_args(self, name):
        rng = self.rng
        extra = [rng.choice(["COMMAND", name, "MYNAME", "NAMES", "EXPECTFAILURE", "WORKING_DIRECTORY",
                             rand_arg(rng)]) for _ in range(rng.choice([0, 0, 1, 2, 3]))]
        args = list(extra)
        args.insert(rng.randint(0, len(args)), ["NAME", name])
        flat = []
        for a in args:
            if isinstance(a, list):
                flat += a
            else:
                flat.append(a)
        return flat

    def g_add_test(self, depth, ctx):
        rng = self.rng
        name = rand_ident(rng)
        args = self.test_args(name)
        if rng.random() < 0.06:
            args = rng.choice([[], ["NAME"], [name], ["x", "NAME"]])
        return dict(kind="cmd", name="add_test", args=args, doc=self.doc())

    def g_cpa(self, depth, ctx):
        rng = self.rng
        return dict(kind="cmd", name="cmake_parse_arguments",
                    args=[rand_ident(rng), '""', '"A;B"', '""', "${ARGN}"][:rng.choice([0, 3, 5])], doc=None)

    def g_dangling(self, depth, ctx):
        return dict(kind="dangling", doc=mk_doc(self.rng, 1.0))

    def g_defn(self, depth, ctx, doc="auto"):
        rng = self.rng
        kind = rng.choice(["function", "macro"])
        params = [rand_arg(rng, simple=rng.random() < 0.7) for _ in range(rng.choice([0, 1, 2, 3, 4]))]
        body = self.body(depth + 1, "def", 0, 4)
        if rng.random() < self.cpa_p:
            body.insert(rng.randint(0, len(body)), self.g_cpa(depth, ctx))
        return dict(kind="def", defkind=kind, name=rand_ident(rng), params=params, body=body,
                    doc=self.doc() if doc == "auto" else doc,
                    endargs=rng.choice([[], [], ["x"]]))

    def g_klass(self, depth, ctx):
        rng = self.rng
        supers = [rand_ident(rng) for _ in range(rng.choice([0, 0, 1, 2]))]
        return dict(kind="class", name=rand_ident(rng), supers=supers,
                    body=self.body(depth + 1, "class", 0, 6), doc=self.doc())

    def g_member(self, depth, ctx):
        rng = self.rng
        ctor = rng.random() < 0.3
        types = [rng.choice(["int", "str", "desc", "args", "bool", "list"]) for _ in range(rng.choice([0, 1, 2, 3]))]
        impl = None
        if rng.random() < 0.85 and depth < self.max_depth + 1:
            impl = self.g_defn(depth, "member", doc=None if rng.random() < 0.9 else self.doc(1.0))
            # implementations normally take name, self, then one param per type
            if rng.random() < 0.8:
                impl["params"] = ["self"] + [rand_ident(rng) for _ in range(max(0, len(types) + rng.choice([0, 0, -1, 1])))]
        cls = rand_ident(rng)
        args = None
        if rng.random() < 0.05:
            args = rng.choice([[], [rand_ident(rng)]])
        return dict(kind="member", ctor=ctor, name="CTOR" if ctor else rand_ident(rng), cls=cls, types=types,
                    impl=impl, doc=self.doc(), rawargs=args)

    def g_attr(self, depth, ctx):
        rng = self.rng
        default = rand_arg(rng) if rng.random() < 0.5 else None
        args = None
        if rng.random() < 0.05:
            args = rng.choice([[], [rand_ident(rng)]])
        return dict(kind="attr", cls=rand_ident(rng), name=rand_ident(rng), default=default, doc=self.doc(),
                    rawargs=args)

    def g_test(self, depth, ctx):
        rng = self.rng
        section = rng.random() < 0.4
        name = rand_ident(rng)
        xf = rng.random() < 0.3
        args = self.test_args(name)
        if xf:
            args.insert(rng.randint(0, len(args)), "EXPECTFAIL")
            # NAME <name> must stay adjacent
            i = args.index("NAME")
            if args[i + 1] == "EXPECTFAIL":
                args[i + 1], args[i + 2] = args[i + 2], args[i + 1]
        if rng.random() < 0.05:
            args = rng.choice([[], ["NAME"], [name], ["x", "NAME"]])
        impl = None
        if rng.random() < 0.85:
            impl = self.g_defn(depth, "test", doc=None if rng.random() < 0.9 else self.doc(1.0))
            impl["params"] = []
            impl["name"] = "${" + name + "}"
            # sections inside the test body
            for _ in range(rng.choice([0, 0, 1, 2])):
                if depth + 1 < self.max_depth + 1 and self.budget > 0:
                    self.budget -= 1
                    impl["body"].insert(rng.randint(0, len(impl["body"])), self.g_test_inner(depth + 1))
        return dict(kind="test", section=section, name=name, args=args, impl=impl, doc=self.doc())

    def g_test_inner(self, depth):
        n = self.g_test(depth, "def")
        n["section"] = True
        return n

    def g_block(self, depth, ctx):
        rng = self.rng
        bk = rng.choice(["if", "foreach", "while"])
        args = [rand_arg(rng) for _ in range(rng.randint(1, 3))]
        return dict(kind="block", blockkind=bk, args=args, body=self.body(depth + 1, ctx, 0, 4))

    def module(self):
        rng = self.rng
        mod = None
        if rng.random() < 0.25:
            mod = dict(name=rng.choice(["", "mymod", "a.b.c", "pkg::mod", rand_ident(rng)]),
                       lines=rand_doc_lines(rng, 0, 4), indent=rng.choice(["", "", "  "]))
        return dict(module=mod, body=self.body(0, "top", 0, 8))


# ---------------------------------------------------------------------------
# printing with layout

def recase(rng, name, p=0.3):
    if rng.random() >= p:
        return name
    r = rng.random()
    if r < 0.4:
        return name.upper()
    if r < 0.6:
        return name.capitalize()
    return "".join(c.upper() if rng.random() < 0.5 else c for c in name)


COMMENT_TEXTS = ["plain comment", "", " set(x y)", "[ not bracket", "[=x", " #[[[ not a doc", " #]]", "]]", " é中",
                 " function(f)", "\"quote", "( paren", "[==", " \\"]
BRACKET_COMMENT_BODIES = [" note ", "", "\nmulti\nline\n", " function(x) ", " #]] ", " ]] "[:0], "\"", " ( ", "é"]


class Layout:
    """inter-token trivia; trivia_p = 0 gives the plainest layout"""

    def __init__(self, rng, trivia_p=0.3, eol="\n"):
        self.rng = rng
        self.p = trivia_p
        self.eol = eol

    def gap(self, required=False, allow_nl=True):
        """trivia between two tokens; required: must contain at least one separator"""
        rng = self.rng
        out = []
        if required:
            out.append(rng.choice([" ", " ", "  ", "\t"]) if rng.random() > self.p or not allow_nl
                       else rng.choice([" ", self.eol, self.eol + "    "]))
        while rng.random() < self.p:
            r = rng.random()
            if r < 0.4:
                out.append(rng.choice([" ", "  ", "\t", "   "]))
            elif r < 0.6 and allow_nl:
                out.append(self.eol * rng.choice([1, 1, 2]))
            elif r < 0.85 and allow_nl:
                out.append("#" + rng.choice(COMMENT_TEXTS) + self.eol)
            else:
                lvl = rng.choice([0, 0, 1, 2])
                body = rng.choice(BRACKET_COMMENT_BODIES)
                close = "]" + "=" * lvl + "]"
                if close in body or (lvl == 0 and body.startswith("[")):
                    body = " x "
                out.append("#[" + "=" * lvl + "[" + body + close)
                # a bracket comment must not be followed directly by something that glues on
        return "".join(out)

    def line_end(self):
        rng = self.rng
        out = ""
        if rng.random() < self.p:
            out += rng.choice([" ", "\t", "  "])
        if rng.random() < self.p * 0.7:
            out += "#" + rng.choice(COMMENT_TEXTS)
        out += self.eol
        while rng.random() < self.p * 0.5:
            out += rng.choice(["", "  ", "# " + rng.choice(COMMENT_TEXTS)]) + self.eol
        return out


def flatten_args(args):
    """tokens of an argument list with nested parens"""
    out = []
    for a in args:
        if isinstance(a, list):
            out.append("(")
            out += flatten_args(a[1])
            out.append(")")
        else:
            out.append(a)
    return out


WORDLIKE = set(IDENT_CHARS)


def needs_sep(a, b):
    """must two adjacent argument tokens be separated by whitespace to stay two tokens?"""
    if a == "(" or b == ")" or b == "(" or a == ")":
        return False
    return True


def print_cmd(lay, name, args, indent="", case_p=0.3):
    rng = lay.rng
    toks = flatten_args(args)
    out = [indent, recase(rng, name, case_p), lay.gap(allow_nl=False) if rng.random() < lay.p else "", "("]
    prev = "("
    for t in toks:
        out.append(lay.gap(required=needs_sep(prev, t)))
        out.append(t)
        prev = t
    out.append(lay.gap() if rng.random() < lay.p else "")
    out.append(")")
    out.append(lay.line_end())
    return "".join(out)


def print_doc(lay, doc, base_indent=""):
    if doc is None:
        return ""
    ind = doc["indent"]
    cuts = {int(k): v for k, v in (doc.get("cuts") or {}).items()}
    text = doc_block(doc["lines"], ind, doc.get("module"), cuts=cuts, prefix=doc.get("prefix", ""))
    text = text.replace("\n", lay.eol)
    return doc.get("prefix", "") + ind + text + lay.eol + (lay.gap() if lay.rng.random() < lay.p else "")


def print_nodes(lay, nodes, depth=0):
    out = []
    ind = "    " * depth if lay.rng.random() < 0.8 else ""
    for n in nodes:
        out.append(print_node(lay, n, depth, ind))
    return "".join(out)


def print_node(lay, n, depth, ind):
    k = n["kind"]
    if k == "dangling":
        return print_doc(lay, n["doc"])
    out = [print_doc(lay, n.get("doc"))]
    if k == "cmd":
        out.append(print_cmd(lay, n["name"], n["args"], ind))
    elif k == "def":
        out.append(print_cmd(lay, n["defkind"], [n["name"]] + n["params"], ind))
        out.append(print_nodes(lay, n["body"], depth + 1))
        out.append(print_cmd(lay, "end" + n["defkind"], n.get("endargs", []), ind))
    elif k == "class":
        out.append(print_cmd(lay, "cpp_class", [n["name"]] + n["supers"], ind))
        out.append(print_nodes(lay, n["body"], depth + 1))
        out.append(print_cmd(lay, "cpp_end_class", [], ind))
    elif k == "member":
        args = n["rawargs"] if n.get("rawargs") is not None else [n["name"], n["cls"]] + n["types"]
        out.append(print_cmd(lay, "cpp_constructor" if n["ctor"] else "cpp_member", args, ind))
        if n["impl"] is not None:
            im = n["impl"]
            out.append(print_node(lay, dict(im, name="${" + n["name"] + "}" if not n["ctor"] else "${CTOR}"),
                                  depth, ind))
    elif k == "attr":
        args = n["rawargs"] if n.get("rawargs") is not None else \
            [n["cls"], n["name"]] + ([n["default"]] if n["default"] is not None else [])
        out.append(print_cmd(lay, "cpp_attr", args, ind))
    elif k == "test":
        out.append(print_cmd(lay, "ct_add_section" if n["section"] else "ct_add_test", n["args"], ind))
        if n["impl"] is not None:
            out.append(print_node(lay, n["impl"], depth, ind))
    elif k == "block":
        out.append(print_cmd(lay, n["blockkind"], n["args"], ind))
        out.append(print_nodes(lay, n["body"], depth + 1))
        out.append(print_cmd(lay, "end" + n["blockkind"], [], ind))
    else:
        raise ValueError(k)
    return "".join(out)


def print_module(mod, rng, trivia_p=0.3, eol="\n"):
    lay = Layout(rng, trivia_p, eol)
    out = []
    if mod["module"] is not None:
        m = mod["module"]
        out.append(print_doc(lay, dict(lines=m["lines"], indent=m["indent"], module=m["name"])))
    else:
        if rng.random() < lay.p:
            out.append(lay.line_end())
    out.append(print_nodes(lay, mod["body"], 0))
    return "".join(out)


def relabel_classes(nodes, rng, stack=()):
    """class arguments as real code writes them: members and attributes mostly name the class they are
    declared in, sometimes an ENCLOSING class (they still belong to the innermost one), and an inner
    class is sometimes named like an enclosing one"""
    for n in nodes:
        if n.get("kind") == "class":
            if stack and rng.random() < 0.1:
                n["name"] = rng.choice(stack)
            relabel_classes(n.get("body", []), rng, stack + (n["name"],))
            continue
        if n.get("kind") in ("member", "attr") and stack and n.get("rawargs") is None:
            r = rng.random()
            if r < 0.45:
                n["cls"] = stack[-1]
            elif r < 0.7 and len(stack) >= 2:
                n["cls"] = rng.choice(stack[:-1])
        if "body" in n:
            relabel_classes(n["body"], rng, stack)
        if n.get("impl"):
            relabel_classes([n["impl"]], rng, stack)


def gen_module(rng, **kw):
    g = ModGen(rng, **kw)
    mod = g.module()
    relabel_classes(mod["body"], rng)
    return mod


def count_nodes(nodes):
    n = 0
    for x in nodes:
        n += 1
        for key in ("body",):
            if key in x:
                n += count_nodes(x[key])
        if x.get("impl"):
            n += count_nodes([x["impl"]])
    return n


def max_depth(nodes, d=0):
    m = d
    for x in nodes:
        if "body" in x:
            m = max(m, max_depth(x["body"], d + 1))
        if x.get("impl"):
            m = max(m, max_depth([x["impl"]], d))
    return m
