"""shared runner for the properties decided on generated module ASTs"""
import core
import gen
import pipe


def walk(nodes):
    for n in nodes:
        yield n
        if "body" in n:
            yield from walk(n["body"])
        if n.get("impl"):
            yield from walk([n["impl"]])


def ast_run(rep, model, tier, seed, pid, name, mode, kinds, quick_n, thorough_n, weights=None,
            ascii_only=True, in_domain=None, known=None, settings_fn=None, extra_cases=(), rule="",
            gen_kw=None, nontrivial=None):
    n = quick_n if tier == "quick" else thorough_n
    rng = core.rng_for(seed, pid, name)
    gen.set_ascii(ascii_only)
    try:
        rep.coverage["rule"] = (rep.coverage["rule"] + " | " if rep.coverage["rule"] else "") + rule
        cases = [pipe.norm_case(c) for c in extra_cases]
        for f in sorted((core.CORPUS / pid).glob("*.json")) if (core.CORPUS / pid).exists() else []:
            import json
            cases.append(pipe.case_from_json(json.loads(f.read_text())["case"]))
        rep.coverage["corpus_cases"] = rep.coverage.get("corpus_cases", 0) + len(cases)
        for i in range(n):
            kw = dict(budget=rng.choice([4, 8, 16, 30, 45]), weights=weights)
            if gen_kw:
                kw.update(gen_kw(rng) if callable(gen_kw) else gen_kw)
            mod = gen.gen_module(rng, **kw)
            st = settings_fn(rng, mod) if settings_fn else {}
            cases.append(pipe.ast_case(mod, rng, trivia_p=rng.choice([0, 0.15, 0.4]), **st))
            rep.dist(f"{name}:ast_nodes", gen.count_nodes(mod["body"]))
            rep.dist(f"{name}:ast_depth_{gen.max_depth(mod['body'])}")
        if cases:
            rep.sample(pipe.decode_preview(cases[-1]["data"], 500))
        outside = pipe.run_projection(rep, model, cases, mode, kinds, name, in_domain=in_domain,
                                      known=known, nontrivial=nontrivial)
        pipe.finish_projection(rep, outside, name)
    finally:
        gen.set_ascii(False)


def std_replay(obj):
    model = core.Model()
    c = pipe.case_from_json(obj["case"])
    d = pipe.compare_projection(model, c, obj.get("projection_mode", 1),
                                set(obj["kinds"]) if obj.get("kinds") else None)
    print(pipe.decode_preview(c["data"], 3000))
    print("diff:", d)
    return 1 if d else 0
