"""C19 -- cminx_gen_rst() in CMake is equivalent to the command line.

The body of cminx_gen_rst is translated from cmake/cminx.cmake into Gen/CMinxCMake.v on every
run; theorems of Properties/C19.v are re-checked over it (one process, exactly
exe dir [-r] extra... -o out, fatal on failure).  Validation: (a) real `cmake -P` driving the current
cminx.cmake with CMINX_EXECUTABLE bound to an argv-recording stub with a scripted exit status:
recorded argv and fatality vs Model.CMakeLang.call (fid 15), including the argument classes outside
the hypothesis (empty, ';', '[') to confirm the interpreter models CMake's list rules; (b) end to
end: CMINX_EXECUTABLE bound to the working-tree CLI: output tree and status of cmake vs a direct
CLI run with the argv the theorem predicts."""
import json
import os
import shutil
import stat
import subprocess

import core
import treeh
from props import common_tree as ct

STUB = """#!/bin/sh
# records its arguments one per line (hex) and exits with the scripted status
out="$CMINX_STUB_OUT"
: > "$out"
for a in "$@"; do printf '%s' "$a" | od -An -tx1 | tr -d ' \\n' >> "$out"; echo >> "$out"; done
exit ${CMINX_STUB_STATUS:-0}
"""

EXTRA_POOL_OK = ["-p", "my prefix", "-e", "*.txt", "-s", "cfg.yaml", "pfx", "a.b", "--prefix", "x_y", "build/",
                 "**/x", "[ab]*", "a b c", "é", "--exclude", "sub/"]
EXTRA_POOL_ODD = ["", "x;y", "[abc", "a]b", "\\;", "a\\;b", ";"]


def cmake_quote(a):
    """write a string as a CMake argument that evaluates to exactly that string"""
    if "]=]" not in a and not a.endswith("]") and "\n" not in a:
        return "[=[" + a + "]=]"
    return '"' + a.replace("\\", "\\\\").replace('"', '\\"').replace("$", "\\$").replace(";", "\;") + '"'


def run_cmake_stub(wd, stub, actuals, status):
    script = os.path.join(wd, "drive.cmake")
    rec = os.path.join(wd, "argv.txt")
    if os.path.exists(rec):
        os.remove(rec)
    with open(script, "w") as f:
        f.write(f"set(CMINX_EXECUTABLE {cmake_quote(stub)})\n")
        f.write(f"include({cmake_quote(str(core.REPO / 'cmake' / 'cminx.cmake'))})\n")
        f.write("cminx_gen_rst(" + " ".join(cmake_quote(a) for a in actuals) + ")\n")
        f.write(f"file(WRITE {cmake_quote(os.path.join(wd, 'continued.txt'))} \"configure step continued\")\n")
    cont = os.path.join(wd, "continued.txt")
    if os.path.exists(cont):
        os.remove(cont)
    env = dict(os.environ, CMINX_STUB_OUT=rec, CMINX_STUB_STATUS=str(status))
    p = subprocess.run(["cmake", "-P", script], cwd=wd, env=env, stdout=subprocess.PIPE, stderr=subprocess.PIPE,
                       timeout=120)
    argv = None
    if os.path.exists(rec):
        argv = [bytes.fromhex(l).decode("utf-8", "surrogateescape") for l in open(rec).read().split("\n")[:-1]]
    return p.returncode, argv, os.path.exists(cont), p.stderr.decode("utf-8", "replace")[-300:]


def args_ok(extra):
    return all(a != "" and ";" not in a and "[" not in a and "]" not in a and "\\" not in a
               and a not in ("OUTPUT_QUIET", "TIMEOUT") for a in extra)


def run(rep, model, tier, seed, broken=()):
    nstub = 40 if tier == "quick" else 1200
    ne2e = 8 if tier == "quick" else 150
    rng = core.rng_for(seed, "C19")
    rep.coverage["rule"] = ("(a) inputs (existing directory, file, missing path) x extra-argument lists (0..5 words from "
                            "flags/values incl. spaces, globs, non-ASCII; 25% from the classes outside the hypothesis: "
                            "empty, ';', '[') x scripted exit status, through real cmake -P with a recording stub vs "
                            "the model; (b) end-to-end trees through cmake -P + working-tree CLI vs direct CLI; "
                            "non-trivial = >= 1 extra argument; distinct by case")
    wd = core.scratch_dir("cminx_c19_")
    nbad = 0
    pairs = []
    try:
        stub = os.path.join(wd, "stub.sh")
        with open(stub, "w") as f:
            f.write(STUB)
        os.chmod(stub, os.stat(stub).st_mode | stat.S_IEXEC)
        d = os.path.join(wd, "a dir")
        os.makedirs(d, exist_ok=True)
        fpath = os.path.join(wd, "one.cmake")
        open(fpath, "w").write("set(x y)\n")
        missing = os.path.join(wd, "missing")
        for i in range(nstub):
            inp = rng.choice([d, fpath, missing, d])
            out = rng.choice([os.path.join(wd, "out"), "rel out", "o"])
            k = rng.choice([0, 1, 2, 2, 3, 5])
            odd = rng.random() < 0.25
            extra = [rng.choice(EXTRA_POOL_ODD if (odd and rng.random() < 0.5) else EXTRA_POOL_OK) for _ in range(k)]
            status = rng.choice([0, 0, 1, 3])
            actuals = [inp, out] + extra
            rc, argv, continued, err = run_cmake_stub(wd, stub, actuals, status)
            req = [15, stub, actuals, [d]]
            rp = model.call(req)
            launches = [([core.d_str(x) for x in l[0]], bool(l[1])) for l in rp]
            rep.count_case(json.dumps([actuals, status]), len(extra) >= 1)
            rep.dist("stub_runs")
            rep.dist("extra_args", len(extra))
            rep.dist("hypothesis_args_ok" if args_ok(extra) else "outside_hypothesis")
            rep.dist(f"stub_status_{status}")
            prob = None
            if len(launches) != 1:
                prob = dict(what="model launches %d processes" % len(launches))
            else:
                margv, fatal = launches[0]
                if argv is None:
                    prob = dict(what="the stub was not run", cmake_rc=rc, err=err)
                elif argv != margv[1:]:
                    prob = dict(what="argv differs from the model", impl=argv, model=margv[1:])
                elif (rc != 0) != (fatal and status != 0):
                    prob = dict(what="fatality differs from the model", cmake_rc=rc, stub_status=status, model_fatal=fatal)
                elif continued != (rc == 0):
                    prob = dict(what="configure step continued after a failure", rc=rc)
                if prob is None and args_ok(extra):
                    # the spec of the property (theorem gen_rst_argv)
                    want = [inp] + (["-r"] if inp == d else []) + extra + ["-o", out]
                    if argv != want:
                        prob = dict(what="argv is not: input [-r] extra... -o output", impl=argv, want=want)
                    elif status != 0 and rc == 0:
                        prob = dict(what="CMinx failed but the CMake call did not fail fatally")
            if prob:
                nbad += 1
                if nbad <= 3:
                    rep.violation(dict(kind="cminx_gen_rst: " + prob["what"], diff=prob, actuals=actuals,
                                       stub_status=status), no_input=not args_ok(extra))
            if len(pairs) < 10:
                pairs.append((req, rp))
        rep.coverage["correspondence"]["cmake -P + recording stub vs Model.CMakeLang.call"] = nstub
        # (a') failures that are not an exit status: the executable cannot be started, or is killed by a
        # signal.  The model's launch is fatal-on-failure (theorem C19_failure_is_fatal), so the CMake call
        # must fail fatally and the configure step must not continue.
        killer = os.path.join(wd, "killer.sh")
        with open(killer, "w") as f:
            f.write("#!/bin/sh\nkill -9 $$\n")
        os.chmod(killer, os.stat(killer).st_mode | stat.S_IEXEC)
        noexec = os.path.join(wd, "noexec.sh")
        with open(noexec, "w") as f:
            f.write("#!/bin/sh\nexit 0\n")
        os.chmod(noexec, 0o644)
        for label, exe in (("missing executable", os.path.join(wd, "removed", "bin", "cminx")),
                           ("killed by signal", killer), ("not executable", noexec)):
            for inp in (d, fpath):
                actuals = [inp, os.path.join(wd, "out")]
                rc, argv, continued, err = run_cmake_stub(wd, exe, actuals, 0)
                rep.count_case(json.dumps([label, inp]), True)
                rep.dist("abnormal_failure_runs")
                if rc == 0 or continued:
                    nbad += 1
                    if nbad <= 3:
                        rep.violation(dict(kind="cminx_gen_rst: CMinx could not run (" + label + ") but the CMake call "
                                           "did not fail fatally", diff=dict(cmake_rc=rc, continued=continued, err=err),
                                           actuals=actuals, executable=exe))
        # (b) end to end
        cli = os.path.join(wd, "cminx_cli.sh")
        with open(cli, "w") as f:
            f.write(f"#!/bin/sh\nPYTHONPATH={core.REPO}/src exec {core.PY} -B -W ignore {core.REPO}/src/main.py \"$@\"\n")
        os.chmod(cli, os.stat(cli).st_mode | stat.S_IEXEC)
        for i in range(ne2e):
            tdir = os.path.join(wd, f"e2e{i}")
            os.makedirs(tdir)
            kind = rng.choice(["dir", "dir", "file", "missing", "syntax_error"])
            if kind == "dir":
                tree = treeh.gen_tree(rng, max_depth=2, ext_variants=False)
                treeh.materialize(tree, os.path.join(tdir, "in"))
                inp = os.path.join(tdir, "in")
            elif kind == "file":
                inp = os.path.join(tdir, "single.cmake")
                open(inp, "wb").write(treeh.simple_module(rng, "s"))
            elif kind == "syntax_error":
                inp = os.path.join(tdir, "bad.cmake")
                open(inp, "w").write("set(x \"unterminated)\n")
            else:
                inp = os.path.join(tdir, "nope")
            extra = rng.choice([[], ["-p", "pfx"], ["-e", "*.txt", "-p", "my prefix"], ["-e", "a*"]])
            out1 = os.path.join(tdir, "out_cmake")
            out2 = os.path.join(tdir, "out_cli")
            # the input as the caller writes it: absolute, or relative to the working directory of the cmake
            # process while the calling script lives in another directory
            relative = rng.random() < 0.4
            inp_abs = inp
            if relative:
                inp = os.path.relpath(inp_abs, tdir)
                os.makedirs(os.path.join(tdir, "scripts"), exist_ok=True)
            script = os.path.join(tdir, "scripts" if relative else "", "drive.cmake")
            with open(script, "w") as f:
                f.write(f"set(CMINX_EXECUTABLE {cmake_quote(cli)})\ninclude({cmake_quote(str(core.REPO / 'cmake' / 'cminx.cmake'))})\n")
                f.write("cminx_gen_rst(" + " ".join(cmake_quote(a) for a in [inp, out1] + extra) + ")\n")
            p1 = subprocess.run(["cmake", "-P", script], cwd=tdir, stdout=subprocess.PIPE, stderr=subprocess.PIPE,
                                timeout=300)
            argv = [inp] + (["-r"] if os.path.isdir(inp_abs) else []) + extra + ["-o", out2]
            p2 = subprocess.run([cli] + argv, cwd=tdir, stdout=subprocess.PIPE, stderr=subprocess.PIPE, timeout=300)
            s1, s2 = treeh.snapshot(out1) if os.path.isdir(out1) else {}, treeh.snapshot(out2) if os.path.isdir(out2) else {}
            rep.dist("e2e_" + kind)
            rep.dist("e2e_relative_input" if relative else "e2e_absolute_input")
            rep.count_case(json.dumps([kind, extra, i]), True)
            prob = None
            if s1 != s2:
                prob = dict(what="output tree of cminx_gen_rst differs from the direct CLI run",
                            only_cmake=sorted(map(str, set(s1) - set(s2)))[:5], only_cli=sorted(map(str, set(s2) - set(s1)))[:5])
            elif (p1.returncode != 0) != (p2.returncode != 0):
                prob = dict(what="failure of CMinx is not reflected by the CMake call", cmake_rc=p1.returncode,
                            cli_rc=p2.returncode)
            if prob:
                nbad += 1
                if nbad <= 3:
                    rep.violation(dict(kind="cminx_gen_rst end-to-end: " + prob["what"], diff=prob, input_kind=kind,
                                       extra=extra, input_as_written=inp, script_dir_differs_from_cwd=relative))
            shutil.rmtree(tdir, ignore_errors=True)
        rep.coverage["correspondence"]["cmake -P + working-tree CLI vs direct CLI (output trees)"] = ne2e
        rep.coverage["disagreements"] = nbad
        rep.sample(dict(actuals=actuals, recorded_argv=argv))
        chk, bad = core.vm_crosscheck(pairs)
        rep.coverage["extraction_crosschecked"] = chk
        if bad:
            rep.violation(dict(kind="extraction-crosscheck", detail=str(bad)[:500]), no_input=True)
    finally:
        shutil.rmtree(wd, ignore_errors=True)


def replay(obj):
    print(json.dumps(obj, indent=1)[:3000])
    return 1
