"""C15 -- Exclusion patterns are honoured for every matching path.

Correspondence: the set of generated pages / indexes under pattern sets (CLI and config sources) vs
Model.Walk.document fed with the pattern matches computed independently (pathspec on the absolute
paths CMinx must ask about: trailing slash exactly for directories).  Oracles on the implementation:
(1) processed <=> no pattern matches the path or an ancestor below the input; (2) the output tree is
the same under every directory-listing order; (3) an excluded input produces nothing."""
import json
import os

import core
import treeh
from props import common_tree as ct
from props.c13 import compare as compare_files


def expected_pages(tr):
    """declarative: relative .rst paths of the files that match no pattern, below non-excluded
    directories reached through processed directories"""
    case = tr.case
    tbl = {(tuple(rel), isd) for rel, isd in tr.excl_table()}
    if ((), True) in tbl:
        return set(), True
    out = set()
    auto = case["auto_exclude"]

    def has_cmake(children, rel):
        return any(c["kind"] == "f" and c["name"].endswith(".cmake") and (rel + (c["name"],), False) not in tbl
                   for c in children)

    def rec(children, rel, top):
        processed = (not auto) or has_cmake(children, rel) or bool(case["recursive"])   # (-r: repair of F23)
        if processed:
            for c in children:
                if c["kind"] == "f" and ct.is_cmake(c["name"]) and (rel + (c["name"],), False) not in tbl:
                    out.add("/".join(rel + (".".join(c["name"].split(".")[:-1]) + ".rst",)))
        if not case["recursive"]:
            return
        for c in children:
            if c["kind"] == "d" and (rel + (c["name"],), True) not in tbl:
                if auto and not has_cmake(c["children"], rel + (c["name"],)):
                    continue
                rec(c["children"], rel + (c["name"],), False)
    rec(tr.model_tree(), (), True)
    return out, False


def run(rep, model, tier, seed, broken=()):
    n = 300 if tier == "quick" else 5000
    rng = core.rng_for(seed, "C15")
    rep.coverage["rule"] = ("generated trees x pattern sets (0..7 patterns: bare names, dir/, *.ext, **/x, a/**/b, "
                            "name globs, several patterns matching adjacent siblings, patterns matching every CMake file "
                            "of a directory, patterns from -e and from the settings file) x two listing permutations; "
                            "non-trivial = >= 1 pattern matching >= 1 path; distinct by case hash")
    cases = []
    cdir = core.CORPUS / "C15"
    for f in sorted(cdir.glob("*.json")) if cdir.exists() else []:
        cases.append(treeh.case_from_json(json.loads(f.read_text())["case"]))
    rep.coverage["corpus_cases"] = len(cases)
    for i in range(n):
        cases.append(ct.gen_case(rng, patterns_p=0.9, single_p=0.05, missing_p=0.0,
                                 out_modes=("abs", "abs", "rel")))
    nbad = 0
    for case in cases:
        tr = treeh.TreeRun(case)
        try:
            tr.layout()
            req = tr.model_request()
            mv = treeh.model_view(treeh.dec_actions(model.call(req)))
            ir = tr.run_impl()
            tbl = tr.excl_table()
            exp = expected_pages(tr) if tr.kind == "dir" else None
        finally:
            tr.cleanup()
        ct.dist(rep, case, "excl")
        rep.dist("excl:matched_paths", len(tbl))
        rep.count_case(json.dumps(treeh.case_json(case), sort_keys=True, default=str), len(tbl) >= 1)
        prob = compare_files(tr, ir, mv, tr.case)
        if prob is None and exp is not None and ir["status"] == 0:
            pages = {k for k in ir["outfiles"] if not k.endswith("index.rst")}
            if exp[1] and ir["outfiles"]:
                prob = dict(what="excluded input path still produced output", files=sorted(ir["outfiles"]))
            elif pages != exp[0]:
                prob = dict(what="processed set differs from the pattern matches", only_impl=sorted(pages - exp[0]),
                            only_expected=sorted(exp[0] - pages))
        if prob is None and "tree" in case and rng.random() < 0.5:
            # listing-order invariance on the implementation
            c2 = dict(case, tree=treeh.permute(case["tree"], rng))
            t2 = treeh.TreeRun(c2)
            try:
                t2.layout()
                i2 = t2.run_impl()
            finally:
                t2.cleanup()
            rep.dist("excl:permutation_pairs")
            if i2["status"] != ir["status"] or i2["outfiles"] != ir["outfiles"]:
                prob = dict(what="output depends on the directory listing order",
                            only_first=sorted(set(ir["outfiles"]) - set(i2["outfiles"])),
                            only_second=sorted(set(i2["outfiles"]) - set(ir["outfiles"])))
        if prob:
            nbad += 1
            if nbad <= 3:
                rep.violation(dict(kind="exclusion: " + prob["what"], diff=prob, argv=tr.argv,
                                   case=treeh.case_json(case), tree=ct.describe(case), excluded=tbl[:20]))
    rep.coverage["disagreements"] = nbad
    rep.coverage["correspondence"]["page set under patterns: cminx.main vs Model.Walk.document"] = len(cases)
    rep.sample(ct.describe(cases[-1]))


def replay(obj):
    model = core.Model()
    case = treeh.case_from_json(obj["case"])
    tr, ir, mv, _ = treeh.run_case(model, case)
    print("argv:", tr.argv)
    print("\n".join(treeh.tree_listing(case.get("tree", []))))
    print("impl files", sorted(ir["outfiles"]))
    print("model files", sorted(mv["files"]))
    p = compare_files(tr, ir, mv, tr.case)
    print("diff:", p)
    return 1 if p else 0
