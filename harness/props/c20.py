"""C20 -- RSTWriter serialisation is pure and keeps nested content indented.

Correspondence: random API histories run on the real RSTWriter/Directive objects and on
Model.Writer.wstep (fid 7); after every operation outputs are compared; to_text is checked
to be repeatable and not to change the implementation's document (deep snapshot).
Oracle for the search: Spec lines (fid 20) -- every line of an element at depth d is
3*d spaces + own text, options before content, insertion order."""
import json

import core
import impl
from impl import rstwriter

NONASCII = "éßλж中🙂"
ALPHA = "abcXYZ019 _-:.*#`|\\"


def rand_word(rng, allow_nl=False):
    n = rng.choice([0, 1, 1, 2, 3, 5, 8, 13])
    chars = ALPHA + ("  " if True else "") + (NONASCII if rng.random() < 0.3 else "")
    out = "".join(rng.choice(chars) for _ in range(n))
    return out


def rand_para(rng):
    nlines = rng.choice([1, 1, 1, 2, 3, 4])
    lines = []
    for _ in range(nlines):
        lead = " " * rng.choice([0, 0, 0, 1, 2, 3, 4, 7])
        lines.append(lead + rand_word(rng) if rng.random() < 0.85 else "")
    return "\n".join(lines)


def gen_history(rng, n_ops):
    hdrs = rng.choice([None, None, ["=", "-", "~"], ["#"], ["ab", "*", "+", "^", "x"], ["*", "="]])
    title = rng.choice(["Title", "", "a", "Ünï ✓", "long title with spaces", rand_word(rng)])
    # generator-side shadow of the tree: path -> [kind, child_count]
    nodes = {(): ["root", 0]}
    ops = []

    def pick(kinds=None):
        ks = [p for p, v in nodes.items() if kinds is None or v[0] in kinds]
        # prefer deep handles
        ks.sort(key=len)
        if not ks:
            return None
        if rng.random() < 0.6:
            return ks[-1 - rng.randrange(min(3, len(ks)))]
        return rng.choice(ks)

    for _ in range(n_ops):
        r = rng.random()
        h = pick()
        if r < 0.22:
            ops.append([5, list(h), rng.choice(["note", "function", "py:class", "x", ""]),
                        [rand_word(rng) for _ in range(rng.choice([0, 1, 1, 2]))]])
            nodes[h + (nodes[h][1],)] = ["dir", 0]
            nodes[h][1] += 1
        elif r < 0.38:
            ops.append([0, list(h), rand_para(rng)])
            nodes[h][1] += 1
        elif r < 0.46:
            ops.append([1, list(h), rand_word(rng), rand_word(rng)])
            nodes[h][1] += 1
        elif r < 0.52:
            ops.append([2, list(h), [rand_word(rng) for _ in range(rng.choice([0, 1, 2, 3]))]])
            nodes[h][1] += 1
        elif r < 0.58:
            ops.append([3, list(h), [rand_word(rng) for _ in range(rng.choice([0, 1, 2, 12]))]])
            nodes[h][1] += 1
        elif r < 0.60:
            ops.append([4, list(h), rand_word(rng), rand_word(rng)])
            nodes[h][1] += 1
        elif r < 0.66:
            hd = pick(["dir"]) if rng.random() < 0.9 else h
            if hd is None:
                continue
            ops.append([7, list(hd), rand_word(rng), rand_word(rng)])
        elif r < 0.71:
            ops.append([6, list(h), rand_word(rng)])
            # section may fail (header list exhausted); the model tells; we mirror its rule
            lvl = section_level(nodes, h)
            nh = len(hdrs) if hdrs is not None else 10
            if lvl + 1 < nh:
                nodes[h + (nodes[h][1],)] = ["sect", 0]
                nodes[h][1] += 1
        elif r < 0.77:
            ops.append([8, list(h), rng.choice(["New", "", "Ünï", rand_word(rng)])])
        elif r < 0.80:
            ops.append([9, list(h)])
            for p in [p for p in nodes if len(p) > len(h) and p[:len(h)] == h]:
                del nodes[p]
            nodes[h][1] = 0
        else:
            ops.append([10, list(h)])
            if rng.random() < 0.4:
                ops.append([10, list(h)])
    ops.append([10, []])
    ops.append([10, []])
    return hdrs, title, ops


def section_level(nodes, h):
    lvl = 0
    for i in range(1, len(h) + 1):
        k = nodes[h[:i]][0]
        lvl = 0 if k == "dir" else lvl + 1
    return lvl


def snapshot(obj, depth=0):
    """deep, address-free snapshot of an implementation document"""
    if isinstance(obj, rstwriter.RSTWriter):
        d = dict(obj.__dict__)
        d.pop("settings", None)
        return (type(obj).__name__, tuple(sorted((k, snapshot(v, depth + 1)) for k, v in d.items())))
    if isinstance(obj, (list, tuple)):
        return tuple(snapshot(x, depth + 1) for x in obj)
    if hasattr(obj, "__dict__") and type(obj).__module__.endswith("rstwriter"):
        return (type(obj).__name__, tuple(sorted((k, snapshot(v, depth + 1))
                                                 for k, v in obj.__dict__.items())))
    return repr(obj)


def run_real(hdrs, title, ops):
    settings = impl.make_settings(headers=hdrs if hdrs is not None else impl.DEFAULT_HEADERS)
    root = rstwriter.RSTWriter(title, settings=settings)
    objs = {(): root}
    outs = []
    purity = []
    for op in ops:
        code, h = op[0], tuple(op[1])
        o = objs.get(h)
        try:
            if o is None:
                raise KeyError("bad handle")
            if code == 0:
                o.text(op[2]); outs.append([0])
            elif code == 1:
                o.field(op[2], op[3]); outs.append([0])
            elif code == 2:
                o.bulleted_list(*op[2]); outs.append([0])
            elif code == 3:
                o.enumerated_list(*op[2]); outs.append([0])
            elif code == 4:
                o.doctest(op[2], op[3]); outs.append([0])
            elif code == 5:
                d = o.directive(op[2], *op[3])
                path = h + (len(o.document) - 2,)
                objs[path] = d
                outs.append([1, list(path)])
            elif code == 6:
                d = o.section(op[2])
                path = h + (len(o.document) - 2,)
                objs[path] = d
                outs.append([1, list(path)])
            elif code == 7:
                o.option(op[2], op[3]); outs.append([0])
            elif code == 8:
                o.title = op[2]; outs.append([0])
            elif code == 9:
                o.clear()
                for p in [p for p in objs if len(p) > len(h) and p[:len(h)] == h]:
                    del objs[p]
                outs.append([0])
            else:
                before = snapshot(root)
                t1 = o.to_text()
                t2 = str(o)
                t3 = o.to_text()
                after = snapshot(root)
                if not (t1 == t2 == t3):
                    purity.append(("not repeatable", op))
                if before != after:
                    purity.append(("document changed by to_text", op))
                outs.append([2, t1])
        except Exception as e:
            outs.append([3])
    return outs, purity


def norm_model_out(o):
    if o[0] == 2:
        return [2, core.d_str(o[1])]
    return o


def nontrivial(ops):
    has_nested = any(op[0] == 5 and len(op[1]) >= 1 for op in ops)
    has_content = any(op[0] in (0, 1, 2, 3) and len(op[1]) >= 2 for op in ops)
    return has_nested and has_content


def check_case(model, case):
    hdrs, title, ops = case
    real, purity = run_real(hdrs, title, ops)
    mh = hdrs if hdrs is not None else impl.DEFAULT_HEADERS
    req = [7, [h for h in mh], title, ops]
    mo = [norm_model_out(o) for o in model.call(req)]
    return real, purity, mo, req


def first_diff(real, mo):
    for i, (a, b) in enumerate(zip(real, mo)):
        if a != b:
            return i
    return None if len(real) == len(mo) else min(len(real), len(mo))


def shrink(model, case):
    hdrs, title, ops = case

    def bad(ops2):
        try:
            real, purity, mo, _ = check_case(model, (hdrs, title, ops2))
        except Exception:
            return False
        return bool(purity) or first_diff(real, mo) is not None
    changed = True
    while changed and len(ops) > 1:
        changed = False
        for i in range(len(ops)):
            cand = ops[:i] + ops[i + 1:]
            if cand and bad(cand):
                ops = cand
                changed = True
                break
    return hdrs, title, ops


def run(rep, model, tier, seed, broken=()):
    n = 400 if tier == "quick" else 12000
    rng = core.rng_for(seed, "C20")
    rep.coverage["rule"] = ("random RSTWriter API histories (text/field/lists/doctest/directive/"
                            "section/option/title=/clear/to_text, handles = paths) executed on the real "
                            "objects and on Model.Writer.wstep; non-trivial = has a directive nested >=2 "
                            "deep with content; distinct by hash of the history")
    cases = []
    corpus = sorted((core.CORPUS / "C20").glob("*.json")) if (core.CORPUS / "C20").exists() else []
    for f in corpus:
        c = json.loads(f.read_text())
        cases.append((c["hdrs"], c["title"], c["ops"]))
    rep.coverage["corpus_cases"] = len(cases)
    for i in range(n):
        cases.append(gen_history(rng, rng.choice([5, 10, 20, 40, 80])))
    # batch the model calls
    reqs = []
    reals = []
    for hdrs, title, ops in cases:
        real, purity = run_real(hdrs, title, ops)
        mh = hdrs if hdrs is not None else impl.DEFAULT_HEADERS
        reqs.append([7, list(mh), title, ops])
        reals.append((real, purity))
    replies = model.call_many(reqs)
    pairs = []
    ndis = 0
    for case, (real, purity), rp, rq in zip(cases, reals, replies, reqs):
        hdrs, title, ops = case
        mo = [norm_model_out(o) for o in rp]
        rep.count_case((hdrs, title, ops), nontrivial(ops))
        rep.dist("ops_total", len(ops))
        rep.dist("histories")
        for op in ops:
            rep.dist(f"op_{op[0]}")
        rep.dist("max_depth_%d" % max(len(op[1]) for op in ops))
        d = first_diff(real, mo)
        if purity or d is not None:
            ndis += 1
            if ndis <= 3:
                sh = shrink(model, case)
                real2, purity2, mo2, _ = check_case(model, sh)
                d2 = first_diff(real2, mo2)
                rep.violation(dict(
                    kind="purity" if purity2 else "serialisation differs from model/spec",
                    hdrs=sh[0], title=sh[1], ops=sh[2], purity=purity2, first_diff_op=d2,
                    impl=real2[d2] if d2 is not None and d2 < len(real2) else None,
                    model=mo2[d2] if d2 is not None and d2 < len(mo2) else None,
                    note="model output equals the spec by theorems C20_* (indent_exact, "
                         "options_before_content, order_preserved); the implementation disagrees"))
        if len(pairs) < 40 and len(ops) <= 12:
            pairs.append((rq, rp))
    rep.sample(dict(hdrs=cases[-1][0], title=cases[-1][1], ops=cases[-1][2][:8]))
    rep.coverage["disagreements"] = ndis
    rep.coverage["correspondence"]["RSTWriter API vs Model.Writer.wstep"] = len(cases)
    chk, bad = core.vm_crosscheck(pairs if tier == "quick" else pairs)
    rep.coverage["extraction_crosschecked"] = chk
    if bad:
        rep.violation(dict(kind="extraction-crosscheck", detail=str(bad)[:500]), no_input=True)


def replay(obj):
    model = core.Model()
    real, purity, mo, _ = check_case(model, (obj["hdrs"], obj["title"], obj["ops"]))
    d = first_diff(real, mo)
    print("purity:", purity)
    print("first differing op:", d)
    if d is not None:
        print("impl :", real[d] if d < len(real) else None)
        print("model:", mo[d] if d < len(mo) else None)
    return 1 if (purity or d is not None) else 0
