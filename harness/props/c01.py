"""C01 -- Doccomment text reaches the output verbatim.

Correspondence (a) DocumentationAggregator.clean_doc_lines on arbitrary line lists vs
Model.Aggregator.clean_doc_lines; (b) every entry rendered with names/signatures blanked and
doc texts kept (projection mode 2), non-ASCII text included, vs the model."""
import core
import gen
import pipe
from props.common_ast import ast_run, std_replay


def rand_lines(rng):
    """mostly doccomment-shaped line lists, plus a malformed stream"""
    r = rng.random()
    ind = rng.choice(["", "", "  ", "    ", "\t", " \t"])
    body = gen.rand_doc_lines(rng, 0, 6)
    if r < 0.6:      # canonical
        return ["#[[["] + [ind + ("# " + l if l else "#") for l in body] + [ind + "#]]"]
    if r < 0.7:      # leaderless, unindented
        return ["#[[["] + [l for l in body] + ["#]]"]
    if r < 0.8:      # @module
        return ["#[[[ @module " + gen.rand_ident(rng)] + [ind + "# " + l for l in body] + [ind + "#]]"]
    if r < 0.9:      # text on the opening line / one-liner
        if rng.random() < 0.5:
            return ["#[[[ " + gen.rand_doc_line(rng) + " #]]"]
        return ["#[[[ " + gen.rand_doc_line(rng)] + [ind + "# " + l for l in body] + [ind + "#]]"]
    # malformed: random pieces
    pieces = ["#", "[", "]", " ", "x", "#]]", "#[[[", "\t", "", "é", "  # y", "##", "\r"]
    return ["".join(rng.choice(pieces) for _ in range(rng.randint(0, 5))) for _ in range(rng.randint(1, 5))]


def run(rep, model, tier, seed, broken=()):
    rng = core.rng_for(seed, "C01", "clean")
    n = 1500 if tier == "quick" else 60000
    import impl
    cases = [rand_lines(rng) for _ in range(n)]
    replies = model.call_many([[1, ls] for ls in cases])
    bad = 0
    for ls, rp in zip(cases, replies):
        real = impl.clean_doc_lines(ls)
        mo = core.d_str(rp)
        rep.count_case(("clean", tuple(ls)), len(ls) > 2)
        rep.dist("clean_doc_lines:cases")
        rep.dist("clean_doc_lines:lines", len(ls))
        if real != ("ok", mo):
            bad += 1
            if bad <= 2:
                rep.violation(dict(kind="clean_doc_lines differs from the model (= spec by theorem "
                                        "clean_canonical on canonical blocks)", lines=ls, impl=real, model=mo))
    rep.coverage["correspondence"]["clean_doc_lines"] = n
    rep.sample(dict(clean_doc_lines_input=cases[0]))
    ast_run(rep, model, tier, seed, "C01", "doc-texts", 2, None, 700, 10000, ascii_only=False,
            gen_kw=dict(doc_p=0.75),
            rule="(a) clean_doc_lines on generated line lists (canonical / leaderless / @module / one-line / "
                 "malformed); (b) nested-AST modules with doc density 0.75 incl. non-ASCII text, every line-start "
                 "shape, blank lines, indentation by spaces/tabs; projection = every entry rendered with "
                 "names/signatures blanked and doc kept; non-trivial = >= 2 entries or > 2 lines; distinct by bytes")
    pipe.crosscheck(rep)


def replay(obj):
    if "lines" in obj:
        import impl
        model = core.Model()
        real = impl.clean_doc_lines(obj["lines"])
        mo = core.d_str(model.call([1, obj["lines"]]))
        print("impl:", real, "model:", repr(mo))
        return 0 if real == ("ok", mo) else 1
    return std_replay(obj)
