"""C04 -- Layout, comments and command-name case do not affect the output.

(a) token-stream correspondence CMakeLexer vs Model.Lexer.lex on grammar-driven and malformed
    strings; (b) the property as a metamorphic oracle on the implementation: one module AST printed
    under two layouts (trivia, annotation comments, re-indented doccomments, re-cased command names)
    gives byte-identical reST, LF vs CRLF identical after dropping line-end CRs and whitespace-only
    lines; the model is run on both layouts too (must agree with itself and the implementation)."""
import copy
import random

import core
import gen
import impl
import pipe

PIECES = ["foo", "(", ")", " ", "\n", "\t", "#", "#[[", "#[[[", "#]]", "]]", "[[", "[=[", "]=]", "\"", "\\", "\;",
          "\\n", "\\a", "\r", "\r\n", "a b", "${x}", "@module", " @module nm", "=", "[", "]", "x#y", "é", "🙂", ";",
          "$", "<", ">", "\\#", "\\#]]", "#[=[", "]==]", "#[=x", "\f", "1a", "_a", "-", "\\(", "\\\n", "\\ ", "\"a\"",
          "[[x]]", "#c\n", "#[[c]]", "set", "endfunction", " ", " ", "\\\r\n", "[==[", "]==]", "#[==[",
          "\\t", "a\;b", "@", "\"\\\"\"", "#[[[ @module", "#[[[\n# d\n#]]\n"]


def rand_lex_string(rng):
    r = rng.random()
    if r < 0.55:
        n = rng.choice([1, 2, 3, 4, 5, 6, 8, 12, 20])
        return "".join(rng.choice(PIECES) for _ in range(n))
    if r < 0.85:
        mod = gen.gen_module(rng, budget=rng.choice([2, 5, 10]))
        return gen.print_module(mod, rng, trivia_p=rng.choice([0, 0.3, 0.6]), eol=rng.choice(["\n", "\n", "\r\n"]))
    # byte-level mutation of a valid file
    mod = gen.gen_module(rng, budget=rng.choice([2, 5]))
    t = gen.print_module(mod, rng, trivia_p=0.3)
    for _ in range(rng.choice([1, 2, 3])):
        if not t:
            break
        p = rng.randrange(len(t))
        t = rng.choice([t[:p] + t[p + 1:], t[:p] + rng.choice(PIECES) + t[p:], t[:p] + t[p:p + 5] + t[p:]])
    return t


def relayout(mod, rng):
    """same token sequence: other doc indentation (uniform), everything else is the printer's business"""
    m = copy.deepcopy(mod)

    def rec(nodes):
        for n in nodes:
            if n.get("doc") is not None:
                if n["doc"].get("cuts"):
                    # a ragged block is re-indented by adding the same prefix to every line
                    n["doc"]["prefix"] = rng.choice(["  ", "    ", "\t", " \t", "      "])
                else:
                    n["doc"]["indent"] = rng.choice(["", "  ", "    ", "\t", "\t\t", " \t "])
            if "body" in n:
                rec(n["body"])
            if n.get("impl"):
                rec([n["impl"]])
    rec(m["body"])
    if m.get("module"):
        m["module"]["indent"] = rng.choice(["", "  ", "\t"])
    return m


def make_ragged(mod, rng, p=0.25):
    """some doccomment blocks get lines indented less than the block (still one token sequence
    under uniform re-indentation)"""
    def rec(nodes):
        for n in nodes:
            d = n.get("doc")
            if d is not None and n.get("kind") != "dangling" and d["indent"] and d["lines"] and rng.random() < p:
                k = rng.randint(1, min(2, len(d["indent"])))
                d["cuts"] = {rng.randrange(len(d["lines"])): k}
            if "body" in n:
                rec(n["body"])
            if n.get("impl"):
                rec([n["impl"]])
    rec(mod["body"])


def norm_crlf(text):
    lines = [l.rstrip("\r") for l in text.split("\n")]
    return [l for l in lines if l.strip() != ""]


def run(rep, model, tier, seed, broken=()):
    rng = core.rng_for(seed, "C04")
    nlex = 2000 if tier == "quick" else 80000
    npairs = 120 if tier == "quick" else 6000
    rep.coverage["rule"] = ("(a) strings from a piece alphabet of delimiters/escapes/comment openers, printed "
                            "generated modules (LF and CRLF) and byte-mutated files: CMakeLexer vs Model.Lexer.lex "
                            "token for token; (b) AST printed under two random layouts (trivia_p 0..0.6, annotation "
                            "comments incl. code-like and delimiter-like text, doc re-indentation, re-casing) and as "
                            "CRLF; non-trivial = >= 3 visible tokens / module with >= 2 nodes; distinct by text")
    # (a)
    strings = [rand_lex_string(rng) for _ in range(nlex)]
    replies = model.call_many([[2, x] for x in strings])
    nbad = 0
    pairs = []
    for x, rp in zip(strings, replies):
        real = impl.lex_tokens(x)
        mo = ("ok", [(k, core.d_str(t)) for k, t in rp[1]]) if rp[0] == 1 else ("err",)
        rep.count_case(("lex", x), rp[0] == 1 and len(rp[1]) >= 3)
        rep.dist("lex:" + ("ok" if rp[0] == 1 else "error"))
        rep.dist("lex:chars", len(x))
        same = real[0] == mo[0] and (real[0] != "ok" or real[1] == mo[1])
        if not same:
            nbad += 1
            if nbad <= 2:
                rep.violation(dict(kind="token stream of the implementation differs from the model lexer",
                                   text=x, impl=str(real)[:600], model=str(mo)[:600], oracle="lex"),
                              no_input=(real[0] == "ok" and mo[0] == "ok" and False))
        if len(pairs) < 15 and len(x) < 60:
            pairs.append(([2, x], rp))
    rep.coverage["correspondence"]["CMakeLexer vs Model.Lexer.lex"] = nlex
    rep.coverage["lex_disagreements"] = nbad
    rep.sample(dict(lexer_input=strings[0]))
    # (b)
    nv = 0
    for i in range(npairs):
        mod = gen.gen_module(rng, budget=rng.choice([4, 8, 16, 30]))
        make_ragged(mod, rng)
        s1, s2 = rng.getrandbits(40), rng.getrandbits(40)
        t1 = gen.print_module(mod, random.Random(s1), trivia_p=0.0)
        t2 = gen.print_module(relayout(mod, rng), random.Random(s2), trivia_p=rng.choice([0.2, 0.4, 0.6]))
        t3 = t2.replace("\r\n", "\n").replace("\n", "\r\n")
        c1, c2, c3 = (pipe.norm_case(dict(data=t)) for t in (t1, t2, t3))
        r1, r2, r3 = (pipe.impl_run(c, capture=False) for c in (c1, c2, c3))
        m1, m2 = (pipe.dec_page(r) for r in model.call_many([pipe.req_page(c1), pipe.req_page(c2)]))
        rep.count_case(("layout", t1, t2), gen.count_nodes(mod["body"]) >= 2)
        rep.dist("layout_pairs")
        rep.dist("layout:impl_" + r1["status"])
        prob = None
        if r1["status"] != r2["status"] or r1["text"] != r2["text"]:
            prob = "two layouts of one token sequence give different reST"
        elif r1["status"] == "ok" and r3["status"] == "ok" and norm_crlf(r1["text"]) != norm_crlf(r3["text"]):
            prob = "CRLF variant differs beyond line endings / whitespace-only lines"
        elif r1["status"] != r3["status"]:
            prob = "CRLF variant changes acceptance"
        elif m1["status"] != m2["status"] or m1["text"] != m2["text"]:
            prob = "model page differs between the two layouts (model bug)"
        if prob:
            nv += 1
            if nv <= 2:
                rep.violation(dict(kind=prob, layout1=t1, layout2=t2, out1=r1["text"], out2=r2["text"],
                                   out_crlf=r3["text"], status=[r1["status"], r2["status"], r3["status"]],
                                   model=[m1["status"], m2["status"]], oracle="layout"),
                              no_input=prob.startswith("model page"))
    for c in pipe.corpus_cases("C04"):
        c3 = dict(c, data=c["data"].replace(b"\r\n", b"\n").replace(b"\n", b"\r\n"))
        r1, r3 = pipe.impl_run(c, capture=False), pipe.impl_run(c3, capture=False)
        m1 = pipe.dec_page(model.call(pipe.req_page(c)))
        rep.count_case(("corpus", c["data"]), True)
        rep.dist("corpus_pages")
        prob = None
        if r1["status"] != m1["status"] or r1["text"] != m1["text"]:
            prob = "corpus scenario: page differs from the model"
        elif r1["status"] != r3["status"] or (r1["status"] == "ok" and norm_crlf(r1["text"]) != norm_crlf(r3["text"])):
            prob = "corpus scenario: CRLF variant differs beyond line endings / whitespace-only lines"
        if prob:
            nv += 1
            rep.violation(dict(kind=prob, layout1=c["data"].decode("utf-8", "replace"), layout2=c3["data"].decode("utf-8", "replace"),
                               out1=r1["text"], out2=r3["text"], model=[m1["status"]], oracle="layout"),
                          no_input=prob.endswith("model"))
    rep.coverage["layout_violations"] = nv
    rep.coverage["correspondence"]["layout pairs (impl metamorphic + model)"] = npairs
    chk, bad = core.vm_crosscheck(pairs)
    rep.coverage["extraction_crosschecked"] = chk
    if bad:
        rep.violation(dict(kind="extraction-crosscheck", detail=str(bad)[:500]), no_input=True)


def replay(obj):
    model = core.Model()
    if obj.get("oracle") == "lex":
        x = obj["text"]
        rp = model.call([2, x])
        print(repr(x))
        print("impl :", impl.lex_tokens(x))
        print("model:", [(k, core.d_str(t)) for k, t in rp[1]] if rp[0] == 1 else rp)
        return 1
    for k in ("layout1", "layout2"):
        r = pipe.impl_run(pipe.norm_case(dict(data=obj[k])), capture=False)
        print("----", k, r["status"])
        print(r["text"])
    return 1
