"""C07 -- Generated reST is structurally well formed.

(1) correspondence: the full page text of Documenter vs Model.Pipeline on modules whose doc texts are
drawn from valid reST constructs; (2) validation with docutils (stub directives for module / function
/ data / py:class / py:method / py:attribute / note / warning): no system message of level >= 3
(error), one title, then one module directive, then the entries as top-level siblings, every entry's
notes / warnings / fields / options / text / members inside that entry's directive.  The same block
skeleton is computed from the model's element tree (fid 13) and must equal the doctree's."""
import io
import re

import core
import gen
import impl
import pipe

from docutils import nodes
from docutils.core import publish_doctree
from docutils.parsers.rst import Directive, directives, roles

BLOCKS = [
    "A paragraph of text.",
    "First line of a paragraph\ncontinued on a second line.",
    ":param a: first parameter\n:type a: str",
    ":returns: nothing",
    "* item one\n* item two",
    "1. first\n2. second",
    "Example::\n\n    code here\n      indented more",
    ".. note::\n\n   Nested note body.",
    ".. warning:: inline warning text",
    ".. code::\n\n   set(x y)",
    "Term\n    Definition of the term.",
    "Text with ``literal`` and *emphasis* and **strong**.",
    "| line block one\n| line block two",
    "Unicode: é 中 🙂",
    ":param **kwargs: extra keyword arguments",
]


def valid_doc(rng):
    n = rng.choice([0, 1, 1, 2, 3, 4])
    return "\n\n".join(rng.choice(BLOCKS) for _ in range(n)).split("\n") if n else []


class Stub(Directive):
    has_content = True
    optional_arguments = 1
    final_argument_whitespace = True
    option_spec = {"value": directives.unchanged, "maxdepth": directives.unchanged}

    def run(self):
        node = nodes.container()
        node["stub"] = self.name
        node["argument"] = self.arguments[0] if self.arguments else ""
        node["opts"] = dict(self.options)
        self.state.nested_parse(self.content, self.content_offset, node)
        return [node]


_registered = False


def register():
    global _registered
    if _registered:
        return
    for name in ("module", "function", "data", "py:class", "py:method", "py:attribute", "toctree"):
        directives.register_directive(name, Stub)

    def class_role(name, rawtext, text, lineno, inliner, options=None, content=None):
        return [nodes.literal(rawtext, text)], []
    roles.register_local_role("class", class_role)
    _registered = True


def skeleton(node):
    """nesting of stub directives and admonitions"""
    out = []
    for ch in node.children:
        if isinstance(ch, nodes.container) and ch.get("stub"):
            out.append((ch["stub"], ch["argument"], skeleton(ch)))
        elif isinstance(ch, (nodes.note, nodes.warning)):
            out.append((ch.tagname, "", skeleton(ch)))
        elif isinstance(ch, nodes.Element):
            out += skeleton(ch) if not isinstance(ch, (nodes.literal_block, nodes.paragraph)) else []
    return out


def docutils_check(text):
    register()
    err = io.StringIO()
    doctree = publish_doctree(text, settings_overrides=dict(report_level=5, halt_level=5, warning_stream=err,
                                                           file_insertion_enabled=False, raw_enabled=False))
    msgs = [m for m in doctree.traverse(nodes.system_message) if m["level"] >= 3]
    if msgs:
        return dict(what="docutils reports an error-level message", message=msgs[0].astext()[:300]), None
    # one title first
    top = [c for c in doctree.children if not isinstance(c, (nodes.comment, nodes.system_message))]
    titles = [c for c in doctree.traverse(nodes.title)]
    if len(titles) != 1:
        return dict(what="document does not have exactly one title", count=len(titles)), None
    sk = skeleton(doctree)
    if not sk or sk[0][0] != "module":
        return dict(what="first directive is not the module directive", first=sk[:1]), sk
    if sum(1 for s in sk if s[0] == "module") != 1:
        return dict(what="more than one top-level module directive"), sk
    for s in sk[1:]:
        if s[0] not in ("function", "data", "py:class"):
            return dict(what="a top-level sibling is not an entry directive", kind=s[0]), sk
    return None, sk


def model_skeleton(elems):
    """same skeleton from the model's element tree (encoded by fid 13)"""
    out = []
    for e in elems:
        if e[0] == 4:        # Dir name args opts body
            name = core.d_str(e[1])
            arg = ",".join(core.d_str(a) for a in e[2])
            out.append((name, " ".join(arg.split()) if name not in ("note", "warning") else "", model_skeleton(e[4])))
    return out


def norm_skeleton(sk):
    return [(n, " ".join(a.split()) if n not in ("note", "warning") else "", norm_skeleton(ch)) for n, a, ch in sk]


def doc_skeleton_counts(doc_lines):
    """note/warning directives contributed by the doc text itself (they nest inside the entry too)"""
    return sum(1 for l in doc_lines if l.startswith(".. note::") or l.startswith(".. warning::"))


def run(rep, model, tier, seed, broken=()):
    n = 400 if tier == "quick" else 6000
    rng = core.rng_for(seed, "C07")
    rep.coverage["rule"] = ("nested-AST modules (every entry kind, classes nested to depth 3, empty doc texts) whose doc "
                            "texts are sequences of valid reST blocks (paragraphs, field lists, bullet / enumerated "
                            "lists, literal blocks, nested directives with indented bodies, definition lists, line "
                            "blocks, non-ASCII); page text impl vs model; docutils with stub directives; non-trivial = "
                            ">= 2 entries; distinct by bytes")
    old = gen.rand_doc_lines
    gen.rand_doc_lines = lambda r, lo=0, hi=6: valid_doc(r)
    old_kw = gen.KWARGS_P
    gen.KWARGS_P = 0.0
    nbad = 0
    ndoc = 0
    try:
        cases = [c for c in pipe.corpus_cases("C07") if not c["_name"].startswith("f")]
        for i in range(n):
            mod = gen.gen_module(rng, budget=rng.choice([4, 8, 16, 30]), max_depth=3,
                                 weights=dict(klass=3, dangling=0.1), doc_p=0.7)
            # argument values without line breaks (the property's premise)
            c = pipe.ast_case(mod, rng, trivia_p=rng.choice([0, 0.2]))
            cases.append(c)
        reqs = [pipe.req_page(c) for c in cases]
        replies = model.call_many(reqs)
        for c, rp in zip(cases, replies):
            mr = pipe.dec_page(rp)
            ir = pipe.impl_run(c, capture=False)
            rep.count_case(c["data"], mr["status"] == "ok" and mr["text"].count("\n.. ") >= 3)
            rep.dist("pages")
            prob = None
            dom = False
            if ir["status"] == "ok" and premise_ok(c):
                # the oracle is applied to the implementation's page whether or not the model agrees
                ndoc += 1
                prob, sk = docutils_check(ir["text"])
                if f28_trigger(ir["text"], prob):
                    rep.dist("known_F28_trigger_pages")
                    prob = None
                dom = prob is not None
            if prob is None and (ir["status"] != mr["status"] or ir["text"] != mr["text"]):
                prob = dict(what="page text differs from the model", impl_status=ir["status"], model_status=mr["status"],
                            impl=(ir["text"] or "")[:600], model=(mr["text"] or "")[:600])
                dom = False
                if ir["status"] == "ok" and mr["status"] == "ok" and premise_ok(c):
                    # is the difference a violation of the property itself?  (1) the nesting of the entry
                    # directives as docutils sees it differs from the model page's (the model page is proved
                    # to be read back as the entry skeleton); (2) a line left its entry: on a page without
                    # dangling doccomments every non-blank line after the title frame that starts in column 0
                    # opens a directive
                    try:
                        ski, skm = docutils_check(ir["text"])[1], docutils_check(mr["text"])[1]
                    except Exception:
                        ski = skm = None
                    stray = None if has_dangling(c) else stray_line(ir["text"])
                    if ski is not None and skm is not None and norm_skeleton(ski) != norm_skeleton(skm):
                        prob["what"] = "entries are not nested as in the model page (directive skeleton differs)"
                        dom = True
                    elif stray is not None:
                        prob["what"] = "a line of an entry starts in column 0: it is outside its entry's directive"
                        prob["line"] = stray
                        dom = True
            if prob:
                nbad += 1
                if nbad <= 3:
                    rep.violation(dict(kind="reST structure: " + prob["what"], diff=prob,
                                       page=(ir["text"] or "")[:3000],
                                       case=pipe.case_json({k: v for k, v in c.items() if k != "ast"})),
                                  no_input=not dom)
        rep.coverage["disagreements"] = nbad
        rep.coverage["docutils_validated_pages"] = ndoc
        for kf in core.load_known():
            if kf["property"] == "C07" and kf["status"] == "known":
                import json as _json
                w = _json.loads((core.VERIF / kf["witness"]).read_text())
                wc = pipe.case_from_json(w["case"])
                wr = pipe.impl_run(wc, capture=False)
                wp = docutils_check(wr["text"])[0] if wr["status"] == "ok" else None
                if f28_trigger(wr["text"], wp):
                    rep.known(kf["what"])
                    rep.coverage["known_findings_reconfirmed"] = rep.coverage.get("known_findings_reconfirmed", 0) + 1
                else:
                    import sys as _sys
                    print("KNOWN-FINDING-RESOLVED? witness of %s no longer fails as recorded" % kf["id"], file=_sys.stderr)
        rep.coverage["correspondence"]["page text: Documenter vs Model.Pipeline.document_bytes"] = len(cases)
        rep.sample(pipe.decode_preview(cases[-1]["data"], 500))
        rep._vm_pairs = [(rq, rp) for rq, rp in zip(reqs, replies) if len(rq[4]) < 300][:10]
        pipe.crosscheck(rep)
    finally:
        gen.rand_doc_lines = old
        gen.KWARGS_P = old_kw


F28_LINE = re.compile(r"^\s*:[^:\n]+: *([!-/:-@\[-`{-~])\1{3,}\s*$", re.M)


def f28_trigger(page, prob):
    """known finding F28: a field value that is a run of >= 4 identical punctuation characters is a reST
    transition marker: docutils reports 'Unexpected section title or transition' inside the field"""
    return bool(prob and "Unexpected section title or transition" in str(prob.get("message", ""))
                and F28_LINE.search(page or ""))


def has_dangling(c):
    from props.common_ast import walk
    if "ast" not in c:
        return b"#[[[" in c["data"] and True     # unknown structure: do not apply the column-0 rule
    return any(n.get("kind") == "dangling" for n in walk(c["ast"]["body"]))


def stray_line(page):
    lines = page.split("\n")
    for l in lines[4:]:          # after the empty first line and the three lines of the title frame
        if l and not l[0].isspace() and not l.startswith(".. "):
            return l[:120]
    return None


def premise_ok(c):
    """argument values contain no line breaks (quoted/bracket arguments spanning lines are outside
    the property's premise)"""
    from props.common_ast import walk

    def args_of(n):
        for k in ("args", "params", "supers", "types"):
            for a in n.get(k, []) or []:
                if isinstance(a, str):
                    yield a
                elif isinstance(a, list):
                    yield from (x for x in a[1] if isinstance(x, str))
        if n.get("default"):
            yield n["default"]
    if "ast" not in c:
        return True
    for n in walk(c["ast"]["body"]):
        if any("\n" in a or "\r" in a for a in args_of(n)):
            return False
    return True


def replay(obj):
    model = core.Model()
    c = pipe.case_from_json(obj["case"])
    ir = pipe.impl_run(c, capture=False)
    print(ir["text"])
    prob = None
    if ir["status"] == "ok":
        prob = docutils_check(ir["text"])[0]
        print(prob)
    mr = pipe.dec_page(model.call(pipe.req_page(c)))
    same = ir["status"] == mr["status"] and ir["text"] == mr["text"]
    print("model agrees:", same)
    return 1 if (prob or not same) else 0
