"""C08 -- include_undocumented_* options only affect commands without a doccomment.

(1) correspondence implementation/model under random flag vectors (all entries, doc blanked);
(2) the property itself as a metamorphic oracle on the implementation: the entries that stem from
    doccomment-carrying commands (origin known from the model's ghost flags, aligned by index)
    are identical under the flag vector and under the defaults, and every undocumented K-entry is
    present iff flag K -- on inputs outside the known finding F9 (documented cpp_class with
    include_undocumented_cpp_class off)."""
import json

import core
import gen
import pipe
from impl import FLAG_NAMES
from props.common_ast import std_replay, walk

KIND_FLAG = {0: "function", 1: "macro", 3: "option", 5: "add_test", 6: "ct_add_test", 7: "ct_add_section",
             8: "cpp_class"}


def has_documented_class(mod):
    return any(n["kind"] == "class" and n.get("doc") is not None for n in walk(mod["body"]))


def has_class(mod):
    return any(n["kind"] == "class" for n in walk(mod["body"]))


def f9_trigger(c):
    return (not c["flags"].get("cpp_class", True)) and "ast" in c and has_documented_class(c["ast"])


def f10_trigger(c):
    return "ast" in c and any(n["kind"] in ("member", "test") and n.get("impl") and n["impl"].get("doc") is not None
                              for n in walk(c["ast"]["body"]))


def prune_undocumented_members(obj, mentry):
    """drop the members of a class object that do not stem from a doccomment (ghost flags of the
    model entry, aligned by index); None if the shapes do not line up"""
    import copy
    o = copy.deepcopy(obj)
    # model entry encoding: [6, name, doc, supers, inner, ctors, members, attrs]; docd = last field
    _, _, _, _, _, ct, me, at = mentry
    if (len(ct), len(me), len(at)) != (len(o.constructors), len(o.members), len(o.attributes)):
        return None
    # the inner-class name list stems from OTHER commands (the inner cpp_class commands): a hidden
    # undocumented inner class is not listed (Coq: AggFlags.doc_view erases it as well)
    o.inner_classes = []
    o.constructors = [x for x, m in zip(o.constructors, ct) if m[-1]]
    o.members = [x for x, m in zip(o.members, me) if m[-1]]
    o.attributes = [x for x, m in zip(o.attributes, at) if m[-1]]
    return o


def missing_impl(c):
    """a member/test declaration without its implementing definition: outside the well-formed
    modules the property quantifies over (CMakePP/CMakeTest require the definition to follow)"""
    return "ast" in c and any(n["kind"] in ("member", "test") and not n.get("impl") for n in walk(c["ast"]["body"]))


def doc_entries(model, c):
    """entries stemming from doccomments (classes reduced to their documented members), full
    rendering, and the undocumented ones; origin = the model's ghost flags aligned by index"""
    ir = pipe.impl_run(c)
    r = model.call([6, pipe.model_settings(c), c["data"].decode("utf-8")])
    if ir["status"] != "ok" or r[0] != 0:
        return None
    entries, origins = r[1], r[2]
    if len(entries) != len(ir["docs"]):
        return None
    docd, undoc = [], []
    for obj, me, d in zip(ir["docs"], entries, origins):
        if me[0] == 6:
            obj = prune_undocumented_members(obj, me)
            if obj is None:
                return None
        (docd if d else undoc).append(obj)
    st = pipe.case_settings(c)
    return pipe.impl_entry_texts(docd, st, 0), pipe.impl_entry_texts(undoc, st, 0)


def oracle(model, c):
    """None if the property holds on this case, else a description"""
    base = dict(c, flags={})
    a = doc_entries(model, c)
    b = doc_entries(model, base)
    if a is None or b is None:
        return None
    if not c["flags"].get("cpp_class", True) and any(k == 8 for k, _ in b[0]):
        return None       # known finding F9 (also when the case carries no generator AST)
    if a[0] != b[0]:
        i = 0
        while i < min(len(a[0]), len(b[0])) and a[0][i] == b[0][i]:
            i += 1
        return dict(what="documented entries differ between flag vector and defaults", index=i,
                    with_flags=a[0][i] if i < len(a[0]) else None, default=b[0][i] if i < len(b[0]) else None,
                    flags=c["flags"])
    # switching K off removes every K-entry that has no doccomment
    left = undocumented_kinds_present(model, c)
    off = [k for k in (left or []) if not c["flags"].get(k, True)]
    if off:
        return dict(what="an undocumented entry is still present although its flag is off", kinds=off,
                    flags=c["flags"])
    return None


def undocumented_kinds_present(model, c):
    """flag names of the undocumented entries/members present under the case's flags"""
    ir = pipe.impl_run(c)
    r = model.call([6, pipe.model_settings(c), c["data"].decode("utf-8")])
    if ir["status"] != "ok" or r[0] != 0 or len(r[1]) != len(ir["docs"]):
        return None
    out = []
    for obj, me, d in zip(ir["docs"], r[1], r[2]):
        k = pipe.KIND_OF_CLASS.get(type(obj).__name__, -1)
        if not d and k in KIND_FLAG:
            out.append(KIND_FLAG[k])
        if me[0] == 6:
            _, _, _, _, _, ct, mem, at = me
            if (len(ct), len(mem), len(at)) == (len(obj.constructors), len(obj.members), len(obj.attributes)):
                out += ["cpp_constructor" for m in ct if not m[-1]]
                out += ["cpp_member" for m in mem if not m[-1]]
                out += ["cpp_attr" for m in at if not m[-1]]
    return out


def run(rep, model, tier, seed, broken=()):
    n = 500 if tier == "quick" else 8000
    rng = core.rng_for(seed, "C08")
    gen.set_ascii(True)
    rep.coverage["rule"] = ("nested-AST modules mixing documented and undocumented commands of every kind (classes "
                            "with members, sibling/nested classes) x random include_undocumented_* vectors (each flag "
                            "off with p=0.35; thorough adds all 1024 vectors on fixed modules); (1) correspondence "
                            "impl/model under the vector, (2) metamorphic oracle impl(vector) vs impl(defaults) on "
                            "doccomment entries; non-trivial = >= 2 entries and >= 1 flag off; distinct by bytes+flags")
    try:
        cases = []
        cases += [c for c in pipe.corpus_cases("C08") if c["_name"].startswith("s_")]
        for i in range(n):
            mod = gen.gen_module(rng, budget=rng.choice([6, 12, 24, 40]),
                                 weights=dict(klass=3, defn=3, test=2, option=2, add_test=1.5))
            flags = {nme: (rng.random() >= 0.35) for nme in FLAG_NAMES}
            cases.append(pipe.ast_case(mod, rng, trivia_p=rng.choice([0, 0.2]), flags=flags))
        if tier == "thorough":
            fixed = [gen.gen_module(core.rng_for(seed, "C08", "fixed", j), budget=25,
                                    weights=dict(klass=3, defn=3, test=2, option=2, add_test=1.5)) for j in range(6)]
            for mod in fixed:
                for bits in range(1024):
                    flags = {nme: bool(bits >> i & 1) for i, nme in enumerate(FLAG_NAMES)}
                    cases.append(pipe.ast_case(mod, rng, trivia_p=0.0, flags=flags))
        rep.sample(dict(flags=cases[0]["flags"], file=pipe.decode_preview(cases[0]["data"], 400)))
        outside = pipe.run_projection(
            rep, model, cases, 1, None, "entries-under-flags",
            nontrivial=lambda c, mr: mr["status"] == "ok" and len(mr["entries"]) > 1 and not all(
                c["flags"].get(nme, True) for nme in FLAG_NAMES))
        pipe.finish_projection(rep, outside, "entries-under-flags")
        # metamorphic oracle
        nviol = 0
        nf9 = 0
        nhyp = 0
        for c in cases if tier == "quick" else cases[:3000]:
            if f9_trigger(c):
                nf9 += 1
                continue
            if missing_impl(c):
                continue      # trigger of known finding F26 (decls_followed = false)
            nhyp += 1
            o = oracle(model, c)
            if o:
                nviol += 1
                if nviol <= 2:
                    c2 = pipe.shrink_ast(c, lambda x: not f9_trigger(x) and not missing_impl(x) and oracle(model, x))
                    rep.violation(dict(kind="include flags changed a doccomment entry", diff=oracle(model, c2) or o,
                                       case=pipe.case_json({k: v for k, v in c2.items() if k != "ast"}),
                                       oracle="metamorphic"))
        rep.coverage["hypothesis_satisfied"] = nhyp
        rep.coverage["skipped_known_F9_trigger"] = nf9
        # known finding F9: reconfirm the recorded witness
        for kf in core.load_known():
            if kf["property"] == "C08" and kf["status"] == "known":
                w = json.loads((core.VERIF / kf["witness"]).read_text())
                c = pipe.case_from_json(w["case"])
                a = doc_texts_full(c)
                b = doc_texts_full(dict(c, flags={}))
                if a != b and w["expect_missing"] in b and w["expect_missing"] not in a:
                    rep.known(kf["what"])
                    rep.coverage["known_findings_reconfirmed"] = rep.coverage.get("known_findings_reconfirmed", 0) + 1
                else:
                    print("KNOWN-FINDING-RESOLVED? witness of %s no longer fails as recorded" % kf["id"],
                          file=__import__("sys").stderr)
        pipe.crosscheck(rep)
    finally:
        gen.set_ascii(False)


def doc_texts_full(c):
    ir = pipe.impl_run(c)
    return ir["text"] if ir["status"] == "ok" else ir["status"]


def replay(obj):
    if obj.get("oracle") == "metamorphic":
        model = core.Model()
        c = pipe.case_from_json(obj["case"])
        a = doc_texts_full(c)
        b = doc_texts_full(dict(c, flags={}))
        print("flags:", c["flags"])
        print("--- with flags ---\n", a, "\n--- defaults ---\n", b)
        return 1
    return std_replay(obj)
