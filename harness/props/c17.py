"""C17 -- Output is a function of contents, relative paths and settings only.

The model takes the environment explicitly (cwd, input spelling, listing order = tree order) and is
compared with the base run; the implementation is then re-run under variations that must not
change a byte: repeated in one process, other working directories and spellings of the input, the
tree moved to another absolute location, other listing permutations, other hash seeds
(subprocesses), and embedded between other inputs of the same invocation."""
import json
import os
import shutil
import subprocess

import core
import treeh
from props import common_tree as ct
from props.c13 import compare as compare_files

OTHER_A = b"#[[[ @module other.first\n# x\n#]]\n#[[[\n# :param **kwargs: k\n#]]\nfunction(oa a)\n  cmake_parse_arguments(x \"\" \"\" \"\")\nendfunction()\n"
OTHER_B = b"#[[[\n# B\n#]]\nmacro(ob)\nendmacro()\ncpp_class(K)\ncpp_end_class()\n"


def run_variant(case):
    tr = treeh.TreeRun(case)
    try:
        tr.layout()
        return tr, tr.run_impl()
    finally:
        tr.cleanup()


def subprocess_run(case, hashseed):
    """the CLI in a fresh interpreter with another hash seed"""
    tr = treeh.TreeRun(case)
    try:
        tr.layout()
        env = dict(os.environ, PYTHONPATH=str(core.REPO / "src"), PYTHONHASHSEED=str(hashseed))
        p = subprocess.run([core.PY, "-B", "-W", "ignore", str(core.REPO / "src" / "main.py")] + tr.argv,
                           cwd=tr.cwd, env=env, stdout=subprocess.PIPE, stderr=subprocess.PIPE, timeout=120)
        files = {}
        if tr.out_abs and os.path.isdir(tr.out_abs):
            for d, _, fs in os.walk(tr.out_abs):
                for f in fs:
                    files[os.path.relpath(os.path.join(d, f), tr.out_abs)] = open(os.path.join(d, f), "rb").read()
        return p.returncode, files
    finally:
        tr.cleanup()


def embedded_run(case, base_files=()):
    """the same input between two other single-file inputs in one invocation"""
    tr = treeh.TreeRun(case)
    try:
        tr.layout()
        a = os.path.join(tr.root, "decoys", "zz_other_first.cmake")
        b = os.path.join(tr.root, "decoys", "zz_other_last.cmake")
        open(a, "wb").write(OTHER_A)
        open(b, "wb").write(OTHER_B)
        # ... and after a DIRECTORY input (its default prefix, index and settings must not leak
        # into the inputs documented after it)
        ddir = os.path.join(tr.root, "decoys", "zz_decoy_dir")
        os.makedirs(ddir, exist_ok=True)
        open(os.path.join(ddir, "zz_decoy_d1.cmake"), "wb").write(OTHER_B)
        single = "tree" not in case
        tr.argv = [ddir, a, tr.argv[0], b] + tr.argv[1:]
        ir = tr.run_impl()
        drop = {"zz_other_first.rst", "zz_other_last.rst", "zz_decoy_d1.rst"}
        if single or "index.rst" not in base_files:
            drop.add("index.rst")      # written by the decoy directory only
        ir["outfiles"] = {k: v for k, v in ir["outfiles"].items() if k not in drop}
        return ir
    finally:
        tr.cleanup()


def run(rep, model, tier, seed, broken=()):
    n = 60 if tier == "quick" else 1000
    nsub = 6 if tier == "quick" else 80
    rng = core.rng_for(seed, "C17")
    rep.coverage["rule"] = ("generated trees and single files; base run compared with the model, then re-run: twice in "
                            "one process, from other working directories / input spellings, at another absolute "
                            "location, under another listing permutation, embedded between other inputs, and (sampled) "
                            "in subprocesses with PYTHONHASHSEED 1 and 4242; every output tree byte-compared with the "
                            "base run; non-trivial = tree with >= 3 nodes; distinct by case hash")
    nbad = 0
    nvar = 0
    cases = [ct.gen_case(rng, patterns_p=0.2, single_p=0.2, missing_p=0.0, out_modes=("abs", "abs", "rel"))
             for _ in range(n)]
    for idx, case in enumerate(cases):
        base = dict(case, cwd="parent", spelling="abs", location="work")
        tr, ir, mv, _ = treeh.run_case(model, base)
        ct.dist(rep, case, "det")
        rep.count_case(json.dumps(treeh.case_json(case), sort_keys=True, default=str),
                       "tree" not in case or sum(1 for _ in treeh.walk_tree(case["tree"])) >= 3)
        prob = compare_files(tr, ir, mv, tr.case)
        if prob is None and tr.out_abs is not None:
            for k in mv["files"]:
                if ir["outfiles"].get(k) != mv["files"][k]:
                    prob = dict(what="bytes differ from the model", file=k)
                    break
        variants = []
        if prob is None:
            variants.append(("repeat", base))
            variants.append(("cwd elsewhere + relative spelling", dict(base, cwd="elsewhere", spelling="rel")))
            variants.append(("moved to another location", dict(base, location=os.path.join("locA", "locB", "locC"))))
            if "tree" in case:
                variants.append(("cwd inside + '.'", dict(base, spelling="dot")))
                variants.append(("trailing slash", dict(base, spelling="trailing")))
                variants.append(("listing permutation", dict(base, tree=treeh.permute(case["tree"], rng))))
            for name, v in variants:
                t2, i2 = run_variant(v)
                nvar += 1
                rep.dist("det:variant " + name)
                if i2["status"] != ir["status"] or i2["outfiles"] != ir["outfiles"]:
                    diff = sorted(k for k in set(ir["outfiles"]) | set(i2["outfiles"])
                                  if ir["outfiles"].get(k) != i2["outfiles"].get(k))
                    prob = dict(what="output changed under variation: " + name, files=diff[:5], argv_variant=t2.argv,
                                a=ir["outfiles"].get(diff[0], b"").decode("utf-8", "replace")[:300] if diff else None,
                                b=i2["outfiles"].get(diff[0], b"").decode("utf-8", "replace")[:300] if diff else None)
                    break
        if prob is None and ir["status"] == 0 and tr.out_abs is not None:
            i3 = embedded_run(base, set(ir["outfiles"]))
            nvar += 1
            rep.dist("det:variant embedded between other inputs")
            if i3["status"] != 0 or i3["outfiles"] != ir["outfiles"]:
                prob = dict(what="output changed when other files are documented before/after in the same run",
                            files=sorted(k for k in set(ir["outfiles"]) | set(i3["outfiles"])
                                         if ir["outfiles"].get(k) != i3["outfiles"].get(k))[:5])
        if prob is None and idx < nsub and tr.out_abs is not None:
            for hs in (1, 4242):
                rc, files = subprocess_run(base, hs)
                nvar += 1
                rep.dist("det:variant subprocess PYTHONHASHSEED")
                if rc != ir["status"] or files != ir["outfiles"]:
                    prob = dict(what=f"output changed under PYTHONHASHSEED={hs}", rc=rc)
                    break
        if prob:
            nbad += 1
            if nbad <= 3:
                rep.violation(dict(kind="determinism: " + prob["what"], diff=prob, argv=tr.argv,
                                   case=treeh.case_json(base), tree=ct.describe(base)))
    # a file among others vs the same file alone at the same relative path: what is written for one
    # file must not depend on which other files were documented before it in the run (caches,
    # shared mutable lists, class attributes).  Files share signatures on purpose, parameter strip
    # regexes and the kwargs trigger are configured, the first file uses cmake_parse_arguments.
    nalone = 8 if tier == "quick" else 150
    for i in range(nalone):
        sig = rng.choice(["a_in b_in", "x", "first_arg second_arg third_arg", "p_1 p_2"])
        kind = rng.choice(["function", "macro"])
        def body(j, cpa):
            doc = "#[[[\n# Doc %d.%s\n#]]\n" % (j, "\n#\n# :keyword k: v" if rng.random() < 0.2 else "")
            inner = "  cmake_parse_arguments(ARG \"\" \"\" \"\" ${ARGN})\n" if cpa else "  set(y 1)\n"
            return ("%s%s(shared_%d %s)\n%send%s()\n" % (doc if rng.random() < 0.7 else "", kind, j, sig, inner, kind)).encode()
        names = ["alpha.cmake", "beta.cmake", "gamma.cmake"]
        files = [dict(name=n, kind="f", content=body(j, j == 0 or rng.random() < 0.3)) for j, n in enumerate(names)]
        sub = dict(name="tools", kind="d", children=[dict(name="delta.cmake", kind="f", content=body(3, False))])
        tree = files + [sub]
        settings = {"function_parameter_name_strip_regex": rng.choice(["_in$", "^p_", "", "_arg$"]),
                    "macro_parameter_name_strip_regex": rng.choice(["_in$", "", "^p_"]),
                    "kwargs_doc_trigger_string": ":keyword"}
        case = dict(tree=tree, out="abs", recursive=True, auto_exclude=False, cwd="parent", spelling="abs",
                    location="work", prefix_cli="pfx", **settings)
        tfull, ifull = run_variant(case)
        rep.count_case(json.dumps(["alone", sig, kind, settings, i], sort_keys=True), True)
        for rel in (("beta.cmake",), ("gamma.cmake",), ("tools", "delta.cmake")):
            def restrict(children, path):
                out = []
                for c in children:
                    if c["name"] == path[0]:
                        out.append(c if len(path) == 1 else dict(c, children=restrict(c["children"], path[1:])))
                return out
            talone, ialone = run_variant(dict(case, tree=restrict(tree, rel)))
            nvar += 1
            rep.dist("det:variant file alone vs among files with the same signatures")
            page = "/".join(rel)[:-len(".cmake")] + ".rst"
            if ifull["status"] != 0 or ialone["status"] != 0 or ifull["outfiles"].get(page) != ialone["outfiles"].get(page):
                nbad += 1
                if nbad <= 3:
                    rep.violation(dict(kind="determinism: the page of a file depends on the other files documented in the same run",
                                       diff=dict(page=page, among_others=(ifull["outfiles"].get(page) or b"").decode("utf-8", "replace")[:500],
                                                 alone=(ialone["outfiles"].get(page) or b"").decode("utf-8", "replace")[:500]),
                                       argv=tfull.argv, case=treeh.case_json(case), tree=ct.describe(case)))
                break
    # files of one directory that map to the SAME page (extension matched case-insensitively:
    # helpers.cmake / helpers.CMAKE).  Which one wins is fixed by the sorted processing order, so
    # the generated files must still not depend on the listing order (implementation-only check;
    # such trees are outside the hypotheses of the C13/C15 theorems).
    ncoll = 6 if tier == "quick" else 120
    for i in range(ncoll):
        stem = rng.choice(["helpers", "a", "util", "Upper"])
        exts = rng.sample([".cmake", ".CMAKE", ".CMake", ".cMaKe"], 2)
        files = [dict(name=stem + e, kind="f", content=("#[[[\n# from %s\n#]]\nfunction(f_%d a)\nendfunction()\n" % (stem + e, j)).encode())
                 for j, e in enumerate(exts)]
        other = [dict(name="z_other.cmake", kind="f", content=b"set(x y)\n"),
                 dict(name="first.cmake", kind="f", content=b"macro(m)\nendmacro()\n")]
        sub = dict(name="lib", kind="d", children=files + [dict(name="keep.cmake", kind="f", content=b"set(k v)\n")])
        tree = other + ([sub] if rng.random() < 0.6 else files)
        case = dict(tree=tree, out="abs", recursive=True, auto_exclude=rng.random() < 0.5,
                    cwd="parent", spelling="abs", location="work")

        def ordered(children, rev):
            out = [dict(c, children=ordered(c["children"], rev)) if c["kind"] == "d" else c for c in children]
            return sorted(out, key=lambda c: c["name"], reverse=rev)
        t1, i1 = run_variant(dict(case, tree=ordered(tree, False)))
        t2, i2 = run_variant(dict(case, tree=ordered(tree, True)))
        t3, i3 = run_variant(dict(case, tree=sorted(ordered(tree, False), key=lambda c: c["name"].swapcase())))
        nvar += 3
        rep.dist("det:variant colliding page names x listing order")
        rep.count_case(json.dumps(["collide", stem, exts, i]), True)
        for other_run, label in ((i2, "descending"), (i3, "swapcase")):
            if other_run["status"] != i1["status"] or other_run["outfiles"] != i1["outfiles"]:
                diff = sorted(k for k in set(i1["outfiles"]) | set(other_run["outfiles"])
                              if i1["outfiles"].get(k) != other_run["outfiles"].get(k))
                nbad += 1
                if nbad <= 3:
                    rep.violation(dict(kind="determinism: generated files depend on the directory listing order "
                                            "(two inputs of one directory map to the same page)",
                                       diff=dict(files=diff[:5], listing=label,
                                                 a=i1["outfiles"].get(diff[0], b"").decode("utf-8", "replace")[:300] if diff else None,
                                                 b=other_run["outfiles"].get(diff[0], b"").decode("utf-8", "replace")[:300] if diff else None),
                                       argv=t1.argv, case=treeh.case_json(dict(case, tree=ordered(tree, False))),
                                       tree=ct.describe(case)))
                break
    rep.coverage["disagreements"] = nbad
    rep.coverage["variations_run"] = nvar
    rep.coverage["correspondence"]["base run vs Model.Walk.document (bytes)"] = len(cases)
    rep.sample(ct.describe(cases[-1]))


def replay(obj):
    model = core.Model()
    case = treeh.case_from_json(obj["case"])
    tr, ir, mv, _ = treeh.run_case(model, case)
    print("argv:", tr.argv, "status", ir["status"])
    print(obj.get("diff"))
    return 1
