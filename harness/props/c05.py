"""C05 -- Every valid CMake file is accepted, with CMake's argument boundaries.

Oracle = a reference generator written from cmake-language(7) (harness/gen_cmake.py, independent of
CMake.g4): every generated file is valid CMake and comes with the invocations CMake sees.
(a) implementation parse tree == reference invocations == model parse, and Documenter.process()
    completes; (b) corpus: the CMake modules shipped under /usr/share/cmake-3.25 must be accepted by
    implementation and model alike with identical invocations; (c) thorough: the reference generator is
    itself validated against real cmake -P (ARGC/ARGV boundaries)."""
import glob
import os
import shutil
import subprocess

import core
import gen_cmake
import impl
import pipe

CORPUS_GLOB = "/usr/share/cmake-3.25/**/*.cmake"
NOT_CMAKE = {"run_nvcc.cmake"}     # configure-time template with stray @VAR@ between commands: not valid CMake


def model_invocations(model_reply):
    if model_reply[0] != 0:
        return ("err", {1: "parser", 2: "lexer", 3: "decode"}[model_reply[0]])
    mod, elems = model_reply[1]
    out = []

    def leaves(args):
        r = []
        for a in args:
            if a[0] == 0:
                r.append(core.d_str(a[2]))
            else:
                r.append("(")
                r += leaves(a[1])
                r.append(")")
        return r
    for e in elems:
        if e[0] == 0:
            c = e[2]
        elif e[0] == 1:
            c = e[1]
        else:
            continue
        out.append((core.d_str(c[0]), leaves(c[1])))
    return ("ok", out)


def check_file(rep, model_reply, data, expected, origin):
    """returns a problem dict or None"""
    ip = impl.parse_invocations(data)
    mp = model_invocations(model_reply)
    ir = pipe.impl_run(pipe.norm_case(dict(data=data)), capture=False)
    if expected is not None:
        if ip[0] != "ok":
            return dict(what="valid CMake file rejected by the parser", impl=ip, origin=origin, in_domain=True)
        if [(n, a) for n, a in ip[1]] != expected:
            return dict(what="argument boundaries differ from CMake's", impl=ip[1][:6], expected=expected[:6],
                        origin=origin, in_domain=True)
        if ir["status"] != "ok":
            return dict(what="Documenter.process() failed on a valid file", impl=ir["status"], exc=ir["exc"],
                        origin=origin, in_domain=True)
    if ip[0] != mp[0] or (ip[0] == "ok" and [(n, a) for n, a in ip[1]] != mp[1]):
        return dict(what="implementation parse differs from model parse", impl=str(ip)[:500], model=str(mp)[:500],
                    origin=origin, in_domain=False)
    return None


def run(rep, model, tier, seed, broken=()):
    rng = core.rng_for(seed, "C05")
    ngen = 300 if tier == "quick" else 12000
    ncorp = 70 if tier == "quick" else 100000
    rep.coverage["rule"] = ("(a) files derived from the cmake-language(7) reference generator (all argument forms, "
                            "escapes, continuations, bracket levels 0..3, comment shapes next to arguments, the special "
                            "characters inside each form, non-ASCII text, nested parentheses, balanced definition "
                            "blocks) with the invocations CMake sees; (b) CMake's own modules under /usr/share/cmake-3.25; "
                            "non-trivial = >= 2 invocations; distinct by bytes")
    files = []
    for i in range(ngen):
        g = gen_cmake.CMakeGen(rng, ascii_only=rng.random() < 0.3, trivia_p=rng.choice([0.0, 0.2, 0.5]))
        text, inv = g.file(rng.choice([1, 2, 4, 8, 15]))
        data = text.encode("utf-8")
        if rng.random() < 0.04:
            data = b"\xef\xbb\xbf" + data        # CMake >= 3.0 allows a leading UTF-8 BOM
        files.append((data, inv, "generated"))
    import json
    for f in sorted((core.CORPUS / "C05").glob("*.json")):
        w = json.loads(f.read_text())
        files.append((bytes.fromhex(w["case"]["data_hex"]),
                      [(n, a) for n, a in w["expected"]] if "expected" in w else "accept", "witness " + f.name))
    corpus = sorted(glob.glob(CORPUS_GLOB, recursive=True))
    rng2 = core.rng_for(seed, "C05", "corpus")
    if len(corpus) > ncorp:
        corpus = rng2.sample(corpus, ncorp)
    for f in corpus:
        data = open(f, "rb").read()
        files.append((data, None if os.path.basename(f) in NOT_CMAKE else "accept", f))
    rep.coverage["corpus_files"] = len(corpus)
    reqs = [[10, list(data)] for data, inv, origin in files]
    replies = model.call_many(reqs)
    nbad = 0
    outside = []
    for (data, inv, origin), rp in zip(files, replies):
        expected = inv if isinstance(inv, list) else None
        prob = check_file(rep, rp, data, expected, origin)
        rep.count_case(data, (len(inv) >= 2) if isinstance(inv, list) else True)
        rep.dist("files:" + ("generated" if origin == "generated" else "witness" if origin.startswith("witness") else "cmake-modules"))
        rep.dist("bytes", len(data))
        if inv == "accept" and prob is None:
            ip = impl.parse_invocations(data)
            if ip[0] != "ok":
                prob = dict(what="a module shipped with CMake is rejected", impl=ip, origin=origin, in_domain=True)
            else:
                ir = pipe.impl_run(pipe.norm_case(dict(data=data)), capture=False)
                if ir["status"] != "ok":
                    prob = dict(what="Documenter.process() fails on a module shipped with CMake",
                                impl=ir["status"], exc=ir["exc"], origin=origin, in_domain=True)
        if prob:
            if prob.pop("in_domain"):
                nbad += 1
                if nbad <= 3:
                    rep.violation(dict(kind=prob["what"], diff=prob, case=pipe.case_json(dict(data=data))))
            else:
                outside.append((data, prob))
    # (c) balanced CMakePP / CMakeTest modules (function/macro and class blocks balanced, member and test
    # declarations with their implementing definitions at every nesting position): processed to completion
    import gen
    from props.common_ast import walk
    nmods = 150 if tier == "quick" else 6000
    rng3 = core.rng_for(seed, "C05", "modules")
    ncrash = 0
    for i in range(nmods):
        mod = gen.gen_module(rng3, budget=rng3.choice([4, 8, 16, 30]), max_depth=5,
                             weights=dict(defn=4, test=3, klass=2.5, block=2))
        if any(n.get("rawargs") is not None for n in walk(mod["body"])):
            continue            # deliberately malformed arity
        c = pipe.ast_case(mod, rng3, trivia_p=rng3.choice([0, 0.2]))
        ir = pipe.impl_run(c, capture=False)
        rep.count_case(c["data"], True)
        rep.dist("files:balanced-cmakepp-modules")
        if ir["status"] != "ok":
            ncrash += 1
            nbad += 1
            if ncrash <= 2:
                rep.violation(dict(kind="Documenter.process() failed on a balanced CMakePP module",
                                   diff=dict(impl=ir["status"], exc=ir["exc"]),
                                   case=pipe.case_json({k: v for k, v in c.items() if k != "ast"})))
    rep.coverage["disagreements"] = nbad
    rep.coverage["correspondence"]["parse tree vs reference invocations vs Model.Parser"] = len(files)
    rep.sample(dict(file=pipe.decode_preview(files[0][0], 300), invocations=files[0][1][:3]))
    if outside and not rep.violations:
        data, prob = outside[0]
        rep.violation(dict(kind="correspondence parser/model broken", broken="correspondence impl parse vs Model.Parser",
                           diff=prob, case=pipe.case_json(dict(data=data))), no_input=True)
    if tier == "thorough":
        validate_against_cmake(rep, rng)
    rep._vm_pairs = [(rq, rp) for rq, rp in zip(reqs, replies) if len(rq[1]) < 200][:12]
    pipe.crosscheck(rep)


PROBE = """
function(probe)
  file(APPEND "${OUT}" "${ARGC}\\n")
  math(EXPR last "${ARGC} - 1")
  if(ARGC GREATER 0)
    foreach(i RANGE 0 ${last})
      string(LENGTH "${ARGV${i}}" n)
      file(APPEND "${OUT}" "${n}\\n")
    endforeach()
  endif()
endfunction()
"""


def validate_against_cmake(rep, rng, n=150):
    """the reference generator vs real CMake: number of arguments of probe(<args>) as CMake counts
    them (parentheses arrive as separate arguments).  Only evaluation-neutral arguments are used."""
    wd = core.scratch_dir("cminx_c05_")
    ok = bad = 0
    try:
        for i in range(n):
            g = gen_cmake.CMakeGen(rng, ascii_only=True, trivia_p=0.3)
            # arguments without $, ;, @, backslash: evaluation is the identity on boundaries
            while True:
                t, leaves = g.arguments()
                if not any(ch in t for ch in "$;@\\") and leaves:
                    break
            script = os.path.join(wd, "p.cmake")
            outf = os.path.join(wd, "out.txt")
            if os.path.exists(outf):
                os.remove(outf)
            open(script, "w").write(PROBE + "probe(" + t + ")\n")
            p = subprocess.run(["cmake", f"-DOUT={outf}", "-P", script], stdout=subprocess.PIPE,
                               stderr=subprocess.PIPE, timeout=60)
            if p.returncode != 0 or not os.path.exists(outf):
                bad += 1
                continue
            argc = int(open(outf).read().split()[0])
            if argc == len(leaves):
                ok += 1
            else:
                bad += 1
                rep.coverage["notes"].append(f"reference generator disagrees with cmake on: probe({t}) argc={argc} vs {len(leaves)}")
        rep.coverage["reference_grammar_validated_against_cmake"] = dict(agree=ok, disagree=bad)
    finally:
        shutil.rmtree(wd, ignore_errors=True)


def replay(obj):
    model = core.Model()
    c = pipe.case_from_json(obj["case"])
    print(pipe.decode_preview(c["data"], 1500))
    ip = impl.parse_invocations(c["data"])
    print("impl parse:", str(ip)[:800])
    try:
        print("model parse:", str(model_invocations(model.call([10, list(c["data"])])))[:800])
    except Exception as e:
        print("model:", e)
    ir = pipe.impl_run(c, capture=False)
    print("process():", ir["status"], ir["exc"])
    return 1 if (ip[0] != "ok" or ir["status"] != "ok") else 0
