"""C06 -- Unreadable input fails loudly, never silently truncated.

Fault injector: valid generated modules get a lexical/syntactic fault (stray or unterminated
double quote, backslash before an alphanumeric or at end of file, unterminated #[[ / #[=[,
extra or missing parenthesis, bare word) at positions outside comments, singly and in pairs.
Oracle = the model (a file is accepted iff the whole character sequence lexes and parses:
theorems lex_accounts_for_every_char, ok_only_from_whole_file, the fault lemmas).  In-process:
Documenter must raise exactly when the model rejects, and produce the model's page otherwise.
CLI (sampled): non-zero exit status and no .rst for the faulty file."""
import os
import shutil
import subprocess

import core
import gen
import pipe

FAULTS = ["quote", "backslash_alnum", "backslash_eof", "open_bracket_comment", "open_bracket_comment_eq",
          "extra_lparen", "extra_rparen", "drop_paren", "bare_word"]
COMMENT_KINDS = {12, 13, 3, 4}       # bracket comment, line comment, module docstring, docstring


def positions_outside_comments(model, text):
    """character offsets at which an insertion does not land inside a comment/doccomment"""
    r = model.call([3, text])
    if r[0] != 1:
        return [], []
    pos = 0
    ok = [0]
    parens = []
    for k, t in r[1]:
        n = len(t)
        if k not in COMMENT_KINDS:
            ok.extend(range(pos + 1, pos + n + 1))
            if k in (1, 2):
                parens.append(pos)
        else:
            # the boundary after a comment is a legal position only if the comment is closed
            # by a newline / terminator (it always is for accepted files)
            ok.append(pos + n)
        pos += n
    return sorted(set(ok)), parens


def inject(rng, text, positions, parens, fault):
    if fault == "backslash_eof":
        return text + "\\"
    if fault == "drop_paren":
        if not parens:
            return None
        p = rng.choice(parens)
        return text[:p] + text[p + 1:]
    if not positions:
        return None
    p = rng.choice(positions)
    ins = {"quote": '"', "backslash_alnum": "\\" + rng.choice("aZ5"), "open_bracket_comment": "#[[ ",
           "open_bracket_comment_eq": "#[=[ ", "extra_lparen": "(", "extra_rparen": ")",
           "bare_word": rng.choice([" stray ", "\nword\n", " x"])}[fault]
    return text[:p] + ins + text[p:]


def cli_run(data, workdir):
    """python src/main.py -o out file  ->  (exit status, rst files written)"""
    src = os.path.join(workdir, "faulty.cmake")
    out = os.path.join(workdir, "out")
    shutil.rmtree(out, ignore_errors=True)
    with open(src, "wb") as f:
        f.write(data)
    env = dict(os.environ, PYTHONPATH=str(core.REPO / "src"))
    p = subprocess.run([core.PY, "-B", "-W", "ignore", str(core.REPO / "src" / "main.py"), "-o", out, src],
                       stdout=subprocess.PIPE, stderr=subprocess.PIPE, env=env, timeout=120)
    files = []
    for root, _, fs in os.walk(out):
        files += [os.path.join(root, f) for f in fs]
    return p.returncode, files, p.stderr.decode("utf-8", "replace")[-400:]


def run(rep, model, tier, seed, broken=()):
    rng = core.rng_for(seed, "C06")
    nmods = 60 if tier == "quick" else 600
    per = 8 if tier == "quick" else 40
    ncli = 16 if tier == "quick" else 120
    gen.set_ascii(True)
    rep.coverage["rule"] = ("valid generated modules x fault kind x position outside comments (sampled in quick, "
                            "denser in thorough), single and double faults; oracle = model outcome; compared: "
                            "error-vs-ok in process and the page text when accepted; CLI subprocess sample for exit "
                            "status / no .rst; non-trivial = the model rejects the mutated file; distinct by bytes")
    try:
        cases = []
        corpus = sorted((core.CORPUS / "C06").glob("*.json")) if (core.CORPUS / "C06").exists() else []
        import json
        for f in corpus:
            cases.append((pipe.case_from_json(json.loads(f.read_text())["case"]), "corpus"))
        rep.coverage["corpus_cases"] = len(cases)
        for i in range(nmods):
            # settings vary too: the guarantee is unconditional (any include_undocumented_* vector, files with
            # and without doccomments)
            r = rng.random()
            if r < 0.55:
                flags = {}
            elif r < 0.7:
                flags = {n: False for n in pipe.FLAG_NAMES}
            else:
                flags = {n: rng.random() < 0.5 for n in pipe.FLAG_NAMES}
            doc_p = rng.choice([0.0, 0.0, 0.3, 0.5])
            mod = gen.gen_module(rng, budget=rng.choice([3, 6, 12, 20]), doc_p=doc_p)
            if doc_p == 0.0:
                strip_docs(mod)       # a file without any doccomment opener
            text = gen.print_module(mod, rng, trivia_p=rng.choice([0, 0.2, 0.4]))
            positions, parens = positions_outside_comments(model, text)
            if not positions:
                continue
            for j in range(per):
                fault = rng.choice(FAULTS)
                t2 = inject(rng, text, positions, parens, fault)
                if t2 is None:
                    continue
                if rng.random() < 0.25:       # second fault
                    pos2, par2 = positions_outside_comments(model, t2)
                    f2 = rng.choice(FAULTS)
                    t3 = inject(rng, t2, pos2 or positions, par2, f2) if (pos2 or f2 in ("backslash_eof",)) else None
                    if t3 is not None:
                        t2, fault = t3, fault + "+" + f2
                cases.append((pipe.norm_case(dict(data=t2, flags=flags)), fault))
                rep.dist("flags:" + ("default" if not flags else "all_off" if not any(flags.values()) else "mixed"))
        reqs = [pipe.req_page(c) for c, _ in cases]
        replies = model.call_many(reqs)
        nbad = 0
        rejected = []
        for (c, fault), rp in zip(cases, replies):
            mr = pipe.dec_page(rp)
            ir = pipe.impl_run(c, capture=False)
            rep.count_case(c["data"], mr["status"] != "ok")
            rep.dist("fault:" + fault)
            rep.dist("model:" + (mr.get("detail") or "ok"))
            rep.dist("impl:" + ir["status"])
            if mr["status"] != "ok":
                rejected.append(c)
            bad = None
            if ir["status"] != mr["status"]:
                bad = dict(what="status", impl=ir["status"], impl_exc=ir["exc"], impl_stderr=ir["stderr"],
                           model=mr["status"], model_detail=mr.get("detail"))
            elif ir["status"] == "ok" and ir["text"] != mr["text"]:
                bad = dict(what="page text differs although both accept")
            if bad:
                nbad += 1
                if nbad <= 3:
                    c2 = shrink_text(model, c)
                    ir2 = pipe.impl_run(c2, capture=False)
                    mr2 = pipe.dec_page(model.call(pipe.req_page(c2)))
                    rep.violation(dict(
                        kind="faulty file: implementation %s, model/spec %s" % (ir2["status"], mr2["status"]),
                        fault=fault, diff=dict(impl=ir2["status"], impl_exc=ir2["exc"], impl_stderr=ir2["stderr"],
                                               model=mr2["status"], model_detail=mr2.get("detail"),
                                               impl_text=ir2["text"]),
                        case=pipe.case_json(c2)))
        rep.coverage["disagreements"] = nbad
        rep.coverage["correspondence"]["Documenter outcome vs Model.Pipeline.document_bytes on faulty files"] = len(cases)
        rep.sample(dict(fault=cases[-1][1], file=pipe.decode_preview(cases[-1][0]["data"], 400)))
        # CLI level: exit status and absence of the page
        wd = core.scratch_dir("cminx_c06_")
        try:
            ncli_bad = 0
            sample = rejected[:]
            rng.shuffle(sample)
            for c in sample[:ncli]:
                rc, files, err = cli_run(c["data"], wd)
                rep.dist("cli_runs")
                if rc == 0 or files:
                    ncli_bad += 1
                    if ncli_bad <= 2 and not rep.violations:
                        rep.violation(dict(kind="CLI: faulty file but exit status %d, files written: %s" % (rc, files),
                                           stderr=err, case=pipe.case_json(c)))
            # several inputs on one command line: the unreadable file first, in the middle, last
            # (Walk.run_inputs / RunFacts.abort_ends_run: the abort ends the run, non-zero status,
            # no page for the faulty file, nothing for the inputs after it)
            healthy = os.path.join(wd, "healthy.cmake")
            with open(healthy, "wb") as f:
                f.write(b"#[[[\n# ok\n#]]\nfunction(ok a)\nendfunction()\n")
            healthy2 = os.path.join(wd, "healthy_two.cmake")
            with open(healthy2, "wb") as f:
                f.write(b"set(x y)\n")
            for c in sample[:max(3, ncli // 4)]:
                src = os.path.join(wd, "faulty.cmake")
                with open(src, "wb") as f:
                    f.write(c["data"])
                for order in ([src, healthy], [healthy, src, healthy2], [healthy, src]):
                    out = os.path.join(wd, "out_multi")
                    shutil.rmtree(out, ignore_errors=True)
                    env = dict(os.environ, PYTHONPATH=str(core.REPO / "src"))
                    p = subprocess.run([core.PY, "-B", "-W", "ignore", str(core.REPO / "src" / "main.py"), "-o", out]
                                       + order, stdout=subprocess.PIPE, stderr=subprocess.PIPE, env=env, timeout=120)
                    written = sorted(os.listdir(out)) if os.path.isdir(out) else []
                    expect = ["healthy.rst"] if order[0] == healthy else []
                    rep.dist("cli_multi_input_runs")
                    if p.returncode == 0 or "faulty.rst" in written or written != expect:
                        ncli_bad += 1
                        if ncli_bad <= 2 and not rep.violations:
                            rep.violation(dict(
                                kind="CLI with several inputs: faulty file but exit status %d, files written: %s "
                                     "(expected non-zero and %s)" % (p.returncode, written, expect),
                                argv_order=[os.path.basename(x) for x in order],
                                stderr=p.stderr.decode("utf-8", "replace")[-300:], case=pipe.case_json(c)))
            rep.coverage["cli_bad"] = ncli_bad
        finally:
            shutil.rmtree(wd, ignore_errors=True)
        rep._vm_pairs = [(rq, rp) for rq, rp in zip(reqs, replies) if len(rq[4]) < 300][:12]
        pipe.crosscheck(rep)
    finally:
        gen.set_ascii(False)


def strip_docs(mod):
    def rec(nodes):
        out = []
        for n in nodes:
            if n.get("kind") == "dangling":
                continue
            n = dict(n)
            if "doc" in n:
                n["doc"] = None
            if "body" in n:
                n["body"] = rec(n["body"])
            if n.get("impl"):
                n["impl"] = rec([n["impl"]])[0]
            out.append(n)
        return out
    mod["module"] = None
    mod["body"] = rec(mod["body"])


def shrink_text(model, c):
    """delta-debug the bytes (line-wise, then char-wise) keeping the status disagreement"""
    def bad(data):
        c2 = dict(c, data=data)
        ir = pipe.impl_run(c2, capture=False)
        mr = pipe.dec_page(model.call(pipe.req_page(c2)))
        return ir["status"] != mr["status"] or (ir["status"] == "ok" and ir["text"] != mr["text"])
    data = c["data"]
    budget = 250
    for sep in (b"\n", None):
        changed = True
        while changed and budget > 0:
            changed = False
            parts = data.split(sep) if sep else [data[i:i + 1] for i in range(len(data))]
            if len(parts) > 120 and sep is None:
                break
            for i in range(len(parts)):
                budget -= 1
                if budget <= 0:
                    break
                cand = (sep or b"").join(parts[:i] + parts[i + 1:])
                if cand != data and bad(cand):
                    data = cand
                    changed = True
                    break
    return dict(c, data=data)


def replay(obj):
    model = core.Model()
    c = pipe.case_from_json(obj["case"])
    ir = pipe.impl_run(c, capture=False)
    mr = pipe.dec_page(model.call(pipe.req_page(c)))
    print(pipe.decode_preview(c["data"], 2000))
    print("impl:", ir["status"], ir["exc"], "| model:", mr["status"], mr.get("detail"))
    same = ir["status"] == mr["status"] and (ir["status"] != "ok" or ir["text"] == mr["text"])
    return 0 if same else 1
