"""C14 -- index.rst toctrees are closed and complete.

Correspondence: every index.rst (title + toctree entries) vs Model.Walk.index_text; oracle on the
implementation's output tree: every toctree entry has a generated target, every page and every
sub-index is listed exactly once, every generated file is reachable from the top index.rst."""
import json
import os

import core
import treeh
from props import common_tree as ct


def parse_index(text):
    lines = text.split("\n")
    title = lines[2] if len(lines) > 2 else None
    entries = []
    in_toc = False
    for l in lines:
        if l.startswith(".. toctree::"):
            in_toc = True
            continue
        if in_toc and l.startswith("   ") and not l.strip().startswith(":") and l.strip():
            entries.append(l.strip())
    ntoc = sum(1 for l in lines if l.startswith(".. toctree::"))
    return title, entries, ntoc


def all_cmake_excluded_subdir(tr):
    """known finding F13: an admitted sub-directory (it directly contains a *.cmake file) all of whose
    lower-case .cmake files are excluded by pattern: listed in the parent's toctree, never written"""
    tbl = {(tuple(rel), isd) for rel, isd in tr.excl_table()}
    for rel, n in treeh.walk_tree(tr.case.get("tree", [])):
        if n["kind"] != "d":
            continue
        files = [c["name"] for c in n["children"] if c["kind"] == "f" and c["name"].endswith(".cmake")]
        if files and all((tuple(rel) + (f,), False) in tbl for f in files):
            return True
    return False


def closure_oracle(ir, case):
    """on the implementation's output: closed and complete toctrees"""
    files = {k for k in ir["outfiles"] if k not in ("old/stale.rst", "unrelated.txt")}
    listed = set()
    for k in sorted(files):
        if os.path.basename(k) != "index.rst":
            continue
        d = os.path.dirname(k)
        title, entries, ntoc = parse_index(ir["outfiles"][k].decode("utf-8", "replace"))
        if ntoc != 1:
            return dict(what="index.rst does not contain exactly one toctree", file=k)
        if len(set(entries)) != len(entries):
            return dict(what="toctree lists an entry twice", file=k, entries=entries)
        for e in entries:
            target = os.path.normpath(os.path.join(d, e if e.endswith("/index.rst") else e + ".rst"))
            if target not in files:
                return dict(what="toctree entry without a generated target", file=k, entry=e)
            listed.add(target)
    for k in files:
        if k == "index.rst":
            continue
        if k not in listed:
            return dict(what="generated file not listed in any toctree (unreachable from the top index)", file=k)
    return None


def compare(tr, ir, mv, case):
    if ir["status"] != mv["status"]:
        return dict(what="exit status", impl=ir["status"], impl_exc=ir["exc"], model=mv["status"])
    if tr.out_abs is None or case["out"] in ("parent_of_input",):
        return None
    for k in sorted(set(mv["files"]) | {f for f in ir["outfiles"] if f.endswith("index.rst")}):
        if not k.endswith("index.rst"):
            continue
        a = ir["outfiles"].get(k)
        b = mv["files"].get(k)
        if a is None or b is None:
            return dict(what="index.rst present on one side only", file=k, impl=a is not None, model=b is not None)
        pa, pb = parse_index(a.decode("utf-8", "replace")), parse_index(b.decode("utf-8", "replace"))
        if pa != pb:
            return dict(what="index title / toctree entries", file=k, impl=pa, model=pb)
        if a != b:
            return dict(what="index.rst bytes", file=k, impl=a.decode("utf-8", "replace"), model=b.decode("utf-8", "replace"))
    return None


def run(rep, model, tier, seed, broken=()):
    n = 300 if tier == "quick" else 5000
    rng = core.rng_for(seed, "C14")
    rep.coverage["rule"] = ("trees and option combinations of C13 with exclusion patterns (sub-directories excluded by "
                            "pattern, auto-excluded, empty after exclusion, nested below directories without CMake "
                            "files); projection = every index.rst (title, toctree entries, bytes); oracle = closed and "
                            "complete toctrees on the implementation's output; non-trivial = tree with >= 3 nodes")
    cases = []
    cdir = core.CORPUS / "C14"
    for f in sorted(cdir.glob("*.json")) if cdir.exists() else []:
        w = json.loads(f.read_text())
        if not w.get("known"):
            cases.append(treeh.case_from_json(w["case"]))
    rep.coverage["corpus_cases"] = len(cases)
    for i in range(n):
        cases.append(ct.gen_case(rng, patterns_p=0.45, single_p=0.0, missing_p=0.0,
                                 out_modes=("abs", "abs", "rel", "prepopulated", "nested")))
    nbad = 0
    nf13 = 0
    outside = []
    for case in cases:
        tr = treeh.TreeRun(case)
        try:
            tr.layout()
            req = tr.model_request()
            mv = treeh.model_view(treeh.dec_actions(model.call(req)))
            ir = tr.run_impl()
            f13 = all_cmake_excluded_subdir(tr)
        finally:
            tr.cleanup()
        ct.dist(rep, case, "index")
        rep.count_case(json.dumps(treeh.case_json(case), sort_keys=True, default=str),
                       sum(1 for _ in treeh.walk_tree(case["tree"])) >= 3)
        prob = compare(tr, ir, mv, tr.case)
        in_dom = ct.tree_ok_excl(tr)
        if prob is None and in_dom and ir["status"] == 0 and tr.case["out"] != "nested":
            prob = closure_oracle(ir, tr.case)
            rep.dist("index:closure_oracle_checked")
        if prob:
            if in_dom:
                nbad += 1
                if nbad <= 3:
                    rep.violation(dict(kind="index.rst: " + prob["what"], diff=prob, argv=tr.argv,
                                       case=treeh.case_json(case), tree=ct.describe(case)))
            else:
                outside.append((case, prob))
    rep.coverage["disagreements"] = nbad
    rep.coverage["known_F13_trigger_cases"] = nf13
    rep.coverage["correspondence"]["index.rst: cminx.main vs Model.Walk.index_text"] = len(cases)
    rep.sample(ct.describe(cases[-1]))
    for kf in core.load_known():
        if kf["property"] == "C14" and kf["status"] == "known":
            w = json.loads((core.VERIF / kf["witness"]).read_text())
            case = treeh.case_from_json(w["case"])
            tr, ir, mv, _ = treeh.run_case(model, case)
            o = closure_oracle(ir, tr.case)
            if o and o["what"] == w["expect_what"]:
                rep.known(kf["what"])
                rep.coverage["known_findings_reconfirmed"] = rep.coverage.get("known_findings_reconfirmed", 0) + 1
            else:
                import sys
                print(f"KNOWN-FINDING-RESOLVED? witness of {kf['id']} no longer fails as recorded", file=sys.stderr)
    if outside and not rep.violations:
        case, prob = outside[0]
        rep.violation(dict(kind="correspondence index/model broken outside the property's domain",
                           broken="correspondence index.rst", diff=prob, case=treeh.case_json(case),
                           tree=ct.describe(case)), no_input=True)


def replay(obj):
    model = core.Model()
    case = treeh.case_from_json(obj["case"])
    tr, ir, mv, _ = treeh.run_case(model, case)
    print("argv:", tr.argv)
    print("\n".join(treeh.tree_listing(case.get("tree", []))))
    p = compare(tr, ir, mv, tr.case) or closure_oracle(ir, tr.case)
    print("diff:", p)
    return 1 if p else 0
