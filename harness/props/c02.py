"""C02 -- Exactly one entry per documentable command, in source order.

Correspondence: the whole list of documentation entries (kind, order, rendering with doc texts
blanked, class members inside their class) of the implementation vs Model.Aggregator."""
import core
import pipe
from props.common_ast import ast_run, std_replay, walk


def in_domain(c):
    if "ast" not in c:
        return True
    for n in walk(c["ast"]["body"]):
        if n["kind"] == "cmd":
            # known finding F11: parenthesised arguments of a documented generic command
            if n.get("doc") is not None and any(isinstance(a, list) for a in n["args"]):
                return False
            if n["name"].lower() == "generic_command":
                return False
        if n.get("rawargs") is not None:
            return False          # deliberately malformed arity (outside "well-formed modules")
    return True


def run(rep, model, tier, seed, broken=()):
    ast_run(rep, model, tier, seed, "C02", "all-entries", 1, None, 300, 12000,
            in_domain=in_domain,
            rule="nested-AST modules (function/macro bodies, if/foreach blocks, classes with members, tests "
                 "with sections, generic commands, set/option/add_test, cmake_parse_arguments, dangling "
                 "doccomments; each node independently documented; names re-cased; random trivia and "
                 "annotation comments); projection = every entry (kind, order, rendering with doc blanked); "
                 "non-trivial = >= 2 entries; distinct by file bytes")
    pipe.crosscheck(rep)


replay = std_replay
