"""C02 -- Exactly one entry per documentable command, in source order.

Correspondence: the whole list of documentation entries (kind, order, rendering with doc texts
blanked, class members inside their class) of the implementation vs Model.Aggregator."""
import core
import pipe
from props.common_ast import ast_run, std_replay, walk


def in_domain(c):
    if "ast" not in c:
        return True
    for n in walk(c["ast"]["body"]):
        if n.get("rawargs") is not None:
            return False          # deliberately malformed arity (outside "well-formed modules")
    return True


def run(rep, model, tier, seed, broken=()):
    ast_run(rep, model, tier, seed, "C02", "all-entries", 1, None, 700, 12000,
            in_domain=in_domain,
            rule="nested-AST modules (function/macro bodies, if/foreach blocks, classes with members, tests "
                 "with sections, generic commands, set/option/add_test, cmake_parse_arguments, dangling "
                 "doccomments; each node independently documented; names re-cased; random trivia and "
                 "annotation comments); projection = every entry (kind, order, rendering with doc blanked); "
                 "non-trivial = >= 2 entries; distinct by file bytes")
    import oracle
    oracle.c02_generic_oracle(rep, model, core.rng_for(seed, 'C02', 'oracle'), 120 if tier == 'quick' else 4000,
                              pinned=[oracle.DOC + 'my_cmd(a (b c) d)\n', oracle.DOC + 'generic_command(a)\n'])
    oracle.c02_undocumented_generic_oracle(rep, ['message', 'generic_command', 'cmake_parse_argument', 'documented_command'])
    pipe.crosscheck(rep)


def replay(obj):
    if obj.get('oracle'):
        import oracle
        return oracle.replay(obj)
    return std_replay(obj)
