"""shared case generation / comparison for the directory-level properties C12..C15, C17, C18"""
import os

import core
import treeh

PATTERN_FORMS = ["{name}", "{name}/", "*.txt", "**/{name}", "{dir}/**/{name}", "{abs}", "a*", "*.cmake", "s?",
                 "{name}.cmake", "{dir}/", "/{name}", "**/deep*", "{stem}.*"]


def is_cmake(name):
    return name.lower().endswith(".cmake")


def tree_ok(case):
    """hypotheses shared by C13/C14/C15 (the quantifier's own restrictions)"""
    if "tree" not in case:
        return True
    auto = case.get("auto_exclude", True)

    def rec(children, top):
        names = [c["name"] for c in children]
        if len(set(names)) != len(names):
            return False
        stems = [".".join(n.split(".")[:-1]).lower() for n in names if is_cmake(n)]
        if len(set(stems)) != len(stems):
            return False          # F16: same stem modulo extension case
        cm = [n for n in names if is_cmake(n)]
        if auto:
            if cm and not any(n.endswith(".cmake") for n in cm):
                return False      # only mixed-case extensions where auto-exclusion applies
            if top and not any(n.endswith(".cmake") for n in names):
                return False      # the input directory itself must hold a .cmake file
        for c in children:
            if c["kind"] == "d" and not rec(c["children"], False):
                return False
        return True
    return rec(case["tree"], True)


def tree_ok_excl(tr):
    """tree_ok with the exclusion patterns taken into account: where auto-exclusion applies, the
    input directory holds a non-excluded lower-case .cmake file, and every directory with
    non-excluded CMake files has a non-excluded lower-case .cmake one"""
    case = tr.case
    if not tree_ok(case):
        return False
    if "tree" not in case or not case.get("auto_exclude", True):
        return True
    tbl = {(tuple(rel), isd) for rel, isd in tr.excl_table()}

    def rec(children, rel, top):
        cm = [c["name"] for c in children if c["kind"] == "f" and is_cmake(c["name"])
              and (rel + (c["name"],), False) not in tbl]
        if cm and not any(n.endswith(".cmake") for n in cm):
            return False
        if top and not case.get("recursive") and not any(n.endswith(".cmake") for n in cm):
            return False       # (with -r the input directory is indexed in any case: repair of F23)
        for c in children:
            if c["kind"] == "d" and (rel + (c["name"],), True) not in tbl:
                if not rec(c["children"], rel + (c["name"],), False):
                    return False
        return True
    return rec(case["tree"], (), True)


def rand_patterns(rng, tree, input_abs_hint="in"):
    nodes = list(treeh.walk_tree(tree))
    if not nodes:
        return []
    pats = []
    for _ in range(rng.choice([0, 0, 1, 1, 2, 3, 5])):
        rel, n = rng.choice(nodes)
        form = rng.choice(PATTERN_FORMS)
        name = rel[-1]
        d = rel[0]
        stem = name.split(".")[0]
        pats.append(form.format(name=name, dir=d, abs="/".join(("**",) + rel), stem=stem))
    # patterns matching every CMake file of one directory
    dirs = [(rel, n) for rel, n in nodes if n["kind"] == "d" and any(c["kind"] == "f" for c in n["children"])]
    if dirs and rng.random() < 0.35:
        rel, n = rng.choice(dirs)
        if rng.random() < 0.5:
            # a pattern with a path component: matches the files' full paths, never their bare names
            # (the unanchored spelling dir/*.cmake is anchored by its inner slash and matches nothing
            # against the absolute paths CMinx asks about; kept as a non-matching pattern)
            pats.append(rng.choice(["**/" + rel[-1] + "/*.cmake", "/".join(("**",) + tuple(rel)) + "/*.cmake",
                                    "**/" + rel[-1] + "/*.cmake", rel[-1] + "/*.cmake"]))
        else:
            pats += [c["name"] for c in n["children"] if c["kind"] == "f" and is_cmake(c["name"])]
    # a directory-only pattern naming an existing sub-directory (at any depth)
    only_dirs = [(rel, n) for rel, n in nodes if n["kind"] == "d"]
    if only_dirs and rng.random() < 0.25:
        rel, n = rng.choice(only_dirs)
        pats.append(rel[-1] + "/")
    # several patterns matching adjacent siblings
    if rng.random() < 0.4:
        sibs = [c["name"] for c in tree][:]
        if len(sibs) >= 2:
            i = rng.randrange(len(sibs) - 1)
            pats += [sibs[i], sibs[i + 1]]
    return pats


def gen_case(rng, patterns_p=0.0, single_p=0.1, out_modes=("abs", "abs", "rel", "prepopulated", "nested", "none"),
             sep_choices=(".", ".", ".", "::", "/", "-->"), missing_p=0.02, ext_variants=True):
    c = {}
    r = rng.random()
    if r < missing_p:
        c["missing"] = True
    elif r < missing_p + single_p:
        c["single_file"] = treeh.simple_module(rng, "single")
        c["input_name"] = rng.choice(["single.cmake", "My.File.cmake", "noext", "UP.CMAKE", "a-b.cmake"])
    else:
        c["tree"] = treeh.gen_tree(rng, max_depth=rng.choice([1, 2, 3, 3]), ext_variants=ext_variants)
        special = rng.random() < 0.12
        if special:
            # an input directory without a CMake file of its own (finding F23, repaired: with -r it is
            # indexed in any case), with chains of
            # directories that have no CMake file but CMake files further down
            c["tree"] = [n for n in c["tree"] if not (n["kind"] == "f" and is_cmake(n["name"]))]
            deep = dict(name="third_party", kind="d", children=[
                dict(name="README.md", kind="f", content=b"x\n"),
                dict(name="vendor", kind="d", children=[
                    dict(name="v.cmake", kind="f", content=treeh.simple_module(rng, "v"))])])
            if not any(n["name"] == "third_party" for n in c["tree"]):
                c["tree"].append(deep)
        if rng.random() < 0.12:
            # a symbolic link to a directory (target outside the input tree) at the top or inside a
            # sub-directory; followed or not (input.follow_symlinks)
            kids = rng.choice([[dict(name="linked_mod.cmake", kind="f", content=treeh.simple_module(rng, "lk"))],
                               [dict(name="README.md", kind="f", content=b"x\n")],
                               [dict(name="l1.cmake", kind="f", content=treeh.simple_module(rng, "l1")),
                                dict(name="deep", kind="d", children=[
                                    dict(name="l2.cmake", kind="f", content=treeh.simple_module(rng, "l2"))])]])
            link = dict(name=rng.choice(["zz_link", "linked", "ext"]), kind="d", link=True, children=kids)
            dirs = [n for _, n in treeh.walk_tree(c["tree"]) if n["kind"] == "d" and not n.get("link")]
            host = rng.choice([c["tree"]] + [d["children"] for d in dirs])
            if not any(n["name"] == link["name"] for n in host):
                host.insert(rng.randrange(len(host) + 1), link)
                c["follow"] = rng.random() < 0.4
        c["input_name"] = rng.choice(["in", "in", "proj", "my.proj", "Tree-1"])
    c["recursive"] = rng.random() < 0.6
    c["auto_exclude"] = rng.random() < 0.7
    if "tree" in c and special and rng.random() < 0.7:
        c["recursive"] = c["auto_exclude"] = True
    pm = rng.random()
    if pm < 0.25:
        c["prefix_cli"] = rng.choice(["pfx", "My Project", "a.b", "P"])
    elif pm < 0.4:
        c["prefix_cfg"] = rng.choice(["cfgpfx", "Q"])
    elif pm < 0.45:
        c["prefix_cli"] = "cli"
        c["prefix_cfg"] = "cfg"
    c["sep"] = rng.choice(sep_choices)
    c["ext_titles"] = rng.random() < 0.25
    c["ext_modules"] = rng.random() < 0.25
    c["headers"] = rng.choice([None, None, None, ["=", "-"], ["*"], ["~", "^", "+"]])
    c["out"] = rng.choice(out_modes)
    if c["out"] == "nested" and "tree" not in c:
        c["out"] = "abs"
    c["spelling"] = rng.choice(["abs", "rel", "dotslash", "trailing", "dot"] if "tree" in c else ["abs", "rel", "dotslash"])
    c["cwd"] = rng.choice(["parent", "parent", "elsewhere", "inside"])
    if "tree" in c and rng.random() < patterns_p:
        pats = rand_patterns(rng, c["tree"])
        k = rng.randint(0, len(pats))
        c["patterns_cli"] = pats[:k]
        c["patterns_cfg"] = pats[k:]
        if any(p.endswith("/") for p in pats) and rng.random() < 0.4:
            # directory-only patterns are the only thing that removes a directory when auto-exclusion is off
            c["auto_exclude"] = False
            c["recursive"] = True
    if rng.random() < 0.15:
        c["flags"] = {"function": False, "macro": rng.random() < 0.5, "option": False}
    return c


def describe(case):
    d = {k: v for k, v in case.items() if k not in ("tree", "single_file")}
    if "tree" in case:
        d["tree_listing"] = treeh.tree_listing(case["tree"])
    return d


def dist(rep, case, name):
    rep.dist(f"{name}:cases")
    if "tree" in case:
        n = sum(1 for _ in treeh.walk_tree(case["tree"]))
        rep.dist(f"{name}:tree_nodes", n)
        depth = max([len(rel) for rel, _ in treeh.walk_tree(case["tree"])] or [0])
        rep.dist(f"{name}:tree_depth_{depth}")
    elif case.get("missing"):
        rep.dist(f"{name}:missing_input")
    else:
        rep.dist(f"{name}:single_file")
    for k in ("recursive", "auto_exclude", "ext_titles", "ext_modules"):
        if case.get(k):
            rep.dist(f"{name}:{k}")
    if "tree" in case and any(n.get("link") for _, n in treeh.walk_tree(case["tree"])):
        rep.dist(f"{name}:symlinked_directory_" + ("followed" if case.get("follow") else "not_followed"))
    rep.dist(f"{name}:out_{case.get('out')}")
    rep.dist(f"{name}:spelling_{case.get('spelling')}")
    rep.dist(f"{name}:patterns", len(case.get("patterns_cli", [])) + len(case.get("patterns_cfg", [])))


def shrink_tree(case, still_bad, budget=80):
    """drop nodes / patterns while the problem persists"""
    changed = True
    while changed and budget > 0:
        changed = False
        cands = []
        if "tree" in case:
            def removals(children):
                for i, c in enumerate(children):
                    yield children[:i] + children[i + 1:]
                    if c["kind"] == "d":
                        for sub in removals(c["children"]):
                            yield children[:i] + [dict(c, children=sub)] + children[i + 1:]
            for t in removals(case["tree"]):
                cands.append(dict(case, tree=t))
        for key in ("patterns_cli", "patterns_cfg"):
            ps = case.get(key, [])
            for i in range(len(ps)):
                cands.append(dict(case, **{key: ps[:i] + ps[i + 1:]}))
        for key, val in (("headers", None), ("sep", "."), ("ext_titles", False), ("ext_modules", False),
                         ("prefix_cfg", None), ("flags", {}), ("cwd", "parent"), ("spelling", "abs")):
            if case.get(key) not in (val, None) or (key == "sep" and case.get(key) != "."):
                cands.append(dict(case, **{key: val}))
        for cand in cands:
            budget -= 1
            if budget <= 0:
                break
            try:
                if still_bad(cand):
                    case = cand
                    changed = True
                    break
            except Exception:
                continue
    return case
