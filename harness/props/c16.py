"""C16 -- Settings layer as command line > -s file > user config > defaults.

The option table, YAML defaults, dataclass fields and argparse table are translated from the
source on every run (Gen/ConfigData.v) and the theorems of Properties/C16.v are re-checked over
them.  Correspondence: cminx.main(argv) in process with cminx.document wrapped to capture the
Settings object, against Model.Config (fid 14) on random stacks: per option a random subset of the
sources with pairwise distinct values, wrong-typed values, exclude patterns in several sources, the
relative_to_config x source-location cases.  confuse/argparse are validated against the model, not
verified."""
import contextlib
import io
import json
import os
import shutil

import yaml

import core
import impl
import cminx

OPTIONS = None


def load_options():
    """option paths and template types as the translator saw them (parsed back from Gen/ConfigData.v)"""
    import re
    text = (core.COQ / "theories" / "Gen" / "ConfigData.v").read_text()
    m = re.search(r"Definition template .*?:=\s*\[(.*?)\]\.\n", text, re.S)
    opts = []
    for key, ty in re.findall(r'\(\(s"([^"]+)"\), \(?(T[A-Za-z]+)', m.group(1)):
        opts.append((key, ty))
    return opts


CLI_FLAG = {"output.directory": ["-o", "--output"], "rst.prefix": ["-p", "--prefix"]}

GOOD = {
    "TBool": lambda rng, i: rng.random() < 0.5,
    "TOptString": lambda rng, i: rng.choice(["str", "v", ":kw", "^_re", "x y", ""]) + str(i),
    "TString": lambda rng, i: rng.choice(["::", "/", "-", "."]) + ("" if rng.random() < 0.5 else str(i)),
    "TOptSeq": lambda rng, i: [f"pat{i}_{j}" for j in range(rng.choice([0, 1, 2]))],
    "TStrSeq": lambda rng, i: rng.choice([["=", "-", "~"], ["*"], "= - ~ " + str(i), ["#", "x" + str(i)]]),
    "TOptFilename": lambda rng, i: rng.choice(["out", "sub/out", "../up", "/abs/out"]) + str(i),
}
WRONG = {
    "TBool": ["yes", 1, [True], None, 0],
    "TOptString": [5, True, ["x"], {"a": 1}],
    "TString": [3, None, ["."], False],
    "TOptSeq": [5, True, "abc", {"a": 1}, ["x", 3]],
    "TStrSeq": [5, [1, 2], None, True, ["a", 3], {"=": 1, "-": 2}],
    "TOptFilename": [5, ["x"], True],
}


def yenc(v):
    if isinstance(v, bool):
        return [0, v]
    if isinstance(v, str):
        return [1, v]
    if isinstance(v, int):
        return [2, v]
    if v is None:
        return [3]
    if isinstance(v, list):
        return [4, [yenc(x) for x in v]]
    # yaml.safe_dump writes mapping keys sorted: that is the order the implementation reads
    return [5, sorted(str(k) for k in v)] if isinstance(v, dict) else [5, []]


def gen_case(rng, options):
    srcs = {"cli": {}, "sfile": {}, "user": {}}
    wrong = None
    i = 0
    for key, ty in options:
        if ty == "TDict":
            continue
        for name in ("cli", "sfile", "user"):
            if name == "cli" and key not in CLI_FLAG and key not in ("input.recursive", "input.exclude_filters"):
                continue
            if rng.random() < 0.3:
                i += 1
                if name == "cli" and key == "input.recursive":
                    srcs[name][key] = True
                elif name == "cli" and key == "input.exclude_filters":
                    srcs[name][key] = [f"clipat{i}_{j}" for j in range(rng.choice([1, 2]))]
                else:
                    v = GOOD[ty](rng, i)
                    if ty == "TOptString" and rng.random() < 0.15:
                        v = ""          # an explicitly empty value is a value: it wins over lower sources
                    if name == "cli" and v == "" and key == "rst.prefix":
                        srcs[name][key] = v
                        continue
                    if name == "cli" and not isinstance(v, str):
                        continue
                    if name == "cli" and (v == "" or v.startswith("-")):
                        continue
                    srcs[name][key] = v
    if rng.random() < 0.25:
        key, ty = rng.choice([o for o in options if o[1] != "TDict"])
        name = rng.choice(["sfile", "user"])
        srcs[name][key] = rng.choice(WRONG[ty])
        wrong = (name, key)
    use_sfile = bool(srcs["sfile"]) or rng.random() < 0.3
    use_user = bool(srcs["user"]) or rng.random() < 0.3
    return dict(srcs=srcs, use_sfile=use_sfile, use_user=use_user, wrong=wrong,
                cwd_sub=rng.choice(["cwd", "cwd/deeper"]), sfile_dir=rng.choice(["cfgs", "cfgs/nested", "cwd"]))


def nest(flat):
    out = {}
    for k, v in flat.items():
        sec, opt = k.split(".", 1)
        out.setdefault(sec, {})[opt] = v
    return out


class Captured(Exception):
    pass


def run_impl(case, root):
    cwd = os.path.join(root, case["cwd_sub"])
    os.makedirs(cwd, exist_ok=True)
    sdir = os.path.join(root, case["sfile_dir"])
    os.makedirs(sdir, exist_ok=True)
    userdir = os.environ["CMINXDIR"]
    ucfg = os.path.join(userdir, "config.yaml")
    if os.path.exists(ucfg):
        os.remove(ucfg)
    if case["use_user"]:
        with open(ucfg, "w") as f:
            yaml.safe_dump(nest(case["srcs"]["user"]), f)
    argv = ["input_one", "input_two"]
    spath = os.path.join(sdir, "extra.yaml")
    if case["use_sfile"]:
        with open(spath, "w") as f:
            yaml.safe_dump(nest(case["srcs"]["sfile"]), f)
        argv += ["-s", os.path.relpath(spath, cwd)]
    cli = case["srcs"]["cli"]
    for key, v in cli.items():
        if key == "input.recursive":
            argv.insert(1, "-r")
        elif key == "input.exclude_filters":
            for p in v:
                argv += ["-e", p]
        else:
            argv += [CLI_FLAG[key][len(argv) % 2], v]
    captured = []
    orig = cminx.document

    def fake(input_file, settings):
        captured.append((input_file, settings))
    old = os.getcwd()
    try:
        os.chdir(cwd)
        cminx.document = fake
        with contextlib.redirect_stdout(io.StringIO()), contextlib.redirect_stderr(io.StringIO()):
            try:
                cminx.main(list(argv))
                status = "ok"
            except SystemExit as e:
                status = "usage"
            except Exception as e:
                status = "error:" + type(e).__name__
    finally:
        cminx.document = orig
        os.chdir(old)
        import logging
        logging.disable(logging.CRITICAL)
        if os.path.exists(ucfg):
            os.remove(ucfg)
    return argv, cwd, spath, status, captured


def settings_view(st, options):
    out = {}
    for key, ty in options:
        if ty == "TDict":
            continue
        sec, opt = key.split(".", 1)
        v = getattr(getattr(st, sec), opt)
        if isinstance(v, tuple):
            v = list(v)
        out[key] = v
    return out


def model_view(reply):
    if reply[0] == 1:
        return "error", None, None
    if reply[0] == 2:
        return "usage", None, None
    out = {}
    for k, cv in reply[1]:
        key = core.d_str(k)
        if cv[0] == 0:
            out[key] = bool(cv[1])
        elif cv[0] == 1:
            out[key] = core.d_str(cv[1])
        elif cv[0] == 2:
            out[key] = None
        elif cv[0] == 3:
            out[key] = [core.d_str(x) for x in cv[1]]
        else:
            out[key] = "<dict>"

    def ydec(y):
        if y[0] == 0:
            return bool(y[1])
        if y[0] == 1:
            return core.d_str(y[1])
        if y[0] == 2:
            return y[1]
        if y[0] == 3:
            return None
        if y[0] == 4:
            return [ydec(x) for x in y[1]]
        return {}
    out["input.exclude_filters"] = [ydec(y) for y in reply[2]]
    out.pop("logging", None)
    return "ok", out, [core.d_str(x) for x in reply[3]]


def model_request(case, argv, cwd, spath):
    def src(flat, d):
        return [[[k, yenc(v)] for k, v in flat.items()], core.opt(d)]
    sfile = [src(case["srcs"]["sfile"], os.path.dirname(spath))] if case["use_sfile"] else []
    user = [src(case["srcs"]["user"], os.environ["CMINXDIR"])] if case["use_user"] else []
    return [14, cwd, argv, sfile, user]


def highest_source_oracle(case, options, view, cwd, spath):
    """the property itself: each option's effective value is the one of the highest-priority source
    that sets it (well-typed cases only)"""
    for key, ty in options:
        if ty in ("TDict", "TOptSeq", "TOptFilename", "TStrSeq"):
            continue
        for name in ("cli", "sfile", "user"):
            if key in case["srcs"][name]:
                want = case["srcs"][name][key]
                if view[key] != want and want is not None:
                    return dict(what="effective value is not the one of the highest-priority source", option=key,
                                source=name, want=want, got=view[key])
                break
    want = []
    for name in ("cli", "sfile", "user"):
        v = case["srcs"][name].get("input.exclude_filters")
        if isinstance(v, list):
            want += v
        elif isinstance(v, str):
            return None
    if view["input.exclude_filters"] != want:
        return dict(what="exclude patterns are not the union over all sources", want=want,
                    got=view["input.exclude_filters"])
    return None


def run(rep, model, tier, seed, broken=()):
    n = 300 if tier == "quick" else 8000
    rng = core.rng_for(seed, "C16")
    options = load_options()
    rep.coverage["rule"] = ("for each of the %d options a random subset of {command line, -s file, user config} with "
                            "pairwise distinct values (defaults always present), 25%% of the stacks with one wrong-typed "
                            "value, exclude patterns in several sources, relative_to_config x source location; "
                            "non-trivial = >= 2 sources set some option; distinct by case hash" % len(options))
    rep.coverage["options_translated"] = [k for k, _ in options]
    root = core.scratch_dir("cminx_c16_")
    nbad = 0
    pairs = []
    try:
        cases = [gen_case(rng, options) for _ in range(n)]
        reqs = []
        impls = []
        for case in cases:
            argv, cwd, spath, status, captured = run_impl(case, root)
            impls.append((argv, cwd, spath, status, captured))
            reqs.append(model_request(case, argv, cwd, spath))
        replies = model.call_many(reqs)
        for case, (argv, cwd, spath, status, captured), rq, rp in zip(cases, impls, reqs, replies):
            mstatus, mview, mfiles = model_view(rp)
            nsrc = sum(1 for nme in ("cli", "sfile", "user") if case["srcs"][nme])
            rep.count_case(json.dumps(case, sort_keys=True, default=str), nsrc >= 2)
            rep.dist("stacks")
            rep.dist("sources_set_%d" % nsrc)
            rep.dist("wrong_typed" if case["wrong"] else "well_typed")
            rep.dist("impl_" + status.split(":")[0])
            prob = None
            istatus = status.split(":")[0]
            if istatus != mstatus:
                prob = dict(what="acceptance differs", impl=status, model=mstatus)
            elif istatus == "ok":
                if [c[0] for c in captured] != mfiles:
                    prob = dict(what="documented inputs differ", impl=[c[0] for c in captured], model=mfiles)
                else:
                    iview = settings_view(captured[0][1], options)
                    for k in iview:
                        if iview[k] != mview.get(k):
                            prob = dict(what="effective value differs from the model", option=k, impl=iview[k],
                                        model=mview.get(k))
                            break
                    if prob is None and not case["wrong"]:
                        prob = highest_source_oracle(case, options, iview, cwd, spath)
            if prob:
                nbad += 1
                if nbad <= 3:
                    rep.violation(dict(kind="settings: " + prob["what"], diff=prob, argv=argv, case=case))
            if len(pairs) < 10:
                pairs.append((rq, rp))
        rep.coverage["disagreements"] = nbad
        rep.coverage["correspondence"]["Settings handed to cminx.document vs Model.Config.settings_of"] = len(cases)
        rep.sample(dict(argv=impls[-1][0], sources=cases[-1]["srcs"]))
        chk, bad = core.vm_crosscheck(pairs)
        rep.coverage["extraction_crosschecked"] = chk
        if bad:
            rep.violation(dict(kind="extraction-crosscheck", detail=str(bad)[:500]), no_input=True)
        # witnesses of repaired findings: the value of the wrong type must now be rejected
        for kf in core.load_known():
            if kf["property"] == "C16" and kf["status"] == "fixed":
                w = json.loads((core.VERIF / kf["witness"]).read_text())
                argv, cwd, spath, status, captured = run_impl(w["case"], root)
                rep.dist("fixed_finding_witnesses")
                if status.split(":")[0] == "ok":
                    rep.violation(dict(kind="settings: a value of the wrong type is accepted again (%s)" % kf["id"],
                                       argv=argv, case=w["case"], status=status))
        # known findings
        for kf in core.load_known():
            if kf["property"] == "C16" and kf["status"] == "known":
                w = json.loads((core.VERIF / kf["witness"]).read_text())
                argv, cwd, spath, status, captured = run_impl(w["case"], root)
                if status == "ok" and settings_view(captured[0][1], options)[w.get("option", "input.exclude_filters")] == w["expect"]:
                    rep.known(kf["what"])
                    rep.coverage["known_findings_reconfirmed"] = rep.coverage.get("known_findings_reconfirmed", 0) + 1
    finally:
        shutil.rmtree(root, ignore_errors=True)


def relevant_obligation(b):
    return True


def replay(obj):
    model = core.Model()
    root = core.scratch_dir("cminx_c16_")
    try:
        options = load_options()
        case = obj["case"]
        argv, cwd, spath, status, captured = run_impl(case, root)
        print("argv", argv, "status", status)
        if captured:
            print("impl :", settings_view(captured[0][1], options))
        print("model:", model_view(model.call(model_request(case, argv, cwd, spath)))[:2])
    finally:
        shutil.rmtree(root, ignore_errors=True)
    return 1
