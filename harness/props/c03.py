"""C03 -- Function and macro signatures mirror the definition.

Correspondence: `.. function::` entries of function/macro definitions under random trigger
strings and strip regexes (tables computed by the real re.sub) vs the model."""
import core
import pipe
from props.common_ast import ast_run, std_replay, walk

REGEXES = ["", "", "^_[a-zA-Z]*_", "^[a-z]+_", "_$", "[0-9]+", "^.", "a", "^\\$\\{", "x*"]
TRIGGERS = [":param **kwargs:", ":param **kwargs:", ":keyword", "kwargs", "extra", ":param"]


def settings_fn(rng, mod):
    return dict(trigger=rng.choice(TRIGGERS), fn_re=rng.choice(REGEXES), mac_re=rng.choice(REGEXES),
                mem_re=rng.choice(REGEXES))


def in_domain(c):
    if "ast" not in c:
        return True
    for n in walk(c["ast"]["body"]):
        if n.get("rawargs") is not None:
            return False
    return True


def run(rep, model, tier, seed, broken=()):
    ast_run(rep, model, tier, seed, "C03", "function-signatures", 1, {0, 1}, 700, 12000,
            weights=dict(defn=6, cpa=4, block=3, generic=1, set=0.5, option=0.3, add_test=0.3, klass=1.5,
                         test=1.5, dangling=0.2),
            gen_kw=dict(cpa_p=0.35, max_depth=5),
            settings_fn=settings_fn, in_domain=in_domain,
            rule="nested-AST modules with definition / cmake_parse_arguments density raised (calls directly in "
                 "bodies, in if/foreach blocks, nested, sibling and later definitions, member/test "
                 "implementations, file level) x random trigger strings x strip regexes; projection = "
                 "function/macro entries with doc blanked; non-trivial = >= 2 entries; distinct by file bytes")
    import oracle
    oracle.c03_oracle(rep)
    pipe.crosscheck(rep)


def replay(obj):
    if obj.get('oracle'):
        import oracle
        return oracle.replay(obj)
    return std_replay(obj)
