"""C09 -- Class entries reflect the cpp_class structure of the source.

Correspondence: py:class entries (bases, constructors, methods with parameter/type pairing and
macro note, attributes with default, inner-class list) vs the model, default include flags."""
import core
import pipe
from props.common_ast import ast_run, std_replay, walk

REGEXES = ["", "", "", "^_[a-zA-Z]*_", "^[a-z]", "_$", "[0-9]+"]


def settings_fn(rng, mod):
    return dict(mem_re=rng.choice(REGEXES))


def in_domain(c):
    if "ast" not in c:
        return True
    for n in walk(c["ast"]["body"]):
        if n.get("rawargs") is not None:
            return False
    return True


def run(rep, model, tier, seed, broken=()):
    ast_run(rep, model, tier, seed, "C09", "class-entries", 1, {8}, 700, 12000,
            weights=dict(klass=6, defn=1.5, generic=1, set=0.5, option=0.3, add_test=0.2, test=0.5, cpa=0.5,
                         block=1, dangling=0.2),
            gen_kw=dict(max_depth=5), settings_fn=settings_fn, in_domain=in_domain,
            nontrivial=lambda c, mr: mr["status"] == "ok" and any(k == 8 for k, d, t in mr["entries"]),
            rule="nested-AST modules with class density raised (sibling and nested classes to depth 5, members / "
                 "constructors / attributes in any order with 0..3 types incl. args, function or macro "
                 "implementations with bodies, documented or not) x member strip regexes; projection = class "
                 "entries with doc blanked; non-trivial = >= 1 class entry; distinct by file bytes")
    pipe.crosscheck(rep)


replay = std_replay
