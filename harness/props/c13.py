"""C13 -- Directory mode writes exactly one page per processed CMake file.

Correspondence: the set of files under the output directory (and their bytes, and the exit status)
after cminx.main() on a generated tree with harness-controlled listing order vs the Write actions
of Model.Walk.document.  Oracle on the implementation: each page equals the single-file run of the
same file apart from title and module name."""
import json
import os

import core
import pipe
import treeh
from props import common_tree as ct


def page_body(text):
    """the page without the path-derived title block and module directive line"""
    lines = text.split("\n")
    body = lines[4:]
    return [l for l in body if not l.startswith(".. module:: ")]


def compare(tr, ir, mv, case):
    if ir["status"] != mv["status"]:
        return dict(what="exit status", impl=ir["status"], impl_exc=ir["exc"], model=mv["status"],
                    stderr=ir["stderr"])
    if tr.out_abs is None:
        return None
    skip = set()
    if case["out"] == "prepopulated":
        skip = {"old/stale.rst", "unrelated.txt"}
    if case["out"] == "parent_of_input":
        return None
    got = {k for k in ir["outfiles"] if k not in skip}
    want = set(mv["files"].keys())
    if got != want:
        return dict(what="set of files under the output directory", only_impl=sorted(got - want),
                    only_model=sorted(want - got))
    for k in sorted(want):
        if not k.endswith("index.rst") and page_body(ir["outfiles"][k].decode("utf-8", "replace")) != page_body(mv["files"][k].decode("utf-8", "replace")):
            return dict(what="page content (beyond title/module name)", file=k,
                        impl=ir["outfiles"][k].decode("utf-8", "replace")[:400],
                        model=mv["files"][k].decode("utf-8", "replace")[:400])
    return None


def single_file_oracle(model, tr_case, ir):
    """each page == single-file run of that file, apart from title/module name"""
    if "tree" not in tr_case or not ir["outfiles"]:
        return None
    nodes = {"/".join(rel): n for rel, n in treeh.walk_tree(tr_case["tree"]) if n["kind"] == "f"}
    checked = 0
    for rel, n in nodes.items():
        if not ct.is_cmake(rel):
            continue
        page = os.path.normpath(os.path.join(os.path.dirname(rel), ".".join(os.path.basename(rel).split(".")[:-1]) + ".rst"))
        if page not in ir["outfiles"]:
            continue
        single = dict(single_file=n["content"], input_name="zz.cmake", out="abs", headers=tr_case.get("headers"),
                      flags=tr_case.get("flags", {}))
        t2 = treeh.TreeRun(single)
        try:
            t2.layout()
            r2 = t2.run_impl()
        finally:
            t2.cleanup()
        if r2["status"] != 0 or "zz.rst" not in r2["outfiles"]:
            return dict(what="single-file run failed", file=rel, status=r2["status"])
        a = page_body(ir["outfiles"][page].decode("utf-8"))
        b = page_body(r2["outfiles"]["zz.rst"].decode("utf-8"))
        if a != b:
            return dict(what="page differs from the single-file run beyond title/module", file=rel)
        checked += 1
        if checked >= 2:
            break
    return None


def run(rep, model, tier, seed, broken=()):
    n = 300 if tier == "quick" else 4000
    rng = core.rng_for(seed, "C13")
    rep.coverage["rule"] = ("generated trees (depth <= 4, empty directories, directories with only non-CMake files, "
                            "directories without CMake files above ones with, mixed-case extensions, dotted/dashed "
                            "names, files named 'cmake') x recursive x auto-exclusion x prefix source x separator x "
                            "output location (absolute, relative, pre-populated, nested in the input tree) x input "
                            "spelling x working directory, listing order shuffled and enforced through os.scandir; "
                            "non-trivial = tree with >= 3 nodes; distinct by case hash")
    cases = []
    cdir = core.CORPUS / "C13"
    for f in sorted(cdir.glob("*.json")) if cdir.exists() else []:
        cases.append(treeh.case_from_json(json.loads(f.read_text())["case"]))
    rep.coverage["corpus_cases"] = len(cases)
    for i in range(n):
        cases.append(ct.gen_case(rng, patterns_p=0.15))
    nbad = 0
    outside = []
    pairs = []
    for case in cases:
        tr, ir, mv, req = treeh.run_case(model, case)
        ct.dist(rep, case, "walk")
        rep.count_case(json.dumps(treeh.case_json(case), sort_keys=True, default=str),
                       "tree" in case and sum(1 for _ in treeh.walk_tree(case["tree"])) >= 3)
        prob = compare(tr, ir, mv, tr.case)
        if prob is None and ct.tree_ok_excl(tr) and rng.random() < (0.15 if tier == "quick" else 0.05):
            prob = single_file_oracle(model, tr.case, ir)
            rep.dist("walk:single_file_oracle_checked")
        if prob:
            if ct.tree_ok_excl(tr):
                nbad += 1
                if nbad <= 3:
                    def still_bad(c2):
                        if not ct.tree_ok(c2):
                            return False
                        t2, i2, m2, _ = treeh.run_case(model, c2)
                        return compare(t2, i2, m2, t2.case) is not None
                    c3 = ct.shrink_tree(case, still_bad) if prob["what"] != "single-file run failed" else case
                    t3, i3, m3, _ = treeh.run_case(model, c3)
                    rep.violation(dict(kind="directory mode: " + prob["what"], diff=compare(t3, i3, m3, t3.case) or prob,
                                       argv=t3.argv, case=treeh.case_json(c3), tree=ct.describe(c3)))
            else:
                outside.append((case, prob))
    rep.coverage["disagreements"] = nbad
    rep.coverage["out_of_domain_disagreements"] = len(outside)
    rep.coverage["correspondence"]["cminx.main on scratch trees vs Model.Walk.document"] = len(cases)
    rep.sample(ct.describe(cases[-1]))
    if outside and not rep.violations:
        case, prob = outside[0]
        rep.violation(dict(kind="correspondence walk/model broken outside the property's domain",
                           broken="correspondence cminx.main vs Model.Walk.document", diff=prob,
                           case=treeh.case_json(case), tree=ct.describe(case)), no_input=True)


def replay(obj):
    model = core.Model()
    case = treeh.case_from_json(obj["case"])
    tr, ir, mv, _ = treeh.run_case(model, case)
    print("argv:", tr.argv)
    print("\n".join(treeh.tree_listing(case.get("tree", []))))
    print("impl status", ir["status"], ir["exc"], "files", sorted(ir["outfiles"]))
    print("model status", mv["status"], "files", sorted(mv["files"]))
    p = compare(tr, ir, mv, tr.case)
    print("diff:", p)
    return 1 if p else 0
