"""C12 -- Title and module name derive from prefix and relative path, or @module.

Correspondence: the heading frame (first four lines) and the `.. module::` directive with its
content of every generated page vs Model (Naming.header_and_module + Pipeline.finalize +
Writer.heading_text) on generated trees, single files, prefixes, separators, extension flags,
header lists, @module doccomments."""
import json

import core
import treeh
from props import common_tree as ct


def head_of(text):
    """(overline, title, underline, module directive line, module content lines)"""
    lines = text.split("\n")
    frame = lines[1:4]
    mod = None
    content = []
    for i, l in enumerate(lines):
        if l.startswith(".. module:: "):
            mod = l
            j = i + 1
            while j < len(lines) and (lines[j].startswith("   ") or lines[j] == ""):
                content.append(lines[j])
                j += 1
            break
    nmod = sum(1 for l in lines if l.startswith(".. module:: "))
    return frame, mod, content, nmod


def compare(tr, ir, mv, case):
    if ir["status"] != mv["status"]:
        return dict(what="exit status", impl=ir["status"], impl_exc=ir["exc"], model=mv["status"])
    if tr.out_abs is None or case["out"] == "parent_of_input":
        return None
    for k in sorted(mv["files"]):
        if k.endswith("index.rst") or k not in ir["outfiles"]:
            continue
        a = head_of(ir["outfiles"][k].decode("utf-8", "replace"))
        b = head_of(mv["files"][k].decode("utf-8", "replace"))
        if a != b:
            return dict(what="title / module directive", file=k, impl=a, model=b)
    return None


def frame_oracle(ir, case):
    """the property itself on the implementation's pages: overline = underline = first header
    character repeated to the title's length; exactly one module directive"""
    hc = (case.get("headers") or ["#"])[0]
    for k, data in ir["outfiles"].items():
        if k.endswith("index.rst") or not k.endswith(".rst") or k in ("old/stale.rst",):
            continue
        frame, mod, content, nmod = head_of(data.decode("utf-8", "replace"))
        if len(frame) < 3:
            return dict(what="page too short", file=k)
        if frame[0] != hc * len(frame[1]) or frame[2] != frame[0]:
            return dict(what="heading frame does not match the title length / header character", file=k, frame=frame)
        if nmod != 1:
            return dict(what="page does not have exactly one module directive", file=k, count=nmod)
    return None


def run(rep, model, tier, seed, broken=()):
    n = 300 if tier == "quick" else 5000
    rng = core.rng_for(seed, "C12")
    rep.coverage["rule"] = ("generated trees and single files x prefix (absent, -p, config, both) x separator "
                            "(., ::, /, multi-char) x both extension flags x header lists x input spelling (absolute, "
                            "relative, ./, trailing slash, '.') x working directory; modules with and without "
                            "@module doccomments (named / unnamed, with body); projection = heading frame + module "
                            "directive + its content per page; non-trivial = tree with >= 3 nodes; distinct by case hash")
    cases = []
    cdir = core.CORPUS / "C12"
    for f in sorted(cdir.glob("*.json")) if cdir.exists() else []:
        cases.append(treeh.case_from_json(json.loads(f.read_text())["case"]))
    rep.coverage["corpus_cases"] = len(cases)
    for i in range(n):
        c = ct.gen_case(rng, patterns_p=0.0, single_p=0.25, out_modes=("abs", "abs", "rel"), missing_p=0.0)
        cases.append(c)
    nbad = 0
    outside = []
    multi_p = 0.15 if tier == "quick" else 0.05
    for case in cases:
        tr, ir, mv, req = treeh.run_case(model, case)
        ct.dist(rep, case, "names")
        rep.count_case(json.dumps(treeh.case_json(case), sort_keys=True, default=str),
                       "tree" not in case or sum(1 for _ in treeh.walk_tree(case["tree"])) >= 3)
        prob = compare(tr, ir, mv, tr.case) or (frame_oracle(ir, tr.case) if ct.tree_ok(case) else None)
        if prob is None and ct.tree_ok(case) and ir["status"] == 0 and tr.out_abs is not None \
                and case.get("out") != "parent_of_input" and rng.random() < multi_p:
            # the same input as one of several on one command line, after a directory input without explicit
            # prefix: titles and module names must be those of the run on its own (the default prefix of
            # one input is not the prefix of the next)
            from props.c17 import embedded_run
            ie = embedded_run(dict(case), base_files=ir["outfiles"])
            rep.dist("names:embedded_after_directory_input")
            if ie["status"] == 0:
                for k in sorted(ir["outfiles"]):
                    if k.endswith("index.rst") or k not in ie["outfiles"]:
                        continue
                    a = head_of(ie["outfiles"][k].decode("utf-8", "replace"))
                    b = head_of(ir["outfiles"][k].decode("utf-8", "replace"))
                    if a != b:
                        prob = dict(what="title / module directive differ when the input follows a directory input on one "
                                         "command line", file=k, embedded=a, alone=b)
                        break
        if prob:
            if ct.tree_ok(case):
                nbad += 1
                if nbad <= 3:
                    def still_bad(c2):
                        if not ct.tree_ok(c2):
                            return False
                        t2, i2, m2, _ = treeh.run_case(model, c2)
                        return (compare(t2, i2, m2, t2.case) or frame_oracle(i2, t2.case)) is not None
                    c3 = ct.shrink_tree(case, still_bad)
                    t3, i3, m3, _ = treeh.run_case(model, c3)
                    rep.violation(dict(kind="naming: " + prob["what"],
                                       diff=compare(t3, i3, m3, t3.case) or frame_oracle(i3, t3.case) or prob,
                                       argv=t3.argv, case=treeh.case_json(c3), tree=ct.describe(c3)))
            else:
                outside.append((case, prob))
    rep.coverage["disagreements"] = nbad
    rep.coverage["correspondence"]["page heads: cminx.main vs Model (Naming/Pipeline.finalize/Writer.heading_text)"] = len(cases)
    rep.sample(ct.describe(cases[-1]))
    if outside and not rep.violations:
        case, prob = outside[0]
        rep.violation(dict(kind="correspondence naming/model broken outside the property's domain",
                           broken="correspondence page heads", diff=prob, case=treeh.case_json(case),
                           tree=ct.describe(case)), no_input=True)


def replay(obj):
    model = core.Model()
    case = treeh.case_from_json(obj["case"])
    tr, ir, mv, _ = treeh.run_case(model, case)
    print("argv:", tr.argv)
    p = compare(tr, ir, mv, tr.case) or frame_oracle(ir, tr.case)
    print("diff:", p)
    return 1 if p else 0
