"""C18 -- Pages go only where requested: the output directory, or stdout.

A sandbox root holding the input tree, working directory, decoys and the output directory is
snapshotted (path, type, SHA-256) before and after each run: with -o only paths inside the output
directory may change and nothing may disappear; without -o nothing changes and stdout equals the
pages the same invocation with -o writes (index pages excluded), directory files in sorted name
order, each page followed by one empty line.  Both are also compared with Model.Walk's actions."""
import json
import os

import core
import treeh
from props import common_tree as ct


def expected_stdout_from_files(tr, outfiles, model_order):
    return "".join(outfiles[k].decode("utf-8") + "\n\n" for k in model_order if k in outfiles)


def run(rep, model, tier, seed, broken=()):
    n = 200 if tier == "quick" else 3000
    rng = core.rng_for(seed, "C18")
    rep.coverage["rule"] = ("generated trees and single files x output directory absolute / relative / nested inside "
                            "the input tree / parent of it / pre-populated / absent x settings affecting page content; "
                            "sandbox snapshot before/after; stdout of the run without -o vs files of the run with -o; "
                            "non-trivial = tree with >= 3 nodes; distinct by case hash")
    nbad = 0
    cases = [ct.gen_case(rng, patterns_p=0.15, single_p=0.2, missing_p=0.02,
                         out_modes=("abs", "rel", "prepopulated", "nested", "parent_of_input", "none", "none"))
             for _ in range(n)]
    for case in cases:
        tr = treeh.TreeRun(case)
        try:
            tr.layout()
            req = tr.model_request()
            acts = treeh.dec_actions(model.call(req))
            mv = treeh.model_view(acts)
            ir = tr.run_impl()
            out_abs = tr.out_abs
            root = tr.root
        finally:
            tr.cleanup()
        ct.dist(rep, case, "io")
        rep.count_case(json.dumps(treeh.case_json(case), sort_keys=True, default=str),
                       "tree" not in case or sum(1 for _ in treeh.walk_tree(case["tree"])) >= 3)
        prob = None
        if ir["status"] != mv["status"]:
            prob = dict(what="exit status", impl=ir["status"], exc=ir["exc"], model=mv["status"])
        elif ir["removed"]:
            prob = dict(what="something was deleted", removed=[list(k) for k in ir["removed"]][:5])
        elif out_abs is None:
            if ir["changed"]:
                prob = dict(what="files written although no output directory was given",
                            changed=[list(k) for k in ir["changed"]][:5])
            else:
                got = treeh.strip_log_lines(ir["stdout"])
                if got != mv["stdout"]:
                    prob = dict(what="stdout differs from the pages the model prints", impl=got[:500],
                                model=mv["stdout"][:500])
                elif ir["status"] == 0 and tr.kind != "missing":
                    # the same invocation with -o
                    c2 = dict(case, out="abs")
                    t2, i2, m2, _ = treeh.run_case(model, c2)
                    order = [a[1] for a in treeh.dec_actions(model.call(t2.model_request())) if a[0] == "write"
                             and not a[1].endswith("index.rst")]
                    want = "".join(i2["outfiles"][os.path.normpath(k)].decode("utf-8") + "\n\n" for k in order
                                   if os.path.normpath(k) in i2["outfiles"])
                    rep.dist("io:stdout_vs_-o_pairs")
                    if i2["status"] != 0:
                        prob = dict(what="-o run of the same invocation failed", status=i2["status"])
                    elif got != want:
                        prob = dict(what="stdout is not exactly the pages the -o run writes", impl=got[:400], want=want[:400])
        else:
            rel_out = os.path.relpath(out_abs, root)
            outside = [k for k in ir["changed"] if not (os.path.normpath(k[1]) == rel_out
                                                        or os.path.normpath(k[1]).startswith(rel_out + os.sep))
                       # directories leading to the output directory may be created
                       and not (k[0] == "d" and (rel_out + os.sep).startswith(os.path.normpath(k[1]) + os.sep))]
            if outside:
                prob = dict(what="a path outside the output directory was created or modified",
                            paths=[list(k) for k in outside][:5], out=rel_out)
            else:
                # inside the output directory: exactly the model's writes changed
                changed_files = {os.path.relpath(os.path.join(root, k[1]), out_abs) for k in ir["changed"] if k[0] == "f"}
                want = set(mv["files"].keys())
                if changed_files != want:
                    prob = dict(what="files changed inside the output directory differ from the model's writes",
                                only_impl=sorted(changed_files - want)[:5], only_model=sorted(want - changed_files)[:5])
        if prob:
            nbad += 1
            if nbad <= 3:
                rep.violation(dict(kind="confinement: " + prob["what"], diff=prob, argv=tr.argv,
                                   case=treeh.case_json(case), tree=ct.describe(case)))
    nbad += symlink_stage(rep, rng, 4 if tier == "quick" else 40)
    rep.coverage["disagreements"] = nbad
    rep.coverage["correspondence"]["file-system effects and stdout: cminx.main vs Model.Walk actions"] = len(cases)
    rep.sample(ct.describe(cases[-1]))


def symlink_stage(rep, rng, n):
    """Symbolic links are not part of the tree model (DESIGN 7, C13-C15 gap), but the confinement
    property is about the real file system: a symlinked *.cmake file whose target lies outside the
    input directory, and an input directory reached through a symlink, must still put every page
    inside the output directory and nowhere else (implementation-only snapshot oracle)."""
    import contextlib
    import io
    import shutil
    import cminx
    bad = 0
    for i in range(n):
        root = core.scratch_dir("cminx_c18_links_")
        try:
            os.makedirs(os.path.join(root, "shared"))
            os.makedirs(os.path.join(root, "proj", "sub"))
            os.makedirs(os.path.join(root, "realproj", "v2"))
            os.makedirs(os.path.join(root, "links"))
            body = treeh.simple_module(rng, "f")
            open(os.path.join(root, "shared", "toolchain.cmake"), "wb").write(body)
            open(os.path.join(root, "proj", "a.cmake"), "wb").write(treeh.simple_module(rng, "a"))
            open(os.path.join(root, "proj", "sub", "b.cmake"), "wb").write(treeh.simple_module(rng, "b"))
            os.symlink(os.path.join("..", "shared", "toolchain.cmake"), os.path.join(root, "proj", "tc.cmake"))
            open(os.path.join(root, "realproj", "v2", "hello.cmake"), "wb").write(treeh.simple_module(rng, "h"))
            os.symlink(os.path.join("..", "realproj", "v2"), os.path.join(root, "links", "proj2"))
            scenarios = [("symlinked file in the input directory", os.path.join(root, "proj"),
                          {"index.rst", "a.rst", "tc.rst", os.path.join("sub", "index.rst"), os.path.join("sub", "b.rst")}),
                         ("input directory reached through a symlink", os.path.join(root, "links", "proj2"),
                          {"index.rst", "hello.rst"})]
            for label, inp, want in scenarios:
                out = os.path.join(root, "out_" + str(len(label)))
                os.makedirs(out)
                open(os.path.join(out, "unrelated.txt"), "w").write("keep me")
                before = treeh.snapshot(root)
                status = 0
                try:
                    with contextlib.redirect_stdout(io.StringIO()), contextlib.redirect_stderr(io.StringIO()):
                        cminx.main([inp, "-r", "-o", out])
                except SystemExit as e:
                    status = e.code if isinstance(e.code, int) else 1
                except BaseException as e:
                    status = "%s: %s" % (type(e).__name__, str(e)[:100])
                import logging
                logging.disable(logging.CRITICAL)
                after = treeh.snapshot(root)
                rel_out = os.path.relpath(out, root)
                changed = [k for k in after if before.get(k, "absent") != after[k]]
                removed = [k for k in before if k not in after]
                outside = [k for k in changed if not (k[1] == rel_out or k[1].startswith(rel_out + os.sep))]
                got = {os.path.relpath(k[1], rel_out) for k in changed if k[0] == "f" and k[1].startswith(rel_out + os.sep)}
                rep.count_case(("symlink", label, i), True)
                rep.dist("io:symlink scenarios")
                prob = None
                if status != 0:
                    prob = dict(what="run failed", status=status)
                elif outside or removed:
                    prob = dict(what="a path outside the output directory was created, modified or removed",
                                outside=[list(k) for k in outside][:5], removed=[list(k) for k in removed][:5])
                elif got != want:
                    prob = dict(what="pages in the output directory differ from the expected set",
                                missing=sorted(want - got), extra=sorted(got - want))
                if prob:
                    bad += 1
                    if bad <= 2:
                        rep.violation(dict(kind="confinement (symbolic links): " + prob["what"], scenario=label, diff=prob,
                                           argv=[inp, "-r", "-o", out], oracle="symlink"))
        finally:
            shutil.rmtree(root, ignore_errors=True)
    return bad


def replay(obj):
    if obj.get("oracle") == "symlink":
        print(json.dumps(obj, indent=1)[:2000])
        rep = core.Report("C18", "quick", 0)
        return 1 if symlink_stage(rep, core.rng_for(0, "C18", "replay"), 1) else 0
    model = core.Model()
    case = treeh.case_from_json(obj["case"])
    tr, ir, mv, _ = treeh.run_case(model, case)
    print("argv:", tr.argv, "status", ir["status"])
    print("changed:", sorted(ir["changed"])[:30])
    print(obj.get("diff"))
    return 1
