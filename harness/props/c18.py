"""C18 -- Pages go only where requested: the output directory, or stdout.

A sandbox root holding the input tree, working directory, decoys and the output directory is
snapshotted (path, type, SHA-256) before and after each run: with -o only paths inside the output
directory may change and nothing may disappear; without -o nothing changes and stdout equals the
pages the same invocation with -o writes (index pages excluded), directory files in sorted name
order, each page followed by one empty line.  Both are also compared with Model.Walk's actions."""
import json
import os

import core
import treeh
from props import common_tree as ct


def expected_stdout_from_files(tr, outfiles, model_order):
    return "".join(outfiles[k].decode("utf-8") + "\n\n" for k in model_order if k in outfiles)


def run(rep, model, tier, seed, broken=()):
    n = 90 if tier == "quick" else 3000
    rng = core.rng_for(seed, "C18")
    rep.coverage["rule"] = ("generated trees and single files x output directory absolute / relative / nested inside "
                            "the input tree / parent of it / pre-populated / absent x settings affecting page content; "
                            "sandbox snapshot before/after; stdout of the run without -o vs files of the run with -o; "
                            "non-trivial = tree with >= 3 nodes; distinct by case hash")
    nbad = 0
    cases = [ct.gen_case(rng, patterns_p=0.15, single_p=0.2, missing_p=0.02,
                         out_modes=("abs", "rel", "prepopulated", "nested", "parent_of_input", "none", "none"))
             for _ in range(n)]
    for case in cases:
        tr = treeh.TreeRun(case)
        try:
            tr.layout()
            req = tr.model_request()
            acts = treeh.dec_actions(model.call(req))
            mv = treeh.model_view(acts)
            ir = tr.run_impl()
            out_abs = tr.out_abs
            root = tr.root
        finally:
            tr.cleanup()
        ct.dist(rep, case, "io")
        rep.count_case(json.dumps(treeh.case_json(case), sort_keys=True, default=str),
                       "tree" not in case or sum(1 for _ in treeh.walk_tree(case["tree"])) >= 3)
        prob = None
        if ir["status"] != mv["status"]:
            prob = dict(what="exit status", impl=ir["status"], exc=ir["exc"], model=mv["status"])
        elif ir["removed"]:
            prob = dict(what="something was deleted", removed=[list(k) for k in ir["removed"]][:5])
        elif out_abs is None:
            if ir["changed"]:
                prob = dict(what="files written although no output directory was given",
                            changed=[list(k) for k in ir["changed"]][:5])
            else:
                got = treeh.strip_log_lines(ir["stdout"])
                if got != mv["stdout"]:
                    prob = dict(what="stdout differs from the pages the model prints", impl=got[:500],
                                model=mv["stdout"][:500])
                elif ir["status"] == 0 and tr.kind != "missing":
                    # the same invocation with -o
                    c2 = dict(case, out="abs")
                    t2, i2, m2, _ = treeh.run_case(model, c2)
                    order = [a[1] for a in treeh.dec_actions(model.call(t2.model_request())) if a[0] == "write"
                             and not a[1].endswith("index.rst")]
                    want = "".join(i2["outfiles"][os.path.normpath(k)].decode("utf-8") + "\n\n" for k in order
                                   if os.path.normpath(k) in i2["outfiles"])
                    rep.dist("io:stdout_vs_-o_pairs")
                    if i2["status"] != 0:
                        prob = dict(what="-o run of the same invocation failed", status=i2["status"])
                    elif got != want:
                        prob = dict(what="stdout is not exactly the pages the -o run writes", impl=got[:400], want=want[:400])
        else:
            rel_out = os.path.relpath(out_abs, root)
            outside = [k for k in ir["changed"] if not (os.path.normpath(k[1]) == rel_out
                                                        or os.path.normpath(k[1]).startswith(rel_out + os.sep))
                       # directories leading to the output directory may be created
                       and not (k[0] == "d" and (rel_out + os.sep).startswith(os.path.normpath(k[1]) + os.sep))]
            if outside:
                prob = dict(what="a path outside the output directory was created or modified",
                            paths=[list(k) for k in outside][:5], out=rel_out)
            else:
                # inside the output directory: exactly the model's writes changed
                changed_files = {os.path.relpath(os.path.join(root, k[1]), out_abs) for k in ir["changed"] if k[0] == "f"}
                want = set(mv["files"].keys())
                if changed_files != want:
                    prob = dict(what="files changed inside the output directory differ from the model's writes",
                                only_impl=sorted(changed_files - want)[:5], only_model=sorted(want - changed_files)[:5])
        if prob:
            nbad += 1
            if nbad <= 3:
                rep.violation(dict(kind="confinement: " + prob["what"], diff=prob, argv=tr.argv,
                                   case=treeh.case_json(case), tree=ct.describe(case)))
    rep.coverage["disagreements"] = nbad
    rep.coverage["correspondence"]["file-system effects and stdout: cminx.main vs Model.Walk actions"] = len(cases)
    rep.sample(ct.describe(cases[-1]))


def replay(obj):
    model = core.Model()
    case = treeh.case_from_json(obj["case"])
    tr, ir, mv, _ = treeh.run_case(model, case)
    print("argv:", tr.argv, "status", ir["status"])
    print("changed:", sorted(ir["changed"])[:30])
    print(obj.get("diff"))
    return 1
