"""C10 -- Variable and option entries state type, default and help correctly.

Correspondence: `.. data::` entries (VariableDocumentation / OptionDocumentation) of the
implementation vs Model.Aggregator.process_set/process_option + DocTypes.render_entry, with doc
texts blanked on both sides (projection mode 1).  Theorems: Properties/C10.v."""
import core
import gen
import pipe

KINDS = {2, 3}


def direct_cases(rng):
    """every argument form as the value(s) of set(), every option() shape"""
    forms = ['x', 'a.b', '"quoted"', '""', '"a\\"b"', '"a\\""', '"\\""', '${v}', '"${v} x"', '[[x y]]', '[=[ ]=]',
             '[[]]', 'a;b', '\;', '"a\nb"', '"', 'x"y'][:15]
    out = []
    for f in forms:
        out.append(f'#[[[\n# d\n#]]\nset(V {f})\n')
        out.append(f'#[[[\n# d\n#]]\nset(V {f} {rng.choice(forms)})\n')
        out.append(f'#[[[\n# d\n#]]\nset({f})\n')
        out.append(f'#[[[\n# d\n#]]\noption(O {f})\noption(P "h" {f})\n')
    # values that are CMake keywords of set() are values like any other as far as the entry goes
    for kw in ("PARENT_SCOPE", "CACHE", "FORCE", "parent_scope", "INTERNAL"):
        out.append(f'#[[[\n# d\n#]]\nset(V {kw})\n')
        out.append(f'#[[[\n# d\n#]]\nset(V result {kw})\n')
        out.append(f'#[[[\n# d\n#]]\nset(V "${{r}}" {kw})\nset(W a b c {kw})\n')
        out.append(f'#[[[\n# d\n#]]\nset(V {kw} x)\noption(O "help" {kw})\n')
    out.append('#[[[\n# d\n#]]\nset(V "v" CACHE STRING "doc" FORCE)\n')
    out.append('#[[[\n#]]\nset()\n')
    out.append('#[[[\n#]]\nSET(V)\noption(O)\noption(a b c d)\nOPTION(X "help")\n')
    return [pipe.norm_case(dict(data=s)) for s in out]


def in_domain(c):
    # values are single arguments: no parenthesised group inside set()/option()
    def ok(nodes):
        for n in nodes:
            if n["kind"] == "cmd" and n["name"] in ("set", "option"):
                if any(isinstance(a, list) for a in n["args"]):
                    return False
            if "body" in n and not ok(n["body"]):
                return False
            if n.get("impl") and not ok([n["impl"]]):
                return False
        return True
    return "ast" not in c or ok(c["ast"]["body"])


def run(rep, model, tier, seed, broken=()):
    n = 500 if tier == "quick" else 8000
    rng = core.rng_for(seed, "C10")
    gen.set_ascii(True)
    try:
        rep.coverage["rule"] = ("modules from the nested-AST generator with set()/option() density raised (every "
                                "argument form, 0..4 values, options with/without default, documented or not, at any "
                                "nesting position) + a fixed list of direct shapes; projection = data entries rendered "
                                "with doc text blanked; non-trivial = at least one data entry; distinct by file bytes")
        cases = pipe.corpus_cases("C10") + direct_cases(rng)   # scenarios and witnesses of repaired findings
        for i in range(n):
            mod = gen.gen_module(rng, budget=rng.choice([4, 8, 16, 30]),
                                 weights=dict(set=6, option=5, generic=1, add_test=0.3, klass=0.7, test=0.7,
                                              cpa=0.3, dangling=0.2))
            cases.append(pipe.ast_case(mod, rng, trivia_p=rng.choice([0, 0.15, 0.4])))
        rep.sample(pipe.decode_preview(cases[-1]["data"], 600))
        outside = pipe.run_projection(
            rep, model, cases, 1, KINDS, "data-entries", in_domain=in_domain,
            nontrivial=lambda c, mr: mr["status"] == "ok" and any(k in KINDS for k, d, t in mr["entries"]))
        pipe.finish_projection(rep, outside, "data-entries")
        import oracle
        oracle.c10_oracle(rep, model, core.rng_for(seed, "C10", "oracle"), 100 if tier == "quick" else 3000)
        pipe.crosscheck(rep)
    finally:
        gen.set_ascii(False)


def replay(obj):
    if obj.get("oracle"):
        import oracle
        return oracle.replay(obj)
    model = core.Model()
    c = pipe.case_from_json(obj["case"])
    d = pipe.compare_projection(model, c, obj.get("projection_mode", 1), set(obj["kinds"]) if obj.get("kinds") else None)
    print(pipe.decode_preview(c["data"], 2000))
    print("diff:", d)
    return 1 if d else 0
