"""C11 -- Test entries carry the declared name, EXPECTFAIL flag and arguments.

Correspondence: ct_add_test / ct_add_section / add_test entries vs the model."""
import core
import pipe
from props.common_ast import ast_run, std_replay, walk


def in_domain(c):
    if "ast" not in c:
        return True
    for n in walk(c["ast"]["body"]):
        args = None
        if n["kind"] == "test":
            args = n["args"]
        elif n["kind"] == "cmd" and n["name"] == "add_test":
            args = n["args"]
        if args is not None:
            flat = [a for a in args if isinstance(a, str)]
            # hypothesis of the theorem: NAME occurs exactly once, is followed by the name
            if flat.count("NAME") != 1 or flat.index("NAME") == len(flat) - 1:
                return False
            if any(a.upper() in ("NAME", "EXPECTFAIL") and a not in ("NAME", "EXPECTFAIL") for a in flat):
                return False      # F14: keywords in other letter case
    return True


def run(rep, model, tier, seed, broken=()):
    ast_run(rep, model, tier, seed, "C11", "test-entries", 1, {5, 6, 7}, 700, 12000,
            weights=dict(test=6, add_test=5, defn=1, generic=1, set=0.3, option=0.3, klass=0.5, cpa=0.3,
                         block=1, dangling=0.2),
            in_domain=in_domain,
            nontrivial=lambda c, mr: mr["status"] == "ok" and any(k in (5, 6, 7) for k, d, t in mr["entries"]),
            rule="nested-AST modules with test density raised (NAME at every position, arguments equal to the "
                 "name or containing a keyword as substring, EXPECTFAIL anywhere, sections nested in test bodies, "
                 "documented or not); projection = test/section/ctest entries with doc blanked; non-trivial = "
                 ">= 1 test entry; distinct by file bytes")
    import oracle
    oracle.c11_oracle(rep, model, core.rng_for(seed, 'C11', 'oracle'), 150 if tier == 'quick' else 4000,
                      pinned=[['NAME', 'foo', 'COMMAND', 'foo', '--x', 'foo'], ['NAME', 't', 'COMMAND', 'echo', 'name', 'value']])
    pipe.crosscheck(rep)


def replay(obj):
    if obj.get('oracle'):
        import oracle
        return oracle.replay(obj)
    return std_replay(obj)
