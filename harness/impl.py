"""Adapters to the implementation under /repo (imported from the working tree)."""
import contextlib
import io
import logging
import os
import sys
import tempfile
from pathlib import Path

from core import REPO

sys.path.insert(0, str(REPO / "src"))
import warnings
warnings.filterwarnings("ignore")

import cminx                                     # noqa: E402
from cminx import config as cconfig              # noqa: E402
from cminx.aggregator import DocumentationAggregator   # noqa: E402
from cminx.documenter import Documenter          # noqa: E402
from cminx import rstwriter                      # noqa: E402

assert Path(cminx.__file__).resolve().is_relative_to(REPO.resolve()), cminx.__file__

logging.disable(logging.CRITICAL)

FLAG_NAMES = ["function", "macro", "cpp_class", "cpp_attr", "cpp_constructor", "cpp_member",
              "ct_add_test", "ct_add_section", "add_test", "option"]
DEFAULT_HEADERS = ['#', '*', '=', '-', '_', '~', '!', '&', '@', '^']


def make_settings(flags=None, trigger=":param **kwargs:", fn_re="", mac_re="", mem_re="",
                  headers=None, **rst):
    s = cconfig.Settings()
    flags = flags or {}
    for n in FLAG_NAMES:
        setattr(s.input, f"include_undocumented_{n}", bool(flags.get(n, True)))
    s.input.kwargs_doc_trigger_string = trigger
    s.input.function_parameter_name_strip_regex = fn_re
    s.input.macro_parameter_name_strip_regex = mac_re
    s.input.member_parameter_name_strip_regex = mem_re
    s.rst.headers = list(headers) if headers is not None else list(DEFAULT_HEADERS)
    for k, v in rst.items():
        setattr(s.rst, k, v)
    return s


def classify_exception(e):
    """coarse error classes shared with the model's outcome type"""
    name = type(e).__name__
    if isinstance(e, UnicodeDecodeError):
        return "decode"
    return "error"


_scratch = None


def scratch():
    global _scratch
    if _scratch is None:
        from core import scratch_dir
        _scratch = scratch_dir("cminx_impl_")
    return _scratch


def cleanup():
    global _scratch
    if _scratch is not None:
        import shutil
        shutil.rmtree(_scratch, ignore_errors=True)
        _scratch = None


def document_bytes(data: bytes, title="T", module_name="M", settings=None, want_docs=False):
    """Documenter(file, title, module_name, settings).process() -> ('ok', text[, documented])
    or ('err', class, exception name)"""
    settings = settings or make_settings()
    path = os.path.join(scratch(), "input.cmake")
    with open(path, "wb") as f:
        f.write(data)
    err = io.StringIO()
    try:
        with contextlib.redirect_stderr(err), contextlib.redirect_stdout(io.StringIO()):
            d = Documenter(path, title, module_name, settings)
            w = d.process()
            text = w.to_text()
        if want_docs:
            return ("ok", text, d.aggregator.documented)
        return ("ok", text)
    except BaseException as e:       # SystemExit included
        return ("err", classify_exception(e), type(e).__name__, err.getvalue()[-300:])


def document_str(src: str, **kw):
    return document_bytes(src.encode("utf-8", "surrogatepass"), **kw)


def clean_doc_lines(lines):
    try:
        return ("ok", DocumentationAggregator.clean_doc_lines(list(lines)))
    except BaseException as e:
        return ("err", type(e).__name__)


def lex_tokens(src: str):
    """visible token stream of the real lexer: [(type, text)] or ('err', ...).  Lexer errors
    are detected through an error listener attached here (the lexer only prints them)."""
    from antlr4 import InputStream, CommonTokenStream, Token
    from antlr4.error.ErrorListener import ErrorListener
    from cminx.parser.CMakeLexer import CMakeLexer

    class L(ErrorListener):
        def __init__(self):
            self.errors = []

        def syntaxError(self, recognizer, offendingSymbol, line, column, msg, e):
            self.errors.append((line, column, msg))

    lexer = CMakeLexer(InputStream(src))
    lexer.removeErrorListeners()
    lst = L()
    lexer.addErrorListener(lst)
    toks = []
    while True:
        t = lexer.nextToken()
        if t.type == Token.EOF:
            break
        toks.append((t.type, t.text))
    if lst.errors:
        return ("err", lst.errors[0])
    return ("ok", toks)


def parse_invocations(data: bytes):
    """the command invocations of the public parse tree: ('ok', [(name, [leaf texts with ( ) markers])])"""
    from antlr4 import ParseTreeWalker
    from cminx.parser.CMakeListener import CMakeListener
    from cminx.parser.CMakeParser import CMakeParser
    path = os.path.join(scratch(), "parse_input.cmake")
    with open(path, "wb") as f:
        f.write(data)

    def leaves(ctx):
        out = []
        for ch in ctx.getChildren():
            if isinstance(ch, CMakeParser.Single_argumentContext):
                out.append(ch.getText())
            elif isinstance(ch, CMakeParser.Compound_argumentContext):
                out.append("(")
                out += leaves(ch)
                out.append(")")
        return out

    class Lst(CMakeListener):
        def __init__(self):
            self.inv = []

        def enterCommand_invocation(self, ctx):
            self.inv.append((ctx.Identifier().getText(), leaves(ctx)))
    err = io.StringIO()
    try:
        with contextlib.redirect_stderr(err), contextlib.redirect_stdout(io.StringIO()):
            d = Documenter(path, "T", "M", make_settings())
            tree = d.parser.cmake_file()
            if d.parser.getNumberOfSyntaxErrors() > 0:
                return ("err", "syntax errors reported", err.getvalue()[-300:])
            l = Lst()
            ParseTreeWalker().walk(l, tree)
        return ("ok", l.inv)
    except BaseException as e:
        return ("err", type(e).__name__, err.getvalue()[-300:])
