"""Spec oracles: the right-hand sides of the theorems (Spec/EntrySpec.v, extracted) evaluated
against the IMPLEMENTATION on inputs that satisfy the theorem's hypotheses.  Used to find and to
re-confirm concrete failing inputs; a disagreement here is the property failing on the real
code, whatever the hand-written model says."""
import json

import core
import gen
import pipe

DOC = "#[[[\n# d\n#]]\n"


def _impl_docs(text, **settings):
    c = pipe.norm_case(dict(data=text, **settings))
    r = pipe.impl_run(c)
    return c, r


def _obj_view(o):
    n = type(o).__name__
    d = dict(cls=n, name=getattr(o, "name", None))
    for k in ("params", "expect_fail", "has_kwargs", "value", "help_text", "is_macro"):
        if hasattr(o, k):
            v = getattr(o, k)
            d[k] = list(v) if isinstance(v, (list, tuple)) else v
    if hasattr(o, "type"):
        d["type"] = getattr(o.type, "name", str(o.type))
    return d


def _report(rep, prop_kind, text, expected, actual, extra=None):
    obj = dict(kind="spec-oracle: implementation contradicts " + prop_kind, oracle=prop_kind,
               input_utf8=text, expected_by_spec=expected, implementation=actual)
    if extra:
        obj.update(extra)
    rep.violation(obj, tag="spec")


# ---------------------------------------------------------------------------------------
# C11

def c11_args(rng):
    """argument lists with NAME exactly once and not last (the quantifier of C11)"""
    name = gen.rand_ident(rng, 1, 5)
    pool = [name, name, "COMMAND", "EXPECTFAIL", "MYNAME", "NAMES", "name", "Name", "expectfail", "EXPECTFAILURE",
            "--x", "-c", "echo", "NAME_X", "${v}", "a.b", '"q s"'] + [gen.rand_ident(rng, 1, 4) for _ in range(3)]
    before = [rng.choice(pool) for _ in range(rng.choice([0, 0, 0, 1, 2]))]
    after = [rng.choice(pool) for _ in range(rng.choice([0, 1, 2, 3, 5]))]
    return before + ["NAME", name] + after


def c11_oracle(rep, model, rng, n, pinned=()):
    cases = []
    for args in pinned:
        for cmd in ("add_test", "ct_add_test", "ct_add_section"):
            cases.append((cmd, list(args), True))
    for _ in range(n):
        cases.append((rng.choice(["add_test", "add_test", "ct_add_test", "ct_add_section"]), c11_args(rng),
                      rng.random() < 0.7))
    reqs = [[20, a] if cmd == "add_test" else [21, a] for cmd, a, _ in cases]
    replies = model.call_many(reqs)
    bad = 0
    for (cmd, args, docd), rp in zip(cases, replies):
        text = (DOC if docd else "") + f"{cmd}({' '.join(args)})\n"
        c, r = _impl_docs(text)
        rep.count_case(("c11-oracle", text))
        rep.dist("spec-oracle:c11_" + cmd)
        if not rp:      # spec: NAME last -- outside the quantifier
            continue
        sname = core.d_str(rp[0][0])
        if r["status"] != "ok" or not r["docs"]:
            _report(rep, "Spec.EntrySpec (C11)", text, dict(name=sname), dict(status=r["status"], exc=r["exc"]))
            bad += 1
            continue
        o = _obj_view(r["docs"][-1])
        if cmd == "add_test":
            exp = dict(name=sname, params=[core.d_str(x) for x in rp[0][1]])
            act = dict(name=o["name"], params=o.get("params"))
        else:
            exp = dict(name=sname, expect_fail=bool(rp[0][1]))
            act = dict(name=o["name"], expect_fail=o.get("expect_fail"))
        if exp != act:
            bad += 1
            if bad <= 3:
                _report(rep, "Spec.EntrySpec (C11)", text, exp, act)
    rep.coverage.setdefault("spec_oracle", {})["c11"] = dict(cases=len(cases), failing=bad)
    return bad


# ---------------------------------------------------------------------------------------
# C02: generic invocation shows its arguments as written and in order

def c02_generic_oracle(rep, model, rng, n, pinned=()):
    texts = list(pinned)
    for _ in range(n):
        def args(depth):
            out = []
            for _ in range(rng.choice([0, 1, 2, 3, 4])):
                if depth < 2 and rng.random() < 0.3:
                    out.append("(" + " ".join(args(depth + 1)) + ")")
                else:
                    out.append(gen.rand_arg(rng, simple=rng.random() < 0.6))
            return out
        name = rng.choice(["my_cmd", "add_library", "target_link_libraries", "if", "foreach", "x"])
        texts.append(DOC + f"{name}({' '.join(args(0))})\n")
    replies = model.call_many([[22, t] for t in texts])
    bad = 0
    for text, rp in zip(texts, replies):
        c, r = _impl_docs(text)
        rep.count_case(("c02-oracle", text))
        rep.dist("spec-oracle:c02_generic")
        if not rp:
            continue
        exp = dict(name=core.d_str(rp[0][0]).lower(), params=[core.d_str(x) for x in rp[0][1]])
        if r["status"] != "ok" or not r["docs"]:
            act = dict(status=r["status"], exc=r["exc"])
        else:
            o = _obj_view(r["docs"][-1])
            act = dict(name=o["name"], params=o.get("params"))
        if exp != act:
            bad += 1
            if bad <= 3:
                _report(rep, "Spec.EntrySpec.generic_args (C02)", text, exp, act)
    rep.coverage.setdefault("spec_oracle", {})["c02_generic"] = dict(cases=len(texts), failing=bad)
    return bad


def replay(obj):
    """re-run a spec-oracle replay on the implementation; 1 = still failing"""
    text = obj["input_utf8"]
    c, r = _impl_docs(text)
    print(text)
    print("expected by spec :", json.dumps(obj.get("expected_by_spec"), ensure_ascii=False))
    if obj.get("oracle") == "undoc-generic":
        act = dict(status=r["status"], entries=len(r["docs"] or []) if r["status"] == "ok" else None)
        if r["status"] != "ok":
            act["exc"] = r["exc"]
    elif r["status"] != "ok" or not r["docs"]:
        act = dict(status=r["status"], exc=r["exc"])
    else:
        views = [_obj_view(o) for o in r["docs"]]
        if obj.get("entry_name"):
            views = [v for v in views if v["name"] == obj["entry_name"]
                     and v["cls"] in ("FunctionDocumentation", "MacroDocumentation")] or views
        o = views[-1]
        act = {k: o.get(k) for k in (obj.get("expected_by_spec") or {})}
    print("implementation   :", json.dumps(act, ensure_ascii=False, default=str))
    return 0 if act == obj.get("expected_by_spec") else 1


def c02_undocumented_generic_oracle(rep, names):
    """an undocumented command of no special kind yields no entry and no error (C02, C05)"""
    bad = 0
    for name in names:
        text = f"{name}(a b)\n"
        c, r = _impl_docs(text)
        rep.count_case(("c02-undoc", text))
        exp = dict(status="ok", entries=0)
        act = dict(status=r["status"], entries=len(r["docs"] or []) if r["status"] == "ok" else None)
        if r["status"] != "ok":
            act["exc"] = r["exc"]
        if exp != act:
            bad += 1
            _report(rep, "C02/C05: undocumented generic command is skipped silently", text, exp, act,
                    extra=dict(oracle="undoc-generic"))
    rep.coverage.setdefault("spec_oracle", {})["c02_undocumented_generic"] = dict(cases=len(names), failing=bad)
    return bad


# ---------------------------------------------------------------------------------------
# C03: **kwargs iff trigger in the doccomment or cmake_parse_arguments at depth 0 of the body

C03_DECLS = ["", "ct_add_test(NAME t)\n", "ct_add_section(NAME t)\n", "cpp_class(C)\ncpp_member(m C int)\n",
             "cpp_class(C)\ncpp_constructor(CTOR C)\n", "set(x y)\n"]
C03_BODIES = [("", False), ("cmake_parse_arguments(p \"\" \"\" \"\")\n", True),
              ("if(x)\n cmake_parse_arguments(p \"\" \"\" \"\")\nendif()\n", True),
              ("function(inner q)\n cmake_parse_arguments(p \"\" \"\" \"\")\nendfunction()\n", False),
              ("macro(inner q)\nendmacro()\ncmake_parse_arguments(p \"\" \"\" \"\")\n", True)]
C03_AFTERS = ["", "cmake_parse_arguments(p \"\" \"\" \"\")\n",
              "function(later z)\n cmake_parse_arguments(p \"\" \"\" \"\")\nendfunction()\n",
              "set(v 1)\ncmake_parse_arguments(p \"\" \"\" \"\")\n"]


def c03_oracle(rep, pinned_only=False):
    """exhaustive over the small template space: what precedes a definition, what its body holds, what follows"""
    bad = 0
    n = 0
    for kind in ("function", "macro"):
        for docd in (True, False):
            for decl in C03_DECLS:
                for body, kw in C03_BODIES:
                    for after in C03_AFTERS:
                        closer = "" if not decl.startswith("cpp_class") else "cpp_end_class()\n"
                        text = (decl + (DOC if docd else "") + f"{kind}(f a b)\n" + body + f"end{kind}()\n"
                                + after + closer)
                        claimed = decl and not decl.startswith("set") and not docd
                        c, r = _impl_docs(text)
                        n += 1
                        rep.count_case(("c03-oracle", text))
                        if claimed:
                            continue      # the definition implements the declaration: no entry of its own
                        exp = dict(name="f", params=["a", "b"], has_kwargs=kw)
                        act = None
                        if r["status"] == "ok":
                            for o in r["docs"]:
                                v = _obj_view(o)
                                if v["cls"] in ("FunctionDocumentation", "MacroDocumentation") and v["name"] == "f":
                                    act = dict(name=v["name"], params=v["params"], has_kwargs=v["has_kwargs"])
                        else:
                            act = dict(status=r["status"], exc=r["exc"])
                        if act != exp:
                            bad += 1
                            if bad <= 3:
                                _report(rep, "Spec.EntrySpec.def_signature (C03)", text, exp, act,
                                        extra=dict(oracle="c03", entry_name="f"))
    rep.coverage.setdefault("spec_oracle", {})["c03_templates"] = dict(cases=n, failing=bad, exhaustive=True)
    return bad


# ---------------------------------------------------------------------------------------
# C10: set() / option() views

C10_FORMS = ['x', 'a.b', '"quoted"', '""', '"a\\"b"', '"a\\""', '"\\""', '${v}', '"${v} x"', '[[x y]]', '[=[ ]=]',
             '[[]]', 'a;b', '\;', 'a\\"', '\\"', '\\"x', 'a\\"b', '"a b"', 'ON', '[["]]', '[["x"]]', '"\\"q\\""']


def c10_oracle(rep, model, rng, n):
    cases = []
    for f in C10_FORMS:
        cases.append(("set", ["V", f]))
        cases.append(("set", ["V", f, rng.choice(C10_FORMS)]))
        cases.append(("option", ["O", f]))
        cases.append(("option", ["O", '"help"', f]))
    cases.append(("set", ["V"]))
    for _ in range(n):
        k = rng.choice([0, 1, 1, 1, 2, 3])
        cases.append(("set", ["V"] + [rng.choice(C10_FORMS) for _ in range(k)]))
    replies = model.call_many([[23, a] for _, a in cases])
    bad = 0
    for (cmd, args), rp in zip(cases, replies):
        text = DOC + f"{cmd}({' '.join(args)})\n"
        c, r = _impl_docs(text)
        rep.count_case(("c10-oracle", text))
        rep.dist("spec-oracle:c10_" + cmd)
        sv, ov = rp
        if cmd == "set":
            if not sv:
                continue
            name, ty, val = sv[0]
            exp = dict(name=core.d_str(name), type={1: "STRING", 2: "LIST", 3: "UNSET"}[ty],
                       value=core.d_str(val[0]) if val else None)
        else:
            if not ov:
                continue
            name, hlp, dflt = ov[0]
            exp = dict(name=core.d_str(name), help_text=core.d_str(hlp), value=core.d_str(dflt))
        if r["status"] != "ok" or not r["docs"]:
            act = dict(status=r["status"], exc=r["exc"])
        else:
            o = _obj_view(r["docs"][-1])
            act = {k: o.get(k) for k in exp}
            if cmd == "option" and act.get("value") is None:
                act["value"] = "OFF"        # rendered as OFF when omitted
        if exp != act:
            bad += 1
            if bad <= 3:
                _report(rep, "Spec.EntrySpec.set_view / option_view (C10)", text, exp, act)
    rep.coverage.setdefault("spec_oracle", {})["c10"] = dict(cases=len(cases), failing=bad)
    return bad
