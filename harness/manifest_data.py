# data for MANIFEST.json (regenerate with: python3 harness/mk_manifest.py)
SOURCE_COMMITS = []
NOT_YET = {}
COMMON_NOTE = ("Trusted: Coq 8.16.1 kernel; no axioms (Print Assumptions parsed each run); ExtrOcamlBasic extraction + "
               "ocaml/driver.ml; translators and harness; Python/ANTLR/library semantics are modelled and tied by "
               "differential correspondence, not verified.")
CLAIMED = {
 "C20": dict(
   text="Theorems over Model.Writer (all documents, all depths, all histories): serialisation is a pure function of the "
        "document tree, heading frame, exact 3*d indentation per line, options before content, insertion order. The model "
        "is tied to rstwriter.py by running random API histories on the real objects and on the extracted model after "
        "every operation, with a deep snapshot proving to_text leaves the implementation's document unchanged.",
   note=COMMON_NOTE + " SimpleTable is not modelled (not named by the property).",
   technique="Coq proof over hand-written Gallina model + extracted-model correspondence (differential histories)"),
}
