"""Reference generator for cmake-language(7) files, written from the manual and independent of
CMake.g4.  Produces (text, invocations) where invocations = [(name, [leaf argument texts with
'(' / ')' as boundary markers])] is what CMake itself would see (argument boundaries as written).

Grammar covered (cmake-language(7)):
  file            := file_element*
  file_element    := command_invocation line_ending | (bracket_comment | space)* line_ending
  line_ending     := line_comment? newline
  command_invocation := space* identifier space* '(' arguments ')'
  arguments       := argument? separated_arguments*
  separated_arguments := separation+ argument? | separation* '(' arguments ')'
  argument        := bracket_argument | quoted_argument | unquoted_argument
  bracket_argument:= '[' '='{n} '[' content ']' '='{n} ']'
  quoted_argument := '"' (char except \\ and " | escape_sequence | '\\' newline)* '"'
  unquoted_argument := (char except whitespace ( ) # " \\  | escape_sequence)+       (no legacy forms)
  escape_sequence := '\\' non-alphanumeric | '\\t' '\\n' '\\r' | '\\;'
  bracket_comment := '#' bracket_argument ;  line_comment := '#' not followed by a bracket open
"""

IDENT_START = "abcdefghijklmnopqrstuvwxyzABCDEFGHIJKLMNOPQRSTUVWXYZ_"
IDENT_CHARS = IDENT_START + "0123456789"
SPECIAL_NAMES = {"function", "endfunction", "macro", "endmacro", "cpp_class", "cpp_end_class", "cpp_member",
                 "cpp_constructor", "cpp_attr", "ct_add_test", "ct_add_section", "add_test", "option", "set",
                 "cmake_parse_arguments", "generic_command"}
COMMANDS = ["message", "add_library", "target_sources", "include", "find_package", "list", "string", "if", "endif",
            "foreach", "endforeach", "install", "project", "cmake_minimum_required", "set_property", "file",
            "add_executable", "unset", "return", "else", "elseif", "while", "endwhile", "math", "configure_file"]
UNQ_CHARS = list("abcXYZ019_-+=./:,;*{}!%^&|~?'`$@<>[]")
NONASCII = ["é", "ß", "λ", "ж", "中", "🙂", "ñ"]
ESCAPES = ["\\;", "\\ ", "\\(", "\\)", "\\#", "\\\"", "\\\\", "\\n", "\\t", "\\r", "\\$", "\\@", "\\{", "\\}", "\\[",
           "\\]", "\\=", "\\'", "\\.", "\\-", "\\_"[:0] or "\\+"]


def ident(rng, lo=1, hi=10):
    while True:
        n = rng.randint(lo, hi)
        x = rng.choice(IDENT_START) + "".join(rng.choice(IDENT_CHARS) for _ in range(n - 1))
        if x.lower() not in SPECIAL_NAMES:
            return x


def opens_bracket(x):
    if not x.startswith("["):
        return False
    t = x[1:].lstrip("=")
    return t.startswith("[")


def unquoted(rng, ascii_only=False):
    n = rng.randint(1, 8)
    out = []
    for _ in range(n):
        r = rng.random()
        if r < 0.6:
            out.append(rng.choice(UNQ_CHARS))
        elif r < 0.8:
            out.append(rng.choice(ESCAPES))
        elif r < 0.9:
            out.append("${" + ident(rng, 1, 4) + "}")
        elif not ascii_only:
            out.append(rng.choice(NONASCII))
        else:
            out.append("x")
    x = "".join(out)
    if opens_bracket(x):
        x = "x" + x
    return x


def quoted(rng, ascii_only=False):
    n = rng.choice([0, 0, 1, 2, 3, 5, 8])
    out = []
    for _ in range(n):
        r = rng.random()
        if r < 0.45:
            out.append(rng.choice(list("abc XYZ 019 #;[]$@<>(){}=.,:'|&\t")))
        elif r < 0.65:
            out.append(rng.choice(ESCAPES))
        elif r < 0.72:
            out.append("\\\n")            # quoted_continuation
        elif r < 0.8:
            out.append("\n")
        elif r < 0.9:
            out.append("${" + ident(rng, 1, 4) + "}")
        elif not ascii_only:
            out.append(rng.choice(NONASCII))
        else:
            out.append("#[[")
    return '"' + "".join(out) + '"'


def bracket_content(rng, lvl, ascii_only=False):
    close = "]" + "=" * lvl + "]"
    pieces = ["a", " ", "b c", "#", ";", "[", "]", "$", "\"", "(", ")", "\\", "\n", "[[", "#[[", "${v}", "]]",
              "]=]", "]==", "=", "#]]"]
    if not ascii_only:
        pieces += NONASCII
    body = "".join(rng.choice(pieces) for _ in range(rng.choice([0, 1, 2, 3, 5, 8])))
    while close in body + close[:-1] or (body + close).find(close) != len(body):
        body = body[:-1] if body else ""
        if not body:
            break
    return body


def bracket(rng, ascii_only=False):
    lvl = rng.choice([0, 0, 1, 1, 2, 3])
    return "[" + "=" * lvl + "[" + bracket_content(rng, lvl, ascii_only) + "]" + "=" * lvl + "]"


def line_comment_text(rng, ascii_only=False):
    pieces = ["", " plain", " set(x y)", "[ x", "[=x", "[==", " #[[[ x", " #]]", "]]", " \"q", " ( p", " \\", " [[x]]",
              "#", " ${v}"]
    if not ascii_only:
        pieces += [" é中", " 🙂"]
    return rng.choice(pieces)


def bracket_comment(rng, ascii_only=False):
    lvl = rng.choice([0, 0, 1, 2])
    body = bracket_content(rng, lvl, ascii_only)
    if lvl == 0 and body.startswith("["):
        body = " " + body           # '#[[[' would open a CMinx doccomment: excluded by the property's H
    return "#[" + "=" * lvl + "[" + body + "]" + "=" * lvl + "]"


class CMakeGen:
    def __init__(self, rng, ascii_only=False, trivia_p=0.3):
        self.rng = rng
        self.ascii = ascii_only
        self.p = trivia_p

    def space(self):
        return self.rng.choice([" ", " ", "  ", "\t", " \t"])

    def separation(self):
        """separation+ : spaces and line endings (with optional line comments / bracket comments)"""
        rng = self.rng
        out = [self.space() if rng.random() < 0.7 else self.newline()]
        while rng.random() < self.p:
            r = rng.random()
            if r < 0.4:
                out.append(self.space())
            elif r < 0.7:
                out.append(self.newline())
            else:
                out.append(bracket_comment(rng, self.ascii) + self.space())
        return "".join(out)

    def newline(self):
        rng = self.rng
        if rng.random() < self.p:
            return "#" + line_comment_text(rng, self.ascii) + "\n"
        return "\n"

    def argument(self):
        rng = self.rng
        r = rng.random()
        if r < 0.45:
            a = unquoted(rng, self.ascii)
        elif r < 0.8:
            a = quoted(rng, self.ascii)
        else:
            a = bracket(rng, self.ascii)
        return a

    def arguments(self, depth=0):
        """returns (text, leaves)"""
        rng = self.rng
        n = rng.choice([0, 1, 1, 2, 3, 4, 6])
        text = []
        leaves = []
        prev = None          # None | 'arg' | 'close'
        if rng.random() < self.p:
            text.append(self.separation())
        for i in range(n):
            if depth < 3 and rng.random() < 0.12:
                sep = self.separation() if (rng.random() < 0.6 or (prev == "arg" and leaves and leaves[-1].endswith("$"))) else ""
                t, l = self.arguments(depth + 1)
                text.append(sep + "(" + t + ")")
                leaves += ["("] + l + [")"]
                prev = "close"
            else:
                a = self.argument()
                if prev is not None or False:
                    text.append(self.separation())
                elif text and not text[-1]:
                    pass
                text.append(a)
                leaves.append(a)
                prev = "arg"
        if rng.random() < self.p:
            text.append(self.separation())
        return "".join(text), leaves

    def command(self, name=None, args=None):
        rng = self.rng
        name = name or (rng.choice(COMMANDS) if rng.random() < 0.6 else ident(rng))
        if rng.random() < 0.2:
            name = name.upper() if rng.random() < 0.5 else name.capitalize()
        if args is None:
            t, leaves = self.arguments()
        else:
            t = " ".join(args)
            leaves = list(args)
        lead = self.space() if rng.random() < self.p else ""
        mid = self.space() if rng.random() < self.p else ""
        trail = self.space() if rng.random() < self.p else ""
        return lead + name + mid + "(" + t + ")" + trail, (name, leaves)

    def file(self, ncmds):
        rng = self.rng
        out = []
        inv = []
        if rng.random() < self.p:
            out.append(self.newline())
        for _ in range(ncmds):
            r = rng.random()
            if r < 0.1:       # balanced definition block (keeps the aggregator's stacks balanced)
                kind = rng.choice(["function", "macro"])
                t, i = self.command(kind, [ident(rng)] + [ident(rng) for _ in range(rng.randint(0, 3))])
                out.append(t + self.newline())
                inv.append(i)
                t, i = self.command()
                out.append(t + self.newline())
                inv.append(i)
                t, i = self.command("end" + kind, [])
                out.append(t + self.newline())
                inv.append(i)
                continue
            t, i = self.command()
            out.append(t)
            inv.append(i)
            out.append(self.newline())
            while rng.random() < self.p:
                out.append(rng.choice(["", self.space(), bracket_comment(rng, self.ascii) + self.space()])
                           + self.newline())
        text = "".join(out)
        if rng.random() < 0.15 and text.endswith("\n"):
            text = text[:-1]       # no newline at end of file
        return text, inv
