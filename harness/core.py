"""Shared machinery of the CMinx verification harness.

* builds the Coq development (translators -> Gen/*.v -> make -> extraction -> driver)
* runs model/spec functions through the extracted driver (and, for a sample, through
  vm_compute inside coqc)
* audits the proof obligations of one property (theorem list, Print Assumptions, hygiene)
* writes evidence files, replay files and VIOLATION / KNOWN-FINDING lines
"""
import fcntl
import hashlib
import json
import os
import random
import re
import shutil
import subprocess
import sys
import tempfile
import time
from pathlib import Path

VERIF = Path(__file__).resolve().parent.parent
REPO = Path(os.environ.get("CMINX_REPO", "/repo"))
COQ = VERIF / "coq"
OCAML = VERIF / "ocaml"
DRIVER = OCAML / "driver"
REPLAYS = VERIF / "replays"
EVIDENCE = VERIF / "evidence"
CORPUS = VERIF / "corpus"
PY = "/venv/bin/python"

ALLOWED_AXIOMS = set()   # the development is meant to be closed under the global context

TRUSTED_BASE = [
    "Coq 8.16.1 kernel (coqc); vm_compute used for computed witnesses; native_compute not used",
    "axioms: none declared; Print Assumptions of every property theorem is parsed on each run and must say 'Closed under the global context'",
    "extraction: ExtrOcamlBasic only (Extract Inductive bool/option/unit/list/prod/sumbool/sumor), no Extract Constant; N/positive/nat stay extracted inductives; OCaml 4.13.1; ocaml/driver.ml",
    "translators/*.py (regenerate coq/theories/Gen/*.v from /repo on every run) and harness/*.py (generators, adapters to /repo, projections)",
    "modelled, not verified: ANTLR runtime + generated ATN (hand-written matchers tied by token-level differential testing), Python str/list/re/os.path semantics, pathspec, confuse, argparse, docutils, the OS file system, real CMake",
]


# ----------------------------------------------------------------------------
# wire format

def enc(t):
    """nested python lists / ints / bools / str  ->  '(1 2 (3))' text"""
    out = []

    def go(x):
        if isinstance(x, bool):
            out.append("1" if x else "0")
        elif isinstance(x, int):
            out.append(str(x))
        elif isinstance(x, str):
            out.append("(" + " ".join(str(ord(c)) for c in x) + ")")
        elif x is None:
            out.append("()")
        else:
            out.append("(")
            first = True
            for y in x:
                if not first:
                    out.append(" ")
                first = False
                go(y)
            out.append(")")
    go(t)
    return "".join(out)


def dec(line):
    line = line.strip()
    return json.loads(line.replace("(", "[").replace(")", "]").replace(" ", ","))


def d_str(t):
    return "".join(map(chr, t))


def opt(x):
    """python value or None -> option encoding"""
    return [] if x is None else [x]


class Some:
    """marks an option-wrapped value so that enc() keeps strings as strings"""


# ----------------------------------------------------------------------------
# build

class BuildError(Exception):
    def __init__(self, stage, log):
        super().__init__(f"{stage} failed")
        self.stage = stage
        self.log = log


def run(cmd, cwd=None, timeout=1800, env=None, input=None):
    p = subprocess.run(cmd, cwd=cwd, stdout=subprocess.PIPE, stderr=subprocess.STDOUT,
                       timeout=timeout, env=env, input=input, text=True)
    return p.returncode, p.stdout


_build_state = {}


TRANSLATOR_OUTPUTS = {"config2coq.py": "ConfigData.v", "cmake2coq.py": "CMinxCMake.v",
                      "literals2coq.py": "SourceLiterals.v", "py2coq.py": "PySource.v",
                      "grammar2coq.py": "GrammarSource.v", "pywriter2coq.py": "PyWriterSource.v",
                      "pywalk2coq.py": "PyWalkSource.v", "pymain2coq.py": "PyMainSource.v"}


def translators():
    """Regenerate coq/theories/Gen/*.v from /repo's working tree. Returns
    {name: error text} for translators that failed (fail-closed)."""
    failures = {}
    tdir = VERIF / "translators"
    gen = COQ / "theories" / "Gen"
    gen.mkdir(parents=True, exist_ok=True)
    outputs = TRANSLATOR_OUTPUTS
    tmp = Path(tempfile.mkdtemp(prefix="cminx_gen_"))
    try:
        for script in sorted(tdir.glob("*2coq.py")):
            rc, out = run([PY, "-B", str(script), str(REPO), str(tmp)], timeout=120)
            name = outputs.get(script.name, "")
            if rc != 0:
                failures[script.name] = out[-2000:]
                # the source no longer has a shape the translator understands: the obligation is
                # broken (reported by the property's check).  So that the search for a concrete failing
                # input can still run, the model falls back to the last translation of the pinned
                # source, kept under translators/baseline/.
                src = tdir / "baseline" / name
            else:
                src = tmp / name
            # only touch Gen/<file> when its content changes, so that make does not rebuild the
            # dependants on every run
            if src.is_file():
                dst = gen / name
                if not dst.exists() or dst.read_bytes() != src.read_bytes():
                    shutil.copy(src, dst)
    finally:
        shutil.rmtree(tmp, ignore_errors=True)
    return failures


def coq_files():
    files = []
    for line in (COQ / "_CoqProject").read_text().splitlines():
        line = line.strip()
        if line.endswith(".v"):
            files.append(line)
    return files


def build(need_props=()):
    """Idempotent, locked build. Returns dict(ok_model, failed_files, translator_failures, log)."""
    if _build_state.get("done"):
        return _build_state["res"]
    lock = open(VERIF / ".build.lock", "w")
    fcntl.flock(lock, fcntl.LOCK_EX)
    try:
        t0 = time.time()
        tf = translators()
        if not (COQ / "Makefile").exists() or \
                (COQ / "Makefile").stat().st_mtime < (COQ / "_CoqProject").stat().st_mtime:
            rc, out = run(["coq_makefile", "-f", "_CoqProject", "-o", "Makefile"], cwd=COQ)
            if rc != 0:
                raise BuildError("coq_makefile", out)
        rc, out = run(["timeout", "1500", "make", "-k", "-j16"], cwd=COQ)
        failed = sorted(set(re.findall(r"\[Makefile[^\]]*: (theories/\S+)\.vo\] Error", out)))
        main_vo = COQ / "theories" / "Extract" / "Main.vo"
        ok_model = main_vo.exists() and not any(
            f.startswith(("theories/Base", "theories/Model", "theories/Extract", "theories/Gen",
                          "theories/Spec"))
            for f in failed)
        if ok_model:
            stamp = OCAML / ".stamp"
            newest = max(p.stat().st_mtime for p in (COQ / "theories").rglob("*.vo")
                         if "/Proofs/" not in str(p) and "/Properties/" not in str(p))
            newest = max(newest, (OCAML / "driver.ml").stat().st_mtime,
                         (OCAML / "Extraction.v").stat().st_mtime)
            if not DRIVER.exists() or not stamp.exists() or stamp.stat().st_mtime < newest:
                rc2, out2 = run(["coqc", "-Q", "../coq/theories", "CMinx", "Extraction.v"], cwd=OCAML)
                if rc2 != 0:
                    raise BuildError("extraction", out2)
                rc2, out2 = run(["ocamlfind", "ocamlopt", "-w", "-a", "model.mli", "model.ml",
                                 "driver.ml", "-o", "driver"], cwd=OCAML)
                if rc2 != 0:
                    raise BuildError("ocamlopt", out2)
                stamp.write_text(str(time.time()))
        res = dict(ok_model=ok_model, failed_files=failed, translator_failures=tf,
                   log=out[-6000:], wall_s=time.time() - t0, make_rc=rc)
        _build_state["done"] = True
        _build_state["res"] = res
        return res
    finally:
        fcntl.flock(lock, fcntl.LOCK_UN)
        lock.close()


HYGIENE_RE = re.compile(
    r"\b(Admitted|admit|Axiom|Axioms|Parameter|Parameters|Conjecture|Conjectures|Hypothesis|Hypotheses|Variable|Variables|Admit Obligations|bypass_check|Unset Guard Checking|Unset Positivity Checking|Unset Universe Checking|type-in-type|impredicative-set|native_compute)\b")


def strip_coq_comments(text):
    out = []
    depth = 0
    i = 0
    n = len(text)
    in_str = False
    while i < n:
        c = text[i]
        if depth == 0 and c == '"':
            in_str = not in_str
            out.append(c)
            i += 1
        elif not in_str and text.startswith("(*", i):
            depth += 1
            i += 2
        elif not in_str and depth > 0 and text.startswith("*)", i):
            depth -= 1
            i += 2
        else:
            if depth == 0:
                out.append(c)
            i += 1
    return "".join(out)


def hygiene():
    """Scan the whole development for forbidden declarations.  Variable(s)/Hypothesis are
    allowed only inside a Section (checked by tracking Section/End)."""
    problems = []
    files = list((COQ / "theories").rglob("*.v")) + [COQ / "_CoqProject", OCAML / "Extraction.v"]
    for f in files:
        text = f.read_text()
        if f.suffix == ".v":
            text = strip_coq_comments(text)
        depth = 0
        for ln, line in enumerate(text.splitlines(), 1):
            if re.match(r"\s*Section\b", line):
                depth += 1
            elif re.match(r"\s*End\b", line) and depth > 0:
                depth -= 1
            for m in HYGIENE_RE.finditer(line):
                w = m.group(1)
                if w in ("Variable", "Variables", "Hypothesis", "Hypotheses") and depth > 0:
                    continue
                problems.append(f"{f.relative_to(VERIF)}:{ln}: {w}")
    return problems


def audit_property(pid):
    """Compile Properties/<pid>.v afresh, list its theorems and their assumptions."""
    vfile = COQ / "theories" / "Properties" / f"{pid}.v"
    res = dict(theorems=[], assumptions={}, ok=False, log="", checker_cmd="")
    if not vfile.exists():
        res["log"] = "no property file"
        return res
    text = strip_coq_comments(vfile.read_text())
    thms = re.findall(r"^\s*(?:Theorem|Lemma|Corollary|Example)\s+([A-Za-z0-9_']+)", text, re.M)
    res["theorems"] = thms
    cmd = ["timeout", "900", "coqc", "-Q", "theories", "CMinx", str(vfile.relative_to(COQ))]
    res["checker_cmd"] = "cd /verif/coq && make -k -j16 && " + " ".join(cmd)
    rc, out = run(cmd, cwd=COQ, timeout=1000)
    res["log"] = out[-4000:]
    if rc != 0:
        return res
    # Print Assumptions output: either "Closed under the global context" or "Axioms:\n name : type ..."
    blocks = re.split(r"(?=Closed under the global context|Axioms:)", out)
    verdicts = [b for b in blocks if b.startswith(("Closed under", "Axioms:"))]
    printed = re.findall(r"^\s*Print Assumptions\s+([A-Za-z0-9_']+)", text, re.M)
    for name, v in zip(printed, verdicts):
        if v.startswith("Closed under"):
            res["assumptions"][name] = []
        else:
            res["assumptions"][name] = [l.strip() for l in v.splitlines()[1:] if l.strip()]
    res["ok"] = (len(printed) == len(verdicts)) and set(printed) >= set(
        t for t in thms)
    return res


# ----------------------------------------------------------------------------
# running the model

class Model:
    """Batch interface to the extracted driver."""

    def __init__(self):
        self.calls = 0

    def call_many(self, reqs, timeout=1200):
        if not reqs:
            return []
        data = "\n".join(enc(r) for r in reqs) + "\n"
        p = subprocess.run(["bash", "-c", f"ulimit -s unlimited 2>/dev/null; exec {DRIVER}"],
                           input=data, stdout=subprocess.PIPE, stderr=subprocess.PIPE,
                           text=True, timeout=timeout)
        lines = p.stdout.splitlines()
        if p.returncode != 0 or len(lines) != len(reqs):
            raise RuntimeError(f"driver failed rc={p.returncode} got {len(lines)}/{len(reqs)} "
                               f"replies: {p.stderr[-500:]}")
        self.calls += len(reqs)
        return [dec(l) for l in lines]

    def call(self, req):
        return self.call_many([req])[0]


def coq_tree(t):
    if isinstance(t, bool):
        return f"I {int(t)}"
    if isinstance(t, int):
        return f"I {t}"
    if isinstance(t, str):
        return "L [" + "; ".join(f"I {ord(c)}" for c in t) + "]"
    if t is None:
        return "L []"
    return "L [" + "; ".join(coq_tree(x) for x in t) + "]"


def vm_crosscheck(pairs, max_nodes=120000):
    """Re-evaluate (request, reply) pairs with vm_compute inside coqc; returns
    (checked, mismatching indices).  Guards the extraction + driver."""
    chosen = []
    budget = max_nodes
    for req, rep in pairs:
        size = len(enc(req)) + len(enc(rep))
        if size < budget:
            chosen.append((req, rep))
            budget -= size
    if not chosen:
        return 0, []
    lines = ["From Coq Require Import List NArith Bool.",
             "From CMinx Require Import Extract.Tree Extract.Main.",
             "Import ListNotations.", "Local Open Scope N_scope.",
             "Definition cases : list (tree * tree) := ["]
    lines.append(";\n".join(f"({coq_tree(a)}, {coq_tree(b)})" for a, b in chosen))
    lines.append("].")
    lines.append("Eval vm_compute in (map (fun p => tree_eqb (dispatch (fst p)) (snd p)) cases).")
    d = tempfile.mkdtemp(prefix="cminx_vm_")
    try:
        (Path(d) / "cases.v").write_text("\n".join(lines))
        rc, out = run(["bash", "-c",
                       f"ulimit -s unlimited 2>/dev/null; timeout 600 coqc -Q {COQ}/theories CMinx cases.v"],
                      cwd=d, timeout=700)
        if rc != 0:
            return 0, [("coqc failed", out[-800:])]
        vals = re.findall(r"\b(true|false)\b", out.split("= ", 1)[1] if "= " in out else "")
        bad = [i for i, v in enumerate(vals) if v != "true"]
        if len(vals) != len(chosen):
            bad.append(("count", len(vals), len(chosen)))
        return len(chosen), bad
    finally:
        shutil.rmtree(d, ignore_errors=True)


# ----------------------------------------------------------------------------
# reporting

def load_known():
    p = VERIF / "known_findings.json"
    if not p.exists():
        return []
    return json.loads(p.read_text())


class Report:
    def __init__(self, pid, tier, seed, level="proof"):
        self.pid = pid
        self.tier = tier
        self.seed = seed
        self.level = level
        self.t0 = time.time()
        self.violations = []
        self.known_lines = []
        self.coverage = dict(evaluations=0, distinct_nontrivial=0, rule="", samples=[],
                             obligations=0, discharged=0, checker_cmd="", trusted_base=TRUSTED_BASE,
                             input_distribution={}, correspondence={}, notes=[])
        self.assumptions = []
        self._hashes = set()
        self.corr_broken = []     # (name, first disagreeing case)

    def clean_old_replays(self):
        if REPLAYS.exists():
            for old in REPLAYS.glob(f"{self.pid}_*.json"):
                try:
                    old.unlink()
                except OSError:
                    pass

    # -- counting
    def count_case(self, case_repr, nontrivial=True):
        self.coverage["evaluations"] += 1
        if nontrivial:
            h = hashlib.sha1(repr(case_repr).encode("utf-8", "surrogatepass")).digest()
            if h not in self._hashes:
                self._hashes.add(h)
                self.coverage["distinct_nontrivial"] = len(self._hashes)

    def dist(self, key, val=1):
        d = self.coverage["input_distribution"]
        d[key] = d.get(key, 0) + val

    def sample(self, x, limit=6):
        if len(self.coverage["samples"]) < limit:
            self.coverage["samples"].append(x)

    # -- violations
    def violation(self, replay_obj, no_input=False, tag="v"):
        REPLAYS.mkdir(exist_ok=True)
        idx = len(self.violations)
        path = REPLAYS / f"{self.pid}_{tag}_{self.seed}_{idx}.json"
        replay_obj = dict(replay_obj)
        replay_obj.setdefault("property", self.pid)
        replay_obj.setdefault("seed", self.seed)
        replay_obj.setdefault("replay_cmd", f"./check {self.pid} --replay {path}")
        path.write_text(json.dumps(replay_obj, indent=1, ensure_ascii=False, default=str))
        self.violations.append((str(path), no_input))

    def known(self, what):
        self.known_lines.append(f"KNOWN-FINDING: property={self.pid} {what}")

    def finish(self):
        ev = dict(property_id=self.pid, tier=self.tier, seed=self.seed, level=self.level,
                  coverage=self.coverage, assumptions=self.assumptions,
                  wall_s=round(time.time() - self.t0, 2), violations=len(self.violations))
        EVIDENCE.mkdir(exist_ok=True)
        (EVIDENCE / f"{self.pid}.json").write_text(
            json.dumps(ev, indent=1, ensure_ascii=False, default=str))
        for l in self.known_lines:
            print(l)
        for path, no_input in self.violations[:20]:
            print(f"VIOLATION property={self.pid} replay={path}" +
                  (" no-failing-input-found" if no_input else ""))
        sys.stdout.flush()
        return 1 if self.violations else 0


_REQ_RE = re.compile(r"(?:From\s+CMinx\s+)?Require\s+(?:Import|Export)?\s*([^.]*?)\.\s", re.S)


def property_deps(pid):
    """theory files (as 'theories/X/Y', no extension) that Properties/<pid>.v transitively requires"""
    root = COQ / "theories"
    seen = set()
    todo = [root / "Properties" / f"{pid}.v"]
    while todo:
        f = todo.pop()
        if not f.exists():
            continue
        key = "theories/" + str(f.relative_to(root))[:-2]
        if key in seen:
            continue
        seen.add(key)
        text = strip_coq_comments(f.read_text())
        for m in re.finditer(r"From\s+CMinx\s+Require\s+(?:Import|Export)\s+(.*?)\.(?=\s|$)", text, re.S):
            for mod in m.group(1).split():
                mod = mod.replace("CMinx.", "")
                cand = root / (mod.replace(".", "/") + ".v")
                if cand.exists():
                    todo.append(cand)
    return seen


def proof_stage(rep, pid, build_res, extra_files=()):
    """Fill the proof-obligation part of the evidence; returns list of broken obligations."""
    broken = []
    aud = audit_property(pid)
    hyg = hygiene()
    thms = aud["theorems"]
    n_obl = len(thms) + 2      # + axiom audit + hygiene
    discharged = 0
    if aud["ok"]:
        discharged += len(thms)
    else:
        broken.append(dict(kind="theorem-file", file=f"Properties/{pid}.v", log=aud["log"][-1500:]))
    bad_ax = {k: v for k, v in aud["assumptions"].items()
              if any(a.split(":")[0].strip() not in ALLOWED_AXIOMS for a in v)}
    if aud["ok"] and not bad_ax:
        discharged += 1
    elif bad_ax:
        broken.append(dict(kind="axioms", detail=bad_ax))
    if not hyg:
        discharged += 1
    else:
        broken.append(dict(kind="hygiene", detail=hyg[:20]))
    deps = property_deps(pid)
    for f in build_res["failed_files"]:
        # a file that fails to build breaks this property's obligations only if the property's
        # theorem file (transitively) requires it
        if f in deps or not f.startswith("theories/Proofs/") and not f.startswith("theories/Properties/"):
            broken.append(dict(kind="build", file=f))
    for k, v in build_res["translator_failures"].items():
        gen = "theories/Gen/" + TRANSLATOR_OUTPUTS.get(k, "?")[:-2]
        if gen in deps or k not in TRANSLATOR_OUTPUTS:
            broken.append(dict(kind="translator", file=k, log=v[-800:]))
    if rep.tier == "thorough" and aud["ok"]:
        # independent re-check of the compiled property file and everything it depends on
        n_obl += 1
        rc, out = run(["timeout", "1500", "coqchk", "-silent", "-o", "-Q", "theories", "CMinx",
                       f"CMinx.Properties.{pid}"], cwd=COQ, timeout=1600)
        m = re.search(r"\* Axioms:(.*?)\n\s*\n\* ", out, re.S)
        axtext = m.group(1).strip() if m else "?"
        axioms = [] if axtext == "<none>" else [a.strip() for a in axtext.splitlines() if a.strip()]
        rep.coverage["coqchk"] = dict(rc=rc, axioms=axioms, tail=out[-600:])
        if rc == 0 and m and all(a.split(":")[0].strip() in ALLOWED_AXIOMS for a in axioms):
            discharged += 1
        else:
            broken.append(dict(kind="coqchk", log=out[-800:]))
    rep.coverage["obligations"] = n_obl
    rep.coverage["discharged"] = discharged
    rep.coverage["checker_cmd"] = aud["checker_cmd"]
    rep.coverage["theorems"] = thms
    rep.coverage["print_assumptions"] = {k: (v or "Closed under the global context")
                                         for k, v in aud["assumptions"].items()}
    rep.coverage["build_failed_files"] = build_res["failed_files"]
    return broken


def rng_for(seed, *names):
    h = hashlib.sha256(("/".join(map(str, (seed,) + names))).encode()).digest()
    return random.Random(int.from_bytes(h[:8], "big"))


def scratch_dir(prefix="cminx_chk_"):
    base = os.environ.get("CMINX_SCRATCH", tempfile.gettempdir())
    return tempfile.mkdtemp(prefix=prefix, dir=base)
