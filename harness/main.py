"""./check <property> [--tier quick|thorough] [--replay FILE]"""
import argparse
import importlib
import json
import os
import sys
import tempfile
import traceback

import core


def main():
    ap = argparse.ArgumentParser()
    ap.add_argument("pid")
    ap.add_argument("--tier", default=os.environ.get("VERIF_TIER", "quick"),
                    choices=["quick", "thorough"])
    ap.add_argument("--replay")
    ap.add_argument("--seed", type=int, default=int(os.environ.get("VERIF_SEED", "20260926")))
    args = ap.parse_args()
    pid = args.pid.upper()

    # a private, empty per-user configuration directory for confuse
    cfgdir = tempfile.mkdtemp(prefix="cminx_cfg_")
    os.environ["CMINXDIR"] = cfgdir
    os.environ.setdefault("HOME", cfgdir)

    rep = core.Report(pid, args.tier, args.seed)
    rc = 2
    try:
        try:
            bres = core.build()
        except core.BuildError as e:
            rep.violation(dict(kind="build-error", stage=e.stage, log=e.log[-3000:],
                               note="the verification build itself failed"), no_input=True)
            return rep.finish()
        mod = importlib.import_module(f"props.{pid.lower()}")
        try:
            md = {}
            exec(open(core.VERIF / "harness" / "manifest_data.py").read(), md)
            rep.assumptions = list(md.get("ASSUMPTIONS", {}).get(pid, []))
        except Exception:
            pass
        if args.replay:
            return mod.replay(json.load(open(args.replay)))
        rep.clean_old_replays()
        broken = core.proof_stage(rep, pid, bres)
        relevant = [b for b in broken if mod.relevant_obligation(b)] \
            if hasattr(mod, "relevant_obligation") else broken
        if not bres["ok_model"]:
            rep.violation(dict(kind="model-build", failed=bres["failed_files"],
                               translators=bres["translator_failures"], log=bres["log"][-3000:],
                               note="model no longer builds from the current source"),
                          no_input=True)
            return rep.finish()
        model = core.Model()
        mod.run(rep, model, args.tier, args.seed, broken=relevant)
        if relevant and not rep.violations:
            rep.violation(dict(kind="proof-obligation-broken", obligations=relevant,
                               note="a theorem / translated obligation of this property no "
                                    "longer checks; the search found no concrete failing input"),
                          no_input=True)
        rc = rep.finish()
    except Exception:
        traceback.print_exc()
        rep.coverage["notes"].append("harness crashed: " + traceback.format_exc()[-1500:])
        rep.violation(dict(kind="harness-crash", trace=traceback.format_exc()[-3000:]), no_input=True)
        rc = rep.finish()
    finally:
        import shutil
        shutil.rmtree(cfgdir, ignore_errors=True)
        try:
            import impl
            impl.cleanup()
        except Exception:
            pass
    return rc


if __name__ == "__main__":
    sys.exit(main())
