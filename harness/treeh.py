"""Directory-level harness: generated file trees, harness-controlled directory listing order,
cminx.main() in process on scratch trees, Model.Walk.document through the extracted driver."""
import contextlib
import hashlib
import io
import os
import shutil
import sys

import core
import gen
import impl
import pipe

import pathspec
import yaml

import cminx

# ---------------------------------------------------------------------------
# tree generation
#   node = dict(name=..., kind='f', content=bytes) | dict(name=..., kind='d', children=[...])
#   the order of children IS the directory listing order

DIR_NAMES = ["sub", "sub2", "a", "b", "lib", "cmake", "my-dir", "v1.2", "deep", "empty", "docs", "x_y", "src", "Zed"]
CMAKE_STEMS = ["top", "a", "b", "util", "my.file.v2", "with-dash", "Upper", "z_last", "a1", "a2", "s1", "x",
               "util-extra", "a.b", "x+y", "top-level"]   # stem order differs from file-name order for these
OTHER_FILES = ["README.md", "notes.txt", "CMakeLists.txt", "data.json", "cmake", "x.cmake.in", "Makefile", ".hidden"]


def simple_module(rng, name_hint="f"):
    """a small valid CMake module (ASCII), sometimes with an @module doccomment"""
    parts = []
    r = rng.random()
    if r < 0.15:
        parts.append("#[[[ @module " + rng.choice(["", "named.mod", "pkg::m"]) + "\n# Module text.\n#]]\n")
    for i in range(rng.choice([0, 1, 1, 2, 3])):
        k = rng.random()
        nm = f"{name_hint}_{i}"
        if k < 0.4:
            parts.append(f"#[[[\n# Doc of {nm}.\n#\n# :param a: x\n#]]\nfunction({nm} a b)\nendfunction()\n")
        elif k < 0.6:
            parts.append(f"macro({nm} x)\n  set(y 1)\nendmacro()\n")
        elif k < 0.8:
            parts.append(f"#[[[\n# Var {nm}\n#]]\nset({nm.upper()} \"v\")\n")
        else:
            parts.append(f"option({nm.upper()} \"help\" ON)\n")
    return "".join(parts).encode()


def gen_tree(rng, depth=0, max_depth=3, want_cmake=True, ext_variants=True):
    children = []
    nfiles = rng.choice([0, 1, 2, 3, 4]) if depth else rng.choice([1, 2, 3, 4])
    stems = rng.sample(CMAKE_STEMS, min(nfiles, len(CMAKE_STEMS)))
    have_lower = False
    for st in stems:
        ext = ".cmake"
        if ext_variants and rng.random() < 0.15:
            ext = rng.choice([".CMAKE", ".CMake", ".cMaKe"])
        else:
            have_lower = True
        children.append(dict(name=st + ext, kind="f", content=simple_module(rng, st.replace(".", "_").replace("-", "_"))))
    if want_cmake and depth == 0 and not have_lower:
        children.append(dict(name="first.cmake", kind="f", content=simple_module(rng, "first")))
    for nm in rng.sample(OTHER_FILES, rng.choice([0, 0, 1, 2])):
        if nm == "cmake" or nm == ".hidden":
            if rng.random() < 0.5:
                continue
        children.append(dict(name=nm, kind="f", content=b"not cmake\n"))
    if depth < max_depth:
        for nm in rng.sample(DIR_NAMES, rng.choice([0, 1, 2, 3] if depth else [1, 2, 3])):
            if any(c["name"] == nm for c in children):
                continue
            r = rng.random()
            if r < 0.12:
                children.append(dict(name=nm, kind="d", children=[]))                      # empty directory
            elif r < 0.22:
                children.append(dict(name=nm, kind="d", children=[dict(name="notes.txt", kind="f", content=b"x\n")]))
            elif r < 0.32:
                # no cmake files here, but cmake files below
                sub = gen_tree(rng, depth + 1, max_depth, False, ext_variants)
                children.append(dict(name=nm, kind="d",
                                     children=[dict(name="deeper", kind="d", children=sub)]))
            else:
                children.append(dict(name=nm, kind="d", children=gen_tree(rng, depth + 1, max_depth, False, ext_variants)))
    rng.shuffle(children)     # listing order is arbitrary
    return children


def walk_tree(children, rel=()):
    for c in children:
        yield rel + (c["name"],), c
        if c["kind"] == "d":
            yield from walk_tree(c["children"], rel + (c["name"],))


def materialize(children, base, ext_root=None):
    """a directory node flagged link=True becomes a symbolic link to a directory with that content
    created under ext_root (outside the input tree)"""
    os.makedirs(base, exist_ok=True)
    for c in children:
        p = os.path.join(base, c["name"])
        if c["kind"] == "f":
            with open(p, "wb") as f:
                f.write(c["content"])
        elif c.get("link") and ext_root is not None:
            os.makedirs(ext_root, exist_ok=True)
            target = os.path.join(ext_root, "target_%d_%s" % (len(os.listdir(ext_root)), c["name"]))
            materialize(c["children"], target, ext_root)
            os.symlink(target, p, target_is_directory=True)
        else:
            materialize(c["children"], p, ext_root)


def permute(children, rng):
    out = []
    for c in children:
        if c["kind"] == "d":
            c = dict(c, children=permute(c["children"], rng))
        out.append(c)
    rng.shuffle(out)
    return out


# ---------------------------------------------------------------------------
# controlled directory listing order

class _ScandirList:
    def __init__(self, entries):
        self.entries = list(entries)
        self.i = 0

    def __iter__(self):
        return self

    def __next__(self):
        if self.i >= len(self.entries):
            raise StopIteration
        e = self.entries[self.i]
        self.i += 1
        return e

    def __enter__(self):
        return self

    def __exit__(self, *a):
        return False

    def close(self):
        pass


@contextlib.contextmanager
def listing_order(base, children):
    """make os.scandir (hence os.walk) list the directories of the materialised tree in the
    order of the tree's children lists"""
    order = {}

    def rec(ch, path):
        order[os.path.normpath(path)] = {c["name"]: i for i, c in enumerate(ch)}
        for c in ch:
            if c["kind"] == "d":
                rec(c["children"], os.path.join(path, c["name"]))
    rec(children, base)
    real = os.scandir

    def patched(path="."):
        key = os.path.normpath(os.path.abspath(os.fspath(path)))
        with real(path) as it:
            entries = list(it)
        if key in order:
            o = order[key]
            entries.sort(key=lambda e: (o.get(e.name, len(o)), e.name))
        return _ScandirList(entries)
    os.scandir = patched
    try:
        yield
    finally:
        os.scandir = real


# ---------------------------------------------------------------------------
# one invocation

DEFAULT_RUN = dict(recursive=False, prefix_cli=None, prefix_cfg=None, patterns_cli=[], patterns_cfg=[],
                   auto_exclude=True, sep=".", ext_titles=False, ext_modules=False, headers=None,
                   out="abs", spelling="abs", cwd="parent", flags={})


def snapshot(root):
    snap = {}
    for d, dirs, files in os.walk(root):
        rel = os.path.relpath(d, root)
        snap[("d", rel)] = None
        for f in files:
            p = os.path.join(d, f)
            try:
                with open(p, "rb") as fh:
                    snap[("f", os.path.normpath(os.path.join(rel, f)))] = hashlib.sha256(fh.read()).hexdigest()
            except OSError:
                snap[("f", os.path.normpath(os.path.join(rel, f)))] = "unreadable"
    return snap


class TreeRun:
    """lays a case out under a fresh sandbox root:
         <root>/work/            decoys + working directories
         <root>/work/in[/...]    the input tree (or a single file)
         <root>/outdir           output (location depends on case['out'])"""

    def __init__(self, case, root=None):
        self.case = dict(DEFAULT_RUN, **case)
        self.root = root or core.scratch_dir("cminx_tree_")
        self.own_root = root is None

    def cleanup(self):
        if self.own_root:
            shutil.rmtree(self.root, ignore_errors=True)

    def layout(self):
        c = self.case
        root = self.root
        loc = c.get("location", "work")
        self.work = os.path.join(root, loc)
        os.makedirs(self.work, exist_ok=True)
        self.input_name = c.get("input_name", "in")
        self.input_abs = os.path.join(self.work, self.input_name)
        if c.get("single_file") is not None:
            with open(self.input_abs, "wb") as f:
                f.write(c["single_file"])
            self.kind = "file"
        elif c.get("missing"):
            self.kind = "missing"
        else:
            materialize(c["tree"], self.input_abs, os.path.join(root, "ext_targets"))
            self.kind = "dir"
        # decoys
        os.makedirs(os.path.join(root, "decoys"), exist_ok=True)
        with open(os.path.join(root, "decoys", "keep.txt"), "w") as f:
            f.write("decoy\n")
        with open(os.path.join(self.work, "decoy.rst"), "w") as f:
            f.write("decoy in work\n")
        # working directory
        cwdmode = c["cwd"]
        if cwdmode == "parent":
            self.cwd = self.work
        elif cwdmode == "inside" and self.kind == "dir":
            self.cwd = self.input_abs
        elif cwdmode == "elsewhere":
            self.cwd = os.path.join(root, "decoys")
        else:
            self.cwd = self.work
        # output directory
        om = c["out"]
        self.out_abs = None
        self.out_arg = None
        if om == "abs":
            self.out_abs = os.path.join(root, "outdir")
            self.out_arg = self.out_abs
        elif om == "rel":
            self.out_abs = os.path.join(self.cwd, "relout", "x")
            self.out_arg = os.path.join("relout", "x")
        elif om == "prepopulated":
            self.out_abs = os.path.join(root, "outdir")
            os.makedirs(os.path.join(self.out_abs, "old"), exist_ok=True)
            with open(os.path.join(self.out_abs, "old", "stale.rst"), "w") as f:
                f.write("stale\n")
            with open(os.path.join(self.out_abs, "unrelated.txt"), "w") as f:
                f.write("unrelated\n")
            self.out_arg = self.out_abs
        elif om == "nested" and self.kind == "dir":
            self.out_abs = os.path.join(self.input_abs, "_build", "docs")
            os.makedirs(self.out_abs, exist_ok=True)
            self.out_arg = self.out_abs
        elif om == "parent_of_input":
            self.out_abs = self.work
            self.out_arg = self.out_abs
        elif om is None or om == "none":
            pass
        else:
            self.out_abs = os.path.join(root, "outdir")
            self.out_arg = self.out_abs
        # input spelling
        sp = c["spelling"]
        if sp == "abs":
            self.input_arg = self.input_abs
        elif sp == "rel":
            self.input_arg = os.path.relpath(self.input_abs, self.cwd)
        elif sp == "dotslash":
            self.input_arg = os.path.join(".", os.path.relpath(self.input_abs, self.cwd))
        elif sp == "trailing" and self.kind == "dir":
            self.input_arg = self.input_abs + "/"
        elif sp == "dot" and self.kind == "dir":
            self.cwd = self.input_abs
            self.input_arg = "."
            if om == "rel":
                self.out_abs = os.path.join(self.cwd, "relout", "x")
        else:
            self.input_arg = self.input_abs
        # settings file
        cfg = {"input": {}, "rst": {}}
        if not c["auto_exclude"]:
            cfg["input"]["auto_exclude_directories_without_cmake"] = False
        if c.get("follow"):
            cfg["input"]["follow_symlinks"] = True
        for k in ("function_parameter_name_strip_regex", "macro_parameter_name_strip_regex",
                  "member_parameter_name_strip_regex", "kwargs_doc_trigger_string"):
            if c.get(k) is not None:          # implementation-only stages (the model request ignores them)
                cfg["input"][k] = c[k]
        if c["patterns_cfg"]:
            cfg["input"]["exclude_filters"] = list(c["patterns_cfg"])
        for k, v in c["flags"].items():
            cfg["input"][f"include_undocumented_{k}"] = bool(v)
        if c["sep"] != ".":
            cfg["rst"]["module_path_separator"] = c["sep"]
        if c["ext_titles"]:
            cfg["rst"]["file_extensions_in_titles"] = True
        if c["ext_modules"]:
            cfg["rst"]["file_extensions_in_modules"] = True
        if c["headers"] is not None:
            cfg["rst"]["headers"] = list(c["headers"])
        if c["prefix_cfg"] is not None:
            cfg["rst"]["prefix"] = c["prefix_cfg"]
        self.cfg_path = os.path.join(root, "decoys", "settings.yaml")
        with open(self.cfg_path, "w") as f:
            yaml.safe_dump(cfg, f)
        argv = [self.input_arg, "-s", self.cfg_path]
        if self.out_arg is not None:
            argv += ["-o", self.out_arg]
        if c["recursive"]:
            argv.append("-r")
        if c["prefix_cli"] is not None:
            argv += ["-p", c["prefix_cli"]]
        for p in c["patterns_cli"]:
            argv += ["-e", p]
        self.argv = argv

    # -- expected pattern matches, computed independently with the same library
    def patterns(self):
        return list(self.case["patterns_cli"]) + list(self.case["patterns_cfg"])

    def excl_table(self):
        spec = pathspec.PathSpec.from_lines(pathspec.patterns.GitWildMatchPattern, self.patterns())
        tbl = []
        if self.kind == "dir":
            if spec.match_file(self.input_abs + "/"):
                tbl.append([[], True])
            for rel, n in walk_tree(self.model_tree()):
                p = os.path.join(self.input_abs, *rel)
                if n["kind"] == "d":
                    # an output directory inside the input tree is pruned from the walk like an
                    # excluded directory (repair of F29)
                    if spec.match_file(p + "/") or (self.out_abs is not None and p == self.out_abs) \
                            or (n.get("link") and not self.case.get("follow")):
                        # ... and so is a symbolic link to a directory that is not followed (repair of F30)
                        tbl.append([list(rel), True])
                else:
                    if spec.match_file(p):
                        tbl.append([list(rel), False])
        else:
            if spec.match_file(self.input_abs):
                tbl.append([[], False])
        return tbl

    def nested_out_children(self):
        """the pre-created nested output directory is part of the tree the walk sees"""
        return [dict(name="_build", kind="d", children=[dict(name="docs", kind="d", children=[])])]

    def model_tree(self):
        ch = list(self.case["tree"])
        if self.case["out"] == "nested":
            ch = ch + self.nested_out_children()
        return ch

    def model_request(self):
        c = self.case
        prefix = c["prefix_cli"] if c["prefix_cli"] is not None else c["prefix_cfg"]
        ws = [self.out_abs is not None, bool(c["recursive"]), core.opt(prefix), bool(c["auto_exclude"]), c["sep"],
              bool(c["ext_titles"]), bool(c["ext_modules"])]
        ps = [[bool(c["flags"].get(n, True)) for n in impl.FLAG_NAMES], ":keyword", [], [], [],
              list(c["headers"] if c["headers"] is not None else impl.DEFAULT_HEADERS)]

        def enc_node(n):
            if n["kind"] == "f":
                return [0, n["name"], list(n["content"])]
            return [1, n["name"], [enc_node(x) for x in n["children"]]]
        if self.kind == "missing":
            kind = [0]
        elif self.kind == "file":
            kind = [1, list(c["single_file"])]
        else:
            kind = [2, [enc_node(n) for n in self.model_tree()]]
        return [11, ws, ps, self.cwd, self.input_arg, kind, self.excl_table()]

    # -- implementation
    def run_impl(self):
        before = snapshot(self.root)
        out = io.StringIO()
        err = io.StringIO()
        old_cwd = os.getcwd()
        status = 0
        exc = None
        tree = self.model_tree() if self.kind == "dir" else []
        try:
            os.chdir(self.cwd)
            with listing_order(self.input_abs, tree), contextlib.redirect_stdout(out), \
                    contextlib.redirect_stderr(err):
                try:
                    cminx.main(list(self.argv))
                except SystemExit as e:
                    status = e.code if isinstance(e.code, int) else 1
                    status &= 0xFF
                except BaseException as e:
                    status = 1
                    exc = f"{type(e).__name__}: {str(e)[:200]}"
        finally:
            os.chdir(old_cwd)
            import logging
            logging.disable(logging.CRITICAL)
        after = snapshot(self.root)
        changed = {k: v for k, v in after.items() if before.get(k, "absent") != v}
        removed = [k for k in before if k not in after]
        outfiles = {}
        if self.out_abs and os.path.isdir(self.out_abs):
            for d, dirs, files in os.walk(self.out_abs):
                for f in files:
                    p = os.path.join(d, f)
                    outfiles[os.path.relpath(p, self.out_abs)] = open(p, "rb").read()
        return dict(status=status, exc=exc, stdout=out.getvalue(), stderr=err.getvalue()[-500:],
                    changed=changed, removed=removed, outfiles=outfiles)


def dec_actions(reply):
    acts = []
    for a in reply:
        k = a[0]
        if k == 0:
            acts.append(("mkdirs", "/".join(core.d_str(x) for x in a[1])))
        elif k == 1:
            acts.append(("write", "/".join(core.d_str(x) for x in a[1]), core.d_str(a[2])))
        elif k == 2:
            acts.append(("print", core.d_str(a[1])))
        elif k == 3:
            acts.append(("abort", a[1][0]))
        else:
            acts.append(("exit255",))
    return acts


def model_view(acts):
    """what the action list predicts: files under the output directory, stdout, exit status"""
    files = {}
    dirs = set()
    stdout = []
    status = 0
    for a in acts:
        if a[0] == "write":
            files[os.path.normpath(a[1])] = a[2].encode("utf-8", "surrogatepass")
        elif a[0] == "mkdirs":
            dirs.add(os.path.normpath(a[1]) if a[1] else ".")
        elif a[0] == "print":
            stdout.append(a[1] + "\n")
        elif a[0] == "abort":
            status = 1
        elif a[0] == "exit255":
            status = 255
    return dict(files=files, dirs=dirs, stdout="".join(stdout), status=status)


def strip_log_lines(stdout):
    """drop the logging handler's lines (diagnostics are outside every property's comparison)"""
    import re
    return "".join(l for l in stdout.splitlines(True)
                   if not re.match(r"^\d{4}-\d\d-\d\d \d\d:\d\d:\d\d,\d+ - ", l))


def case_json(case):
    def enc(n):
        if n["kind"] == "f":
            return dict(name=n["name"], kind="f", content_hex=n["content"].hex())
        d = dict(name=n["name"], kind="d", children=[enc(x) for x in n["children"]])
        if n.get("link"):
            d["link"] = True
        return d
    c = dict(case)
    if "tree" in c:
        c["tree"] = [enc(n) for n in c["tree"]]
    if c.get("single_file") is not None:
        c["single_file_hex"] = c.pop("single_file").hex()
    return c


def case_from_json(c):
    def dec(n):
        if n["kind"] == "f":
            return dict(name=n["name"], kind="f", content=bytes.fromhex(n["content_hex"]))
        d = dict(name=n["name"], kind="d", children=[dec(x) for x in n["children"]])
        if n.get("link"):
            d["link"] = True
        return d
    c = dict(c)
    if "tree" in c:
        c["tree"] = [dec(n) for n in c["tree"]]
    if "single_file_hex" in c:
        c["single_file"] = bytes.fromhex(c.pop("single_file_hex"))
    return c


def tree_listing(children, indent=""):
    out = []
    for c in children:
        out.append(indent + c["name"] + ("/" if c["kind"] == "d" else "") + (" -> (symlink)" if c.get("link") else ""))
        if c["kind"] == "d":
            out += tree_listing(c["children"], indent + "  ")
    return out


def run_case(model, case):
    """returns (TreeRun, impl result, model view)"""
    tr = TreeRun(case)
    try:
        tr.layout()
        req = tr.model_request()
        mv = model_view(dec_actions(model.call(req)))
        ir = tr.run_impl()
        return tr, ir, mv, req
    finally:
        tr.cleanup()
