import json
props=[json.loads(l) for l in open('/verif/properties.jsonl')]
claimed = {}
exec(open('/verif/harness/manifest_data.py').read())
m = {
 "version": 1,
 "setup_cmd": "./setup.sh",
 "hooks": {"guard": "CMINX_VERIF", "enable": "no hooks are needed: the harness imports /repo/src in-process and wraps os.walk / cminx.document from outside; CMINX_VERIF=1 is exported by ./check and read by nothing in /repo",
           "baseline_off_cmd": "cd /repo && /venv/bin/python -m pytest -ra -q -p no:cacheprovider --timeout=900 --continue-on-collection-errors",
           "source_commits": SOURCE_COMMITS, "add_only": True},
 "engines": [{"name": "cminx-in-coq", "path": "coq/", "serves_properties": sorted(CLAIMED), "kind_free_text": "hand-written executable Gallina model of CMinx + per-property theorems (Coq 8.16.1), tied to /repo by translators (Gen/*.v regenerated each run) and by a correspondence harness through the OCaml-extracted model"}],
 "checks": [],
 "notes": "See DESIGN.md. ./check <id> rebuilds the Coq development against /repo's working tree, audits the theorems of Properties/<id>.v (Print Assumptions, hygiene grep), runs corpus + correspondence + (on a break) the failing-input search, writes evidence/<id>.json.",
 "not_applicable": []
}
for p in props:
    pid=p['id']
    if pid in CLAIMED:
        c=CLAIMED[pid]
        m["checks"].append({
          "property_id": pid,
          "quick_cmd": f"./check {pid} --tier quick",
          "thorough_cmd": f"./check {pid} --tier thorough",
          "evidence_file": f"/verif/evidence/{pid}.json",
          "replay_cmd_template": f"./check {pid} --replay {{path}}",
          "engine": "cminx-in-coq",
          "level_claimed": {"category": "proof", "text": c["text"], "design_ref": c.get("ref","DESIGN.md §7 "+pid)},
          "level_note": c["note"],
          "technique": c["technique"]})
    else:
        m["not_applicable"].append({"property_id": pid, "reason": NOT_YET.get(pid, "check not built yet in this session; the property is decidable by the model+proof approach (DESIGN.md §7) and will be claimed once its check exists")})
json.dump(m, open('/verif/MANIFEST.json','w'), indent=1)
print(len(m["checks"]), "claimed", len(m["not_applicable"]), "n/a")
