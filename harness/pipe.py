"""Pipeline correspondence: Documenter (implementation) vs Model.Pipeline (extracted),
through per-property projections.

A case is a dict:
  data      bytes of the CMake file
  flags     {name: bool} include_undocumented_* (default all True)
  trigger   kwargs_doc_trigger_string
  fn_re / mac_re / mem_re   strip regexes
  headers   header character list (None = default)
  title / module            names handed to Documenter
"""
import contextlib
import copy
import io
import os
import re

import core
import impl
from impl import FLAG_NAMES, DEFAULT_HEADERS

KIND_OF_CLASS = {
    "FunctionDocumentation": 0, "MacroDocumentation": 1, "VariableDocumentation": 2,
    "OptionDocumentation": 3, "GenericCommandDocumentation": 4, "CTestDocumentation": 5,
    "TestDocumentation": 6, "SectionDocumentation": 7, "ClassDocumentation": 8,
    "ModuleDocumentation": 9,
}
KIND_NAMES = ["function", "macro", "variable", "option", "generic", "ctest", "test", "section",
              "class", "module"]
ERR_OF_CODE = {1: "decode", 2: "error", 3: "error", 4: "error"}
ERR_DETAIL = {1: "decode", 2: "lexer", 3: "parser", 4: "aggregator-crash"}

DOC_MARK = "<DOC>"
NAME_MARK = "N"


def norm_case(c):
    c = dict(c)
    if isinstance(c.get("data"), str):
        c["data"] = c["data"].encode("utf-8", "surrogatepass")
    c.setdefault("flags", {})
    c.setdefault("trigger", ":param **kwargs:")
    for k in ("fn_re", "mac_re", "mem_re"):
        c.setdefault(k, "")
    c.setdefault("headers", None)
    c.setdefault("title", "T")
    c.setdefault("module", "M")
    return c


def case_settings(c):
    return impl.make_settings(flags=c["flags"], trigger=c["trigger"], fn_re=c["fn_re"],
                              mac_re=c["mac_re"], mem_re=c["mem_re"],
                              headers=c["headers"] if c["headers"] is not None else DEFAULT_HEADERS)


# ---------------------------------------------------------------------------
# implementation side

def impl_run(c, capture=True):
    """returns dict(status, text, docs, exc)"""
    from cminx.documenter import Documenter
    settings = case_settings(c)
    path = os.path.join(impl.scratch(), "input.cmake")
    with open(path, "wb") as f:
        f.write(c["data"])
    captured = []
    orig = Documenter.process_docs

    def wrapped(self, docs):
        captured.append(copy.deepcopy(docs))
        return orig(self, docs)
    err = io.StringIO()
    try:
        if capture:
            Documenter.process_docs = wrapped
        with contextlib.redirect_stderr(err), contextlib.redirect_stdout(io.StringIO()):
            d = Documenter(path, c["title"], c["module"], settings)
            w = d.process()
            text = w.to_text()
        return dict(status="ok", text=text, docs=captured[0] if captured else None, exc=None,
                    stderr=err.getvalue()[-300:])
    except BaseException as e:
        return dict(status=impl.classify_exception(e), text=None, docs=None,
                    exc=f"{type(e).__name__}: {str(e)[:200]}", stderr=err.getvalue()[-300:])
    finally:
        Documenter.process_docs = orig


def blank_doc_obj(o):
    o = copy.deepcopy(o)
    o.doc = DOC_MARK
    if type(o).__name__ == "ClassDocumentation":
        for m in list(o.constructors) + list(o.members) + list(o.attributes):
            m.doc = DOC_MARK
    return o


def blank_struct_obj(o):
    o = copy.deepcopy(o)
    n = type(o).__name__
    o.name = NAME_MARK
    if n in ("FunctionDocumentation", "MacroDocumentation"):
        o.params = []
        o.has_kwargs = False
    elif n == "VariableDocumentation":
        from cminx.documentation_types import VarType
        o.type = VarType.UNSET
        o.value = None
    elif n == "OptionDocumentation":
        o.value = None
        o.help_text = NAME_MARK
    elif n in ("GenericCommandDocumentation", "CTestDocumentation"):
        o.params = []
    elif n in ("TestDocumentation", "SectionDocumentation"):
        o.expect_fail = False
        o.params = []
        o.is_macro = False
    elif n == "ClassDocumentation":
        o.superclasses = []
        o.inner_classes = []
        for m in list(o.constructors) + list(o.members):
            m.name = NAME_MARK
            m.parent_class = NAME_MARK
            m.param_types = []
            m.params = []
            m.is_macro = False
        for a in o.attributes:
            a.name = NAME_MARK
            a.parent_class = NAME_MARK
            a.default_value = None
    return o


def impl_entry_texts(docs, settings, mode):
    """[(kind, text)] for the implementation's documentation objects, rendered one by one
    through their own process() on a fresh writer"""
    from cminx.rstwriter import RSTWriter
    out = []
    for o in docs:
        if mode == 1:
            o2 = blank_doc_obj(o)
        elif mode == 2:
            o2 = blank_struct_obj(o)
        else:
            o2 = copy.deepcopy(o)
        w = RSTWriter("", settings=settings)
        try:
            o2.process(w)
            text = "".join(f"{el}\n" for el in w.document[1:])
        except Exception as e:
            text = f"<render error {type(e).__name__}>"
        out.append((KIND_OF_CLASS.get(type(o).__name__, -1), text))
    return out


# ---------------------------------------------------------------------------
# model side

def strip_tables(c):
    """tables for the three strip functions over every argument text of the file, computed
    with the real re.sub"""
    tabs = []
    try:
        src = c["data"].decode("utf-8")
        lx = impl.lex_tokens(src)
        texts = sorted({t for (k, t) in lx[1]} if lx[0] == "ok" else set())
    except Exception:
        texts = []
    for rx in (c["fn_re"], c["mac_re"], c["mem_re"]):
        tab = []
        if rx:
            for t in texts:
                r = re.sub(rx, "", t)
                if r != t:
                    tab.append([t, r])
        tabs.append(tab)
    return tabs


def model_settings(c):
    tabs = strip_tables(c)
    return [[bool(c["flags"].get(n, True)) for n in FLAG_NAMES], c["trigger"], tabs[0], tabs[1], tabs[2],
            list(c["headers"] if c["headers"] is not None else DEFAULT_HEADERS)]


def req_page(c):
    return [8, model_settings(c), c["title"], c["module"], list(c["data"])]


def req_entries(c, mode):
    return [9, model_settings(c), mode, list(c["data"])]


def dec_page(r):
    if r[0] == 0:
        return dict(status="ok", text=core.d_str(r[1]))
    return dict(status=ERR_OF_CODE[r[0]], text=None, detail=ERR_DETAIL[r[0]])


def dec_entries(r):
    if r[0] == 0:
        return dict(status="ok", entries=[(k, bool(d), core.d_str(t)) for k, d, t in r[1]])
    return dict(status=ERR_OF_CODE[r[0]], entries=None, detail=ERR_DETAIL[r[0]])


def decode_preview(data, n=400):
    try:
        return data.decode("utf-8")[:n]
    except Exception:
        return repr(data[:n])


def case_json(c):
    d = dict(c)
    d["data_utf8"] = decode_preview(c["data"], 100000)
    d["data_hex"] = c["data"].hex()
    del d["data"]
    return d


def case_from_json(d):
    d = dict(d)
    d["data"] = bytes.fromhex(d.pop("data_hex"))
    d.pop("data_utf8", None)
    return norm_case(d)


def corpus_cases(pid):
    """the committed witnesses / scenarios of a property, as pipeline cases (run first)"""
    import json
    d = core.CORPUS / pid
    out = []
    for f in sorted(d.glob("*.json")) if d.exists() else []:
        w = json.loads(f.read_text())
        if isinstance(w.get("case"), dict) and "data_hex" in w["case"]:
            c = case_from_json(w["case"])
            c["_name"] = f.name
            out.append(c)
    return out


# ---------------------------------------------------------------------------
# generic projection runner

def ast_case(mod, rng, trivia_p=0.3, eol="\n", **settings):
    import gen
    seed = rng.getrandbits(48)
    import random
    data = gen.print_module(mod, random.Random(seed), trivia_p, eol)
    return norm_case(dict(data=data, ast=mod, layout=dict(seed=seed, trivia_p=trivia_p, eol=eol), **settings))


def reprint(c, mod):
    import gen
    import random
    lay = c["layout"]
    c2 = dict(c)
    c2["ast"] = mod
    c2["data"] = gen.print_module(mod, random.Random(lay["seed"]), lay["trivia_p"], lay["eol"]).encode(
        "utf-8", "surrogatepass")
    return c2


def ast_removals(mod):
    """all modules obtained by deleting one node (or one module doc / one doc)"""
    out = []

    def rec(nodes, rebuild):
        for i, n in enumerate(nodes):
            out.append(rebuild(nodes[:i] + nodes[i + 1:]))
            if n.get("doc") is not None and n["kind"] != "dangling":
                out.append(rebuild(nodes[:i] + [dict(n, doc=None)] + nodes[i + 1:]))
            if "body" in n and n["body"]:
                rec(n["body"], lambda b, i=i, n=n: rebuild(nodes[:i] + [dict(n, body=b)] + nodes[i + 1:]))
                out.append(rebuild(nodes[:i] + n["body"] + nodes[i + 1:]) if n["kind"] == "block" else
                           rebuild(nodes[:i] + [dict(n, body=[])] + nodes[i + 1:]))
            if n.get("impl") is not None:
                im = n["impl"]
                if im["body"]:
                    rec(im["body"], lambda b, i=i, n=n, im=im: rebuild(
                        nodes[:i] + [dict(n, impl=dict(im, body=b))] + nodes[i + 1:]))
    rec(mod["body"], lambda b: dict(mod, body=b))
    if mod.get("module") is not None:
        out.append(dict(mod, module=None))
    return out


def shrink_ast(c, still_bad, budget=200):
    if "ast" not in c:
        return c
    # first try the plainest layout
    plain = dict(c, layout=dict(c["layout"], trivia_p=0.0))
    try:
        p2 = reprint(plain, c["ast"])
        if still_bad(p2):
            c = p2
    except Exception:
        pass
    changed = True
    while changed and budget > 0:
        changed = False
        for cand in ast_removals(c["ast"]):
            budget -= 1
            if budget <= 0:
                break
            try:
                c2 = reprint(c, cand)
            except Exception:
                continue
            if still_bad(c2):
                c = c2
                changed = True
                break
    return c


def compare_projection(model, c, mode, kinds):
    """returns None if implementation and model agree under the projection, else a dict"""
    ir = impl_run(c)
    mr = dec_entries(model.call(req_entries(c, mode)))
    return diff_projection(c, ir, mr, mode, kinds)


def diff_projection(c, ir, mr, mode, kinds):
    if ir["status"] != mr["status"]:
        return dict(what="status", impl=ir["status"], impl_exc=ir["exc"], model=mr["status"])
    if ir["status"] != "ok":
        return None
    it = impl_entry_texts(ir["docs"], case_settings(c), mode)
    it = [(k, t) for k, t in it if kinds is None or k in kinds]
    mt = [(k, t) for k, d, t in mr["entries"] if kinds is None or k in kinds]
    if it != mt:
        i = 0
        while i < min(len(it), len(mt)) and it[i] == mt[i]:
            i += 1
        return dict(what="entries", index=i, impl=it[i] if i < len(it) else None,
                    model=mt[i] if i < len(mt) else None, n_impl=len(it), n_model=len(mt))
    return None


def run_projection(rep, model, cases, mode, kinds, name, in_domain=None, known=None,
                   max_report=3, nontrivial=None):
    """Compare implementation and model on every case under a projection.
    in_domain(c) -> bool : the case satisfies the property's hypotheses (quantifier)
    known(c, diff) -> str|None : the disagreement is a listed known finding
    Returns list of out-of-domain disagreements (correspondence broken, property not shown violated)."""
    reqs = [req_entries(c, mode) for c in cases]
    replies = model.call_many(reqs)
    outside = []
    reported = 0
    pairs = []
    for c, rq, rp in zip(cases, reqs, replies):
        ir = impl_run(c)
        mr = dec_entries(rp)
        nt = nontrivial(c, mr) if nontrivial else (mr["status"] == "ok" and len(mr["entries"] or []) > 1)
        rep.count_case(c["data"], nt)
        rep.dist(f"{name}:impl_{ir['status']}")
        rep.dist(f"{name}:bytes", len(c["data"]))
        if mr["status"] == "ok":
            for k, d, t in mr["entries"]:
                if kinds is None or k in kinds:
                    rep.dist(f"{name}:entry_{KIND_NAMES[k]}{'_doc' if d else '_undoc'}")
        d = diff_projection(c, ir, mr, mode, kinds)
        if len(pairs) < 12 and len(c["data"]) < 400:
            pairs.append((rq, rp))
        if d is None:
            continue
        dom = in_domain(c) if in_domain else True
        kf = known(c, d) if known else None
        if kf:
            rep.dist(f"{name}:known_finding_hits")
            continue
        if dom:
            if reported < max_report:
                c2 = shrink_ast(c, lambda x: (in_domain(x) if in_domain else True)
                                and compare_projection(model, x, mode, kinds) is not None
                                and not (known and known(x, compare_projection(model, x, mode, kinds))))
                d2 = compare_projection(model, c2, mode, kinds) or d
                rep.violation(dict(kind=f"{name}: implementation contradicts the spec/model on an in-domain input",
                                   projection_mode=mode, kinds=sorted(kinds) if kinds else None,
                                   diff=d2, case=case_json({k: v for k, v in c2.items() if k != "ast"})))
            reported += 1
        else:
            outside.append((c, d))
    rep.coverage["correspondence"][name] = rep.coverage["correspondence"].get(name, 0) + len(cases)
    rep.coverage.setdefault("in_domain_disagreements", {})[name] = reported
    rep.coverage.setdefault("out_of_domain_disagreements", {})[name] = len(outside)
    rep._vm_pairs = getattr(rep, "_vm_pairs", []) + pairs
    return outside


def finish_projection(rep, outside, name):
    """out-of-domain disagreements: the correspondence no longer checks but no in-domain
    failing input was found"""
    if outside and not rep.violations:
        c, d = outside[0]
        rep.violation(dict(kind=f"{name}: correspondence implementation/model broken outside the property's domain",
                           broken="correspondence " + name, diff=d,
                           case=case_json({k: v for k, v in c.items() if k != "ast"})), no_input=True)


def crosscheck(rep):
    pairs = getattr(rep, "_vm_pairs", [])
    chk, bad = core.vm_crosscheck(pairs)
    rep.coverage["extraction_crosschecked"] = chk
    if bad:
        rep.violation(dict(kind="extraction-crosscheck", detail=str(bad)[:500]), no_input=True)
