#!/bin/bash
# MANIFEST.setup_cmd: build the whole framework offline from files on disk.
set -e
cd "$(dirname "$0")"
export PYTHONDONTWRITEBYTECODE=1
mkdir -p evidence replays coq/theories/Gen
for t in translators/*2coq.py; do
  [ -e "$t" ] && { /venv/bin/python -B "$t" /repo coq/theories/Gen || cp translators/baseline/*.v coq/theories/Gen/; }
done
cd coq
coq_makefile -f _CoqProject -o Makefile > /dev/null
timeout 3000 make -k -j16 > /tmp/cminx_setup_make.log 2>&1 || { tail -40 /tmp/cminx_setup_make.log; echo "make reported errors (continuing: checks report them per property)"; }
cd ../ocaml
coqc -Q ../coq/theories CMinx Extraction.v
ocamlfind ocamlopt -w -a model.mli model.ml driver.ml -o driver
date +%s > .stamp
echo "setup done"
