(* Spec/FsSpec.v -- a tiny file-system model for the actions of Model/Walk.v (property C18).
   A file system is a total function from paths to what is there.  Paths are component
   lists relative to the output directory ([] is the output directory itself); everything
   outside the output directory is not represented at all, because no action of the model can
   name it (output paths are relative, and Proofs/WalkFacts.v shows that their components
   come from the tree and cannot climb out). *)
From Coq Require Import String List NArith Bool Arith.
From CMinx Require Import Base.Str Model.Writer Model.Path Model.Naming Model.Pipeline Model.Walk.
Import ListNotations.

(* ---- spec ---- *)

Inductive fobj :=
| FFile (content : str)
| FDir.

Definition fs := list str -> option fobj.

Definition empty_fs : fs := fun _ => None.

(* p is q or one of the directories above q (boolean; [] is a prefix of everything) *)
Fixpoint prefixb (p q : list str) : bool :=
  match p, q with
  | [], _ => true
  | x :: p', y :: q' => str_eqb x y && prefixb p' q'
  | _ :: _, [] => false
  end.

(* the same as a proposition *)
Definition is_prefix_or_eq (p q : list str) : Prop := exists r, q = p ++ r.

(* os.makedirs(output/rel, exist_ok=True): rel and every directory above it (including the
   output directory itself) becomes a directory where nothing is there; an existing directory
   stays.  Convention: an existing FILE on the way is modelled as unchanged -- the real
   os.makedirs would raise FileExistsError / NotADirectoryError there, i.e. it does not
   destroy the file either. *)
Definition mk_obj (o : option fobj) : option fobj :=
  match o with None => Some FDir | Some x => Some x end.

(* write_to_file(output/rel): open(..., 'w') replaces the content of that one path.
   (Writing over an existing directory or below a missing one would raise in reality; the
   model sets the path to a file, which only makes the untouched-statements stronger.) *)
Definition apply_action (f : fs) (a : action) : fs :=
  match a with
  | AWrite p c => fun q => if strs_eqb q p then Some (FFile c) else f q
  | AMkDirs p => fun q => if prefixb q p then mk_obj (f q) else f q
  | APrint _ => f
  | AAbort _ => f
  | AExit255 => f
  end.

Definition apply_run (f : fs) (acts : list action) : fs := fold_left apply_action acts f.

(* the content of the last write to p in a run, if any *)
Fixpoint last_write (p : list str) (acts : list action) : option str :=
  match acts with
  | [] => None
  | a :: r =>
      match last_write p r with
      | Some c => Some c
      | None => match a with
                | AWrite q c => if strs_eqb p q then Some c else None
                | _ => None
                end
      end
  end.
