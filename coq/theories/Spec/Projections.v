(* Spec/Projections.v -- per-property projections of documentation entries.  The harness
   applies the same projections to the implementation's objects (harness/pipe.py) so that a
   change to doc-text cleaning does not disturb the signature properties and vice versa. *)
From Coq Require Import String List NArith Bool Arith.
From CMinx Require Import Base.Str Model.Writer Model.DocTypes.
Import ListNotations.

Definition doc_mark : str := s"<DOC>".
Definition name_mark : str := s"N".

Definition blank_method_doc (m : method) : method :=
  {| m_name := m_name m; m_doc := doc_mark; m_parent := m_parent m; m_types := m_types m;
     m_params := m_params m; m_ctor := m_ctor m; m_macro := m_macro m; m_docd := m_docd m |}.
Definition blank_attr_doc (a : attribute) : attribute :=
  {| a_name := a_name a; a_doc := doc_mark; a_parent := a_parent a; a_default := a_default a;
     a_docd := a_docd a |}.

(* keep the structure, replace every doc text *)
Definition blank_doc (e : entry) : entry :=
  match e with
  | EFunction m n _ p k => EFunction m n doc_mark p k
  | EVariable n _ t v => EVariable n doc_mark t v
  | EOption n _ v h => EOption n doc_mark v h
  | EGeneric n _ p => EGeneric n doc_mark p
  | ECTest n _ p => ECTest n doc_mark p
  | ETest sec n _ xf p mac => ETest sec n doc_mark xf p mac
  | EClass n _ su inner ct me at_ =>
      EClass n doc_mark su inner (map blank_method_doc ct) (map blank_method_doc me)
             (map blank_attr_doc at_)
  | EModule n _ => EModule n doc_mark
  end.

Definition blank_method_struct (m : method) : method :=
  {| m_name := name_mark; m_doc := m_doc m; m_parent := name_mark; m_types := [];
     m_params := []; m_ctor := m_ctor m; m_macro := false; m_docd := m_docd m |}.
Definition blank_attr_struct (a : attribute) : attribute :=
  {| a_name := name_mark; a_doc := a_doc a; a_parent := name_mark; a_default := None;
     a_docd := a_docd a |}.

(* keep the doc texts, replace names / signatures / values *)
Definition blank_struct (e : entry) : entry :=
  match e with
  | EFunction m _ d _ _ => EFunction m name_mark d [] false
  | EVariable _ d _ _ => EVariable name_mark d VUnset None
  | EOption _ d _ _ => EOption name_mark d None name_mark
  | EGeneric _ d _ => EGeneric name_mark d []
  | ECTest _ d _ => ECTest name_mark d []
  | ETest sec _ d _ _ _ => ETest sec name_mark d false [] false
  | EClass _ d _ _ ct me at_ =>
      EClass name_mark d [] [] (map blank_method_struct ct) (map blank_method_struct me)
             (map blank_attr_struct at_)
  | EModule _ d => EModule name_mark d
  end.

Definition entry_kind (e : entry) : nat :=
  match e with
  | EFunction false _ _ _ _ => 0
  | EFunction true _ _ _ _ => 1
  | EVariable _ _ _ _ => 2
  | EOption _ _ _ _ => 3
  | EGeneric _ _ _ => 4
  | ECTest _ _ _ => 5
  | ETest false _ _ _ _ _ => 6
  | ETest true _ _ _ _ _ => 7
  | EClass _ _ _ _ _ _ _ => 8
  | EModule _ _ => 9
  end.

Definition project (mode : nat) (e : entry) : entry :=
  match mode with
  | 1 => blank_doc e
  | 2 => blank_struct e
  | _ => e
  end.

(* text of one entry rendered on a fresh top-level writer (heading excluded) *)
Definition entry_text (hdrs : list str) (e : entry) : str :=
  body_text hdrs 0 0 [render_entry e].
