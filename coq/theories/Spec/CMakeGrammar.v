(* Spec/CMakeGrammar.v -- a small REFERENCE abstract syntax of the command invocations of
   cmake-language(7), written from the CMake manual and independent of the lexer rules in
   Model/Lexer.v.  Definitions only; the theorems are in Proofs/GrammarFacts.v. *)
From Coq Require Import String List NArith Bool Arith.
From CMinx Require Import Base.Str.
Import ListNotations.

(* argument: unquoted_argument | quoted_argument | bracket_argument, or a parenthesised group *)
Inductive garg :=
| GUnquoted (t : str)
| GQuoted (body : str)
| GBracket (n : nat) (body : str)
| GParen (l : list garg).

Record gcmd := { g_name : str; g_args : list garg }.
Definition gfile := list gcmd.

(* ---- printing: one command per line, arguments separated by single spaces ---- *)

Definition gopen (n : nat) : str := [lbr] ++ repeat eqc n ++ [lbr].
Definition gclose (n : nat) : str := [rbr] ++ repeat eqc n ++ [rbr].

Fixpoint print_garg (a : garg) : str :=
  match a with
  | GUnquoted t => t
  | GQuoted b => dq :: b ++ [dq]
  | GBracket n b => gopen n ++ b ++ gclose n
  | GParen l => lpar :: join [sp] (map print_garg l) ++ [rpar]
  end.

Definition print_args (l : list garg) : str := join [sp] (map print_garg l).

Definition print_gcmd (c : gcmd) : str :=
  g_name c ++ [lpar] ++ print_args (g_args c) ++ [rpar] ++ [nl].

Definition print_gfile (a : gfile) : str := concat (map print_gcmd a).

(* ---- well-formedness, after the manual ---- *)

Definition g_letter (c : char) : bool := ((65 <=? c) && (c <=? 90) || (97 <=? c) && (c <=? 122))%N.
Definition g_digit (c : char) : bool := ((48 <=? c) && (c <=? 57))%N.
Definition g_underscore (c : char) : bool := (c =? 95)%N.

(* identifier: [A-Za-z_][A-Za-z0-9_]* *)
Definition g_ident (x : str) : bool :=
  match x with
  | a :: r => (g_letter a || g_underscore a) &&
              forallb (fun c => g_letter c || g_digit c || g_underscore c) r
  | [] => false
  end.

(* space: space, tab, and the line-ending characters *)
Definition g_space (c : char) : bool := (c =? 32)%N || (c =? 9)%N || (c =? 13)%N || (c =? 10)%N.

(* unquoted_element without escapes: anything but space ( ) # double-quote backslash *)
Definition g_plain (c : char) : bool :=
  negb (g_space c || (c =? 40)%N || (c =? 41)%N || (c =? 35)%N || (c =? 34)%N || (c =? 92)%N).

(* escape_identity | escape_encoded | escape_semicolon: the character after the backslash is
   non-alphanumeric (this includes the semicolon and, inside quotes, the newline of a
   quoted_continuation), or one of t n r *)
Definition g_escapable (c : char) : bool :=
  negb (g_letter c || g_digit c) || (c =? 116)%N || (c =? 110)%N || (c =? 114)%N.

(* a sequence of unquoted elements *)
Fixpoint g_unq_units (x : str) : bool :=
  match x with
  | [] => true
  | a :: r =>
      if (a =? 92)%N then
        match r with
        | b :: r' => g_escapable b && g_unq_units r'
        | [] => false
        end
      else g_plain a && g_unq_units r
  end.

(* the text begins like a bracket argument:  [ =* [ *)
Definition g_bracket_opener (x : str) : bool :=
  match x with
  | a :: r =>
      (a =? 91)%N &&
      match drop_while (fun c => (c =? 61)%N) r with
      | b :: _ => (b =? 91)%N
      | [] => false
      end
  | [] => false
  end.

Definition wf_unquoted (t : str) : bool :=
  negb (match t with [] => true | _ => false end) && g_unq_units t && negb (g_bracket_opener t).

(* quoted_element*: double quote and backslash occur only inside escape sequences *)
Fixpoint wf_quoted (x : str) : bool :=
  match x with
  | [] => true
  | a :: r =>
      if (a =? 34)%N then false
      else if (a =? 92)%N then
        match r with
        | b :: r' => g_escapable b && wf_quoted r'
        | [] => false
        end
      else wf_quoted r
  end.

(* bracket_content: the closing bracket of the same level occurs nowhere before the very end
   of  content ++ close  (in particular not inside the content) *)
Definition wf_bracket (n : nat) (body : str) : bool :=
  negb (contains (gclose n) (body ++ [rbr] ++ repeat eqc n)).

Fixpoint wf_garg (a : garg) : bool :=
  match a with
  | GUnquoted t => wf_unquoted t
  | GQuoted b => wf_quoted b
  | GBracket n b => wf_bracket n b
  | GParen l => forallb wf_garg l
  end.

Definition wf_gcmd (c : gcmd) : bool := g_ident (g_name c) && forallb wf_garg (g_args c).
Definition wf_gfile (a : gfile) : bool := forallb wf_gcmd a.

(* ---- what CMake hands to the commands: name and the argument texts in order, the
        parentheses of nested groups as separate entries ---- *)

Fixpoint leaves (a : garg) : list str :=
  match a with
  | GParen l => [lpar] :: flat_map leaves l ++ [[rpar]]
  | _ => [print_garg a]
  end.

Definition invocations (a : gfile) : list (str * list str) :=
  map (fun c => (g_name c, flat_map leaves (g_args c))) a.
