(* Spec/EntrySpec.v -- what the property statements say about single entries, written as
   small functions of a command's argument texts, independently of the aggregator's scanning
   loops.  They are the right-hand sides of the theorems in Properties/C02, C03, C10, C11 and
   are also run (extracted) by the harness as the oracle against the implementation. *)
From Coq Require Import String List NArith Bool Arith.
From CMinx Require Import Base.Str Model.Lexer Model.Parser Model.Writer Model.DocTypes.
Import ListNotations.

Definition NAME : str := s"NAME".
Definition EXPECTFAIL : str := s"EXPECTFAIL".

(* ---- C11 ---------------------------------------------------------------------- *)

(* the argument that follows the keyword NAME *)
Fixpoint name_after (ps : list str) : option str :=
  match ps with
  | [] => None
  | p :: r => if str_eqb p NAME
              then match r with n :: _ => Some n | [] => None end
              else name_after r
  end.

(* all other arguments: everything except the keyword NAME and the argument after it,
   by position, in order *)
Fixpoint other_args (ps : list str) : list str :=
  match ps with
  | [] => []
  | p :: r => if str_eqb p NAME
              then match r with _ :: r' => r' | [] => [] end
              else p :: other_args r
  end.

Fixpoint count_str (x : str) (l : list str) : nat :=
  match l with
  | [] => 0
  | y :: r => (if str_eqb x y then 1 else 0) + count_str x r
  end.

(* the quantifier of C11: the keyword NAME occurs exactly once *)
Definition one_name (ps : list str) : bool := Nat.eqb (count_str NAME ps) 1.

(* ct_add_test / ct_add_section: (name, EXPECTFAIL shown) *)
Definition ct_view (ps : list str) : option (str * bool) :=
  match name_after ps with
  | Some n => Some (n, mem_str EXPECTFAIL ps)
  | None => None
  end.

(* add_test: (name, signature arguments) *)
Definition add_test_view (ps : list str) : option (str * list str) :=
  match name_after ps with
  | Some n => Some (n, other_args ps)
  | None => None
  end.

(* ---- C10 ---------------------------------------------------------------------- *)

(* a quoted argument text without its surrounding quotes; other texts as written *)
Definition value_as_written (v : str) : str :=
  match v with
  | a :: r => if (a =? 34)%N
              then match last_opt r with
                   | Some z => if (z =? 34)%N then drop_last r else v
                   | None => v
                   end
              else v
  | [] => v
  end.

(* set(name values...): (name, type, default) *)
Definition set_view (args : list str) : option (str * vartype * option str) :=
  match args with
  | [] => None
  | name :: vals =>
      match vals with
      | [] => Some (name, VUnset, None)
      | [v] => Some (name, VString, Some (value_as_written v))
      | _ => Some (name, VList, Some (join (s" ") vals))
      end
  end.

(* option(name help [default]): (name, help, default) *)
Definition option_view (args : list str) : option (str * str * str) :=
  match args with
  | [name; help] => Some (name, help, s"OFF")
  | [name; help; v] => Some (name, help, v)
  | _ => None
  end.

(* ---- C02: generic invocation shows its arguments as written and in order -------- *)

(* the text of an argument as written, a parenthesised group with single spaces *)
Fixpoint arg_shown (a : arg) : str :=
  match a with
  | ASingle _ t => t
  | ACompound l => [lpar] ++ join (s" ") (map arg_shown l) ++ [rpar]
  end.

Definition generic_args (c : cmd) : list str := map arg_shown (c_args c).

(* ---- C03: signature of a definition ------------------------------------------- *)

Definition def_signature (strip : str -> str) (args : list str) (kwargs : bool) : option str :=
  match args with
  | [] => None
  | name :: ps =>
      Some (signature name (map strip ps ++ (if kwargs then [kwargs_lit] else [])))
  end.
