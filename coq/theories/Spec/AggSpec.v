(* Spec/AggSpec.v -- the structured (nested) view of a command sequence and the one-pass
   specification of which entries a file yields (C02), which definitions get **kwargs (C03) and
   what a class shows (C09).  Nothing here mentions the aggregator's stacks. *)
From Coq Require Import String List NArith Bool Arith.
From CMinx Require Import Base.Str Model.Lexer Model.Parser Model.Writer Model.DocTypes
     Model.Aggregator Spec.EntrySpec.
Import ListNotations.

Definition cmd_kind (c : cmd) : str := lower_ascii (c_name c).
Definition kind_is (c : cmd) (k : str) : bool := str_eqb (cmd_kind c) k.

Definition is_def_cmd (c : cmd) : bool := kind_is c (s"function") || kind_is c (s"macro").
Definition is_end_def_cmd (c : cmd) : bool := kind_is c (s"endfunction") || kind_is c (s"endmacro").
Definition is_class_cmd (c : cmd) : bool := kind_is c (s"cpp_class").
Definition is_end_class_cmd (c : cmd) : bool := kind_is c (s"cpp_end_class").
Definition is_cpa_cmd (c : cmd) : bool := kind_is c (s"cmake_parse_arguments").

(* ---- nested view ---------------------------------------------------------------- *)

Inductive node :=
| NCmd (doc : option str) (c : cmd)        (* a command that opens or closes no definition or class *)
| NDangling (d : str)                      (* a doccomment not followed by a command *)
| NDef (doc : option str) (hdr : cmd) (body : list node) (endc : cmd)
                                           (* function()/macro() ... endfunction()/endmacro() *)
| NClass (doc : option str) (hdr : cmd) (body : list node) (endc : cmd).
                                           (* cpp_class() ... cpp_end_class() *)

Definition elem_of (doc : option str) (c : cmd) : element :=
  match doc with Some d => EDocCmd d c | None => ECmd c end.

Fixpoint flatten (n : node) : list element :=
  match n with
  | NCmd doc c => [elem_of doc c]
  | NDangling d => [EDangling d]
  | NDef doc hdr body endc =>
      elem_of doc hdr :: (fix go (l : list node) : list element :=
                            match l with [] => [] | x :: r => flatten x ++ go r end) body
      ++ [ECmd endc]
  | NClass doc hdr body endc =>
      elem_of doc hdr :: (fix go (l : list node) : list element :=
                            match l with [] => [] | x :: r => flatten x ++ go r end) body
      ++ [ECmd endc]
  end.

Definition flatten_all (l : list node) : list element := flat_map flatten l.

(* well-nestedness: the block constructors carry the block commands, NCmd carries none *)
Fixpoint wf_node (n : node) : bool :=
  match n with
  | NCmd _ c => negb (is_def_cmd c) && negb (is_end_def_cmd c)
                && negb (is_class_cmd c) && negb (is_end_class_cmd c)
  | NDangling _ => true
  | NDef _ hdr body endc =>
      is_def_cmd hdr && is_end_def_cmd endc
      && (fix all (l : list node) : bool :=
            match l with [] => true | x :: r => wf_node x && all r end) body
  | NClass _ hdr body endc =>
      is_class_cmd hdr && is_end_class_cmd endc
      && (fix all (l : list node) : bool :=
            match l with [] => true | x :: r => wf_node x && all r end) body
  end.

Definition wf_nodes (l : list node) : bool := forallb wf_node l.

(* ---- C03: cmake_parse_arguments in the body of that very definition, outside any nested
        function or macro definition (class bodies and other commands are transparent) ---- *)

Fixpoint has_cpa0 (n : node) : bool :=
  match n with
  | NCmd _ c => is_cpa_cmd c
  | NDangling _ => false
  | NDef _ _ _ _ => false
  | NClass _ _ body _ =>
      (fix any (l : list node) : bool :=
         match l with [] => false | x :: r => has_cpa0 x || any r end) body
  end.

Definition body_has_cpa0 (body : list node) : bool := existsb has_cpa0 body.

(* ---- C02: which top-level entries a command sequence yields, in order ----------- *)

Inductive ekind :=
| KFunction | KMacro | KVariable | KOption | KGeneric | KCTest | KTest | KSection | KClass | KModule.

Definition entry_kind_of (e : entry) : ekind :=
  match e with
  | EFunction false _ _ _ _ => KFunction
  | EFunction true _ _ _ _ => KMacro
  | EVariable _ _ _ _ => KVariable
  | EOption _ _ _ _ => KOption
  | EGeneric _ _ _ => KGeneric
  | ECTest _ _ _ => KCTest
  | ETest false _ _ _ _ _ => KTest
  | ETest true _ _ _ _ _ => KSection
  | EClass _ _ _ _ _ _ _ => KClass
  | EModule _ _ => KModule
  end.

Definition entry_name_of (e : entry) : str :=
  match e with
  | EFunction _ n _ _ _ | EVariable n _ _ _ | EOption n _ _ _ | EGeneric n _ _ | ECTest n _ _
  | ETest _ n _ _ _ _ | EClass n _ _ _ _ _ _ | EModule n _ => n
  end.

Definition ekey (e : entry) : ekind * str := (entry_kind_of e, entry_name_of e).

(* one pass with three small pieces of state: is a member/test declaration waiting for its
   implementing definition, how many classes are open, how many definitions are open.
   None = the aggregator raises (unbalanced end command, function() without a name). *)
Record sstate := { pending : bool; depth : nat; defs : nat }.

Definition nth_arg (i : nat) (c : cmd) : str := nth i (singles c) [].
Definition nargs (c : cmd) : nat := length (singles c).

(* the name a test command declares: Some n iff it has >= 2 arguments and NAME is not last *)
Definition test_name (c : cmd) : option str :=
  if Nat.ltb (nargs c) 2 then None
  else scan_name (singles c) [].

(* (entry keys added, new state); docd = the command carries a doccomment *)
Definition spec_step (st : sstate) (docd : bool) (c : cmd) : option (list (ekind * str) * sstate) :=
  let k := cmd_kind c in
  let keep := Some ([], st) in
  (* a doccomment on a block-closing command documents it as a generic invocation *)
  let closing_doc := if docd then [(KGeneric, k)] else [] in
  if str_eqb k (s"function") || str_eqb k (s"macro") then
    if pending st && negb docd
    then Some ([], {| pending := false; depth := depth st; defs := S (defs st) |})
    else match singles c with
         | [] => None
         | n :: _ => Some ([(if str_eqb k (s"macro") then KMacro else KFunction, n)],
                           {| pending := false; depth := depth st; defs := S (defs st) |})
         end
  else if str_eqb k (s"endfunction") || str_eqb k (s"endmacro") then
    match defs st with
    | O => None
    | S d => Some (closing_doc, {| pending := pending st; depth := depth st; defs := d |})
    end
  else if str_eqb k (s"cpp_end_class") then
    match depth st with
    | O => None
    | S d => Some (closing_doc, {| pending := pending st; depth := d; defs := defs st |})
    end
  else if str_eqb k (s"cpp_class") then
    match singles c with
    | [] => keep
    | n :: _ => Some ([(KClass, n)],
                      {| pending := pending st; depth := S (depth st); defs := defs st |})
    end
  else if str_eqb k (s"ct_add_test") || str_eqb k (s"ct_add_section") then
    match test_name c with
    | Some n => Some ([(if str_eqb k (s"ct_add_section") then KSection else KTest, n)],
                      {| pending := true; depth := depth st; defs := defs st |})
    | None => keep
    end
  else if str_eqb k (s"add_test") then
    match test_name c with
    | Some n => Some ([(KCTest, n)], st)
    | None => keep
    end
  else if str_eqb k (s"option") then
    if Nat.leb 2 (nargs c) && Nat.leb (nargs c) 3 then Some ([(KOption, nth_arg 0 c)], st) else keep
  else if str_eqb k (s"cpp_member") || str_eqb k (s"cpp_constructor") then
    if Nat.leb 2 (nargs c) && negb (Nat.eqb (depth st) 0)
    then Some ([], {| pending := true; depth := depth st; defs := defs st |}) else keep
  else if str_eqb k (s"cpp_attr") || str_eqb k (s"cmake_parse_arguments") then keep
  else if str_eqb k (s"set") then
    if docd then
      match singles c with
      | [] => keep
      | [n; v] => match unquote v with None => None | Some _ => Some ([(KVariable, n)], st) end
      | n :: _ => Some ([(KVariable, n)], st)
      end
    else keep
  else (* any other command: an entry iff it carries a doccomment *)
    if docd then Some ([(KGeneric, k)], st) else keep.

Fixpoint spec_run (st : sstate) (es : list element) : option (list (ekind * str)) :=
  match es with
  | [] => Some []
  | EDangling _ :: r => spec_run st r
  | EDocCmd _ c :: r =>
      match spec_step st true c with
      | Some (ks, st') => option_map (app ks) (spec_run st' r)
      | None => None
      end
  | ECmd c :: r =>
      match spec_step st false c with
      | Some (ks, st') => option_map (app ks) (spec_run st' r)
      | None => None
      end
  end.

(* the entry keys of a whole file under default settings *)
Definition expected_keys (f : cfile) : option (list (ekind * str)) :=
  option_map (fun ks => match f_module f with
                        | Some t => ekey (module_entry t) :: ks
                        | None => ks
                        end)
             (spec_run {| pending := false; depth := 0; defs := 0 |} (f_elems f)).
