(* Properties/C17.v -- Output is a function of contents, relative paths and settings only.
   Only theorem statements; proofs are in Proofs/WalkFacts2.v, RunFacts.v, NamingFacts.v.
   Partial: hash seed, interpreter-global state and the real file system have no counterpart in a
   pure model (a Gallina function of its arguments depends on nothing else); the harness varies
   them (repeat, cwd, location, listing order, PYTHONHASHSEED, other inputs in the same run) and
   byte-compares.  What is proved is where the environment enters the model explicitly. *)
From Coq Require Import String List Permutation.
From CMinx Require Import Base.Str Model.Path Model.Naming Model.Pipeline Model.Walk
     Proofs.WalkFacts Proofs.WalkFacts2 Proofs.RunFacts Proofs.NamingFacts Proofs.PathFacts
     Model.Config Gen.ConfigData Base.PyMainSem Gen.PyMainSource Proofs.ConfigFacts Proofs.MainSourceMatch.
Import ListNotations.

(* a different order of directory listings: the same set of (path, content) pairs *)
Theorem C17_listing_order_irrelevant :
  forall st hdrs docfn excl base ch ch', tperm_list ch ch' -> tree_ok ch = true -> all_ok docfn ->
    Permutation (writes (document st hdrs docfn excl base (KDir ch)))
                (writes (document st hdrs docfn excl base (KDir ch'))).
Proof. exact listing_order_irrelevant. Qed.
Print Assumptions C17_listing_order_irrelevant.

(* moving the tree: the path of a file relative to the input does not depend on the location *)
Theorem C17_relpath_location_independent :
  forall bc1 bc2 rel,
    forallb comp_ok bc1 = true -> forallb comp_ok bc2 = true ->
    forallb comp_ok rel = true -> rel <> [] ->
    relpath_abs (abs_of bc1 ++ [slash] ++ join [slash] rel) (abs_of bc1)
    = relpath_abs (abs_of bc2 ++ [slash] ++ join [slash] rel) (abs_of bc2).
Proof. exact relpath_location_independent. Qed.
Print Assumptions C17_relpath_location_independent.

Theorem C17_basename_of_joined_input :
  forall d n, n <> [] -> ~ In slash n -> d <> [] -> basename (join2 d n) = n.
Proof. exact basename_join2. Qed.
Print Assumptions C17_basename_of_joined_input.

(* documenting further inputs before or after in the same run *)
Theorem C17_per_input_independence :
  forall pre x post, forallb run_ok (pre ++ [x] ++ post) = true ->
    writes (run_inputs (pre ++ [x] ++ post))
    = writes (run_inputs pre) ++ writes (run_inputs [x]) ++ writes (run_inputs post).
Proof. exact per_input_independence. Qed.
Print Assumptions C17_per_input_independence.

Theorem C17_run_is_concatenation :
  forall runs, forallb run_ok runs = true -> run_inputs runs = concat runs.
Proof. exact run_inputs_concat. Qed.
Print Assumptions C17_run_is_concatenation.

(* the default prefix basename (abspath cwd input) is the directory's name however the input is
   spelled: name, name/, . from inside, ./name, absolutely from any cwd, ../name from a sibling *)
Theorem C17_default_prefix_spelling_independent :
  forall cc n m anycwd,
    forallb comp_plain cc = true -> comp_plain n = true -> comp_plain m = true ->
    let b := basename (abspath (abs_of cc) n) in
    b = n
    /\ basename (abspath (abs_of cc) (n ++ [slash])) = b
    /\ basename (abspath (abs_of (cc ++ [n])) [dot]) = b
    /\ basename (abspath (abs_of cc) ([dot; slash] ++ n)) = b
    /\ basename (abspath anycwd (abs_of (cc ++ [n]))) = b
    /\ basename (abspath (abs_of (cc ++ [m])) (dotdot ++ [slash] ++ n)) = b.
Proof. exact default_prefix_spelling_independent. Qed.
Print Assumptions C17_default_prefix_spelling_independent.

(* pymain2coq: the control flow of main() as regenerated from src/cminx/__init__.py on every run
   (argument parsing, stacking of the sources, template validation, the rst.headers check, the
   exclude-filter loop, the loop over the inputs) equals the specification model_main, for every environment, document
   function and argument vector. *)
Theorem C17_main_matches_source :
  forall env document toks, py_run (main env document toks) = model_main env document toks.
Proof. exact main_matches_source. Qed.
Print Assumptions C17_main_matches_source.

Theorem C17_inputs_documented_in_order : forall env document toks p stack st,
  parse_args cli_table toks = Some p ->
  consulted env p = Some stack ->
  settings_of (env_cwd env) stack template = Some st ->
  headers_ok stack = true ->
  forallb (excl_src_ok excl_key) stack = true ->
  py_run (main env document toks)
  = finish (run_inputs (map (fun f => document f (accepted_object stack st)) (p_positional p))).
Proof. exact inputs_documented_in_order. Qed.
Print Assumptions C17_inputs_documented_in_order.

Theorem C17_inputs_documented_concat : forall env document toks p stack st,
  parse_args cli_table toks = Some p ->
  consulted env p = Some stack ->
  settings_of (env_cwd env) stack template = Some st ->
  headers_ok stack = true ->
  forallb (excl_src_ok excl_key) stack = true ->
  forallb run_ok (map (fun f => document f (accepted_object stack st)) (p_positional p)) = true ->
  py_run (main env document toks)
  = Returned (concat (map (fun f => document f (accepted_object stack st)) (p_positional p))).
Proof. exact inputs_documented_concat. Qed.
Print Assumptions C17_inputs_documented_concat.

(* Proofs/WholeProgram.v: every input is documented with the same settings object, whatever was documented before it; the per-input default prefix does not leak *)
From Coq Require NArith Bool Arith.
From CMinx Require Base.Str Base.PySem Model.Writer Model.Path Model.Naming Model.DocTypes
     Model.Aggregator Model.Pipeline Model.Walk Model.Config Gen.ConfigData
     Base.PyMainSem Base.PyWalkSem Gen.PyMainSource Gen.PyWalkSource
     Proofs.WalkFacts Proofs.RunFacts Proofs.ConfigFacts Proofs.MainSourceMatch
     Proofs.WalkSourceMatch Proofs.WholeProgram.
Section WholeProgramCitations.
Import NArith Bool Arith.
Import Base.Str Base.PySem Model.Writer Model.Path Model.Naming Model.DocTypes
     Model.Aggregator Model.Pipeline Model.Walk Model.Config Gen.ConfigData
     Base.PyMainSem Base.PyWalkSem Gen.PyMainSource Gen.PyWalkSource
     Proofs.WalkFacts Proofs.RunFacts Proofs.ConfigFacts Proofs.MainSourceMatch
     Proofs.WalkSourceMatch Proofs.WholeProgram.

Theorem C17_whole_program_run : forall resub pathspec_match world_of env toks,
  worlds_ok env toks world_of = true ->
  py_run (main env (source_document resub pathspec_match world_of) toks)
  = match main_settings_of env toks with
    | Some obj =>
        finish (run_inputs (map (fun input => model_document resub pathspec_match world_of input obj)
                                (inputs_of toks)))
    | None => Raised (main_error env toks) []
    end.
Proof. exact WholeProgram.whole_program_run. Qed.

Theorem C17_inputs_share_settings : forall resub pathspec_match world_of env toks obj,
  main_settings_of env toks = Some obj -> worlds_ok env toks world_of = true ->
  let W := wsettings_of obj in
  let H := headers_of obj in
  let D := document_bytes (flags_of obj) (trigger_of obj) (resub (opt_text obj k_strip_fn))
                          (resub (opt_text obj k_strip_mac)) (resub (opt_text obj k_strip_mem)) H in
  let PATS := patterns_of obj in
  py_run (main env (source_document resub pathspec_match world_of) toks)
  = finish (run_inputs (map (fun input =>
      Walk.document W H D
        (excl_with_output_links (pathspec_match PATS input) (pw_out_in_input (world_of input))
                                (follow_of obj) (pw_links (world_of input)))
        (pw_base (world_of input)) (pw_kind (world_of input))) (inputs_of toks))).
Proof. exact WholeProgram.inputs_share_settings. Qed.

Theorem C17_input_sees_original_settings : forall resub pathspec_match world_of env toks obj pre f post,
  main_settings_of env toks = Some obj -> worlds_ok env toks world_of = true ->
  inputs_of toks = pre ++ f :: post ->
  forallb run_ok (map (fun x => model_document resub pathspec_match world_of x obj) pre) = true ->
  exists rest,
    acts_of (py_run (main env (source_document resub pathspec_match world_of) toks))
    = concat (map (fun x => model_document resub pathspec_match world_of x obj) pre)
      ++ model_document resub pathspec_match world_of f obj ++ rest.
Proof. exact WholeProgram.input_sees_original_settings. Qed.

Theorem C17_prefix_default_does_not_leak : forall resub pathspec_match world_of env toks obj,
  main_settings_of env toks = Some obj -> worlds_ok env toks world_of = true ->
  ws_prefix (wsettings_of obj) = None ->
  (forall input, In input (inputs_of toks) -> exists ch, pw_kind (world_of input) = KDir ch) ->
  py_run (main env (source_document resub pathspec_match world_of) toks)
  = finish (run_inputs (map (fun input =>
      Walk.document (with_prefix (wsettings_of obj) (Some (pw_base (world_of input))))
        (headers_of obj) (docfn_of resub obj)
        (excl_with_output_links (excl_of pathspec_match obj input) (pw_out_in_input (world_of input))
                                (follow_of obj) (pw_links (world_of input)))
        (pw_base (world_of input)) (pw_kind (world_of input))) (inputs_of toks))).
Proof. exact WholeProgram.prefix_default_does_not_leak. Qed.

Theorem C17_new_settings_differs_only_in_prefix : forall resub pathspec_match obj v input,
  let obj' := py_set_key k_prefix v obj in
  flags_of obj' = flags_of obj /\ trigger_of obj' = trigger_of obj /\ headers_of obj' = headers_of obj
  /\ follow_of obj' = follow_of obj /\ patterns_of obj' = patterns_of obj
  /\ docfn_of resub obj' = docfn_of resub obj
  /\ excl_of pathspec_match obj' input = excl_of pathspec_match obj input
  /\ wsettings_of obj'
     = with_prefix (wsettings_of obj) (match v with CStr x => Some x | _ => None end).
Proof. exact WholeProgram.new_settings_differs_only_in_prefix. Qed.

End WholeProgramCitations.
Print Assumptions C17_whole_program_run.
Print Assumptions C17_inputs_share_settings.
Print Assumptions C17_input_sees_original_settings.
Print Assumptions C17_prefix_default_does_not_leak.
Print Assumptions C17_new_settings_differs_only_in_prefix.
