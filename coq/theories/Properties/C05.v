(* Properties/C05.v -- Every valid CMake file is accepted, with CMake's argument boundaries.
   Only theorem statements; proofs are in Proofs/ParserFacts.v, LexerFacts.v, AggInv.v,
   CleanFacts.v (GrammarFacts.v adds the reference-grammar round trip).  Partial: real CMake is an
   oracle (cmake -P, CMake's own modules), not modelled. *)
From Coq Require Import String List NArith.
From CMinx Require Import Base.Str Model.Lexer Model.Parser Model.DocTypes Model.Aggregator
     Model.Pipeline Spec.AggSpec Proofs.LexerFacts Proofs.ParserFacts Proofs.AggInv
     Proofs.CleanFacts.
Import ListNotations.

(* UTF-8 text: decoding is total on encodings of scalar values and the inverse of encoding *)
Theorem C05_utf8_roundtrip :
  forall x, forallb is_scalar x = true -> utf8_decode (utf8_encode x) = Some x.
Proof. exact utf8_roundtrip. Qed.
Print Assumptions C05_utf8_roundtrip.

Theorem C05_bom_accepted :
  forall x, forallb is_scalar x = true ->
    decode_source (239 :: 187 :: 191 :: utf8_encode x)%N = Some x.
Proof. exact decode_source_bom. Qed.
Print Assumptions C05_bom_accepted.

(* the parser: accepted token sequences and well-formed trees are in bijection; the tree holds
   every argument in order (same argument boundaries as the token sequence) *)
Theorem C05_parse_bijection :
  (forall ts f, Forall tok_canon ts -> parse ts = Some f -> wf_file f = true /\ unparse_file f = ts)
  /\ (forall f, wf_file f = true -> Forall tok_canon (unparse_file f) /\ parse (unparse_file f) = Some f).
Proof. exact parse_bijection. Qed.
Print Assumptions C05_parse_bijection.

(* identifiers are lexed as themselves before any delimiter *)
Theorem C05_identifier_token :
  forall a r rest, is_ident_start a = true -> forallb is_ident_char r = true ->
    ident_delim rest = true -> best ((a :: r) ++ rest) = Some (TIdent, length (a :: r)).
Proof. exact best_ident_delim. Qed.
Print Assumptions C05_identifier_token.

(* a quoted piece is always a terminated quoted argument *)
Theorem C05_quoted_piece_shape :
  forall x n, best x = Some (TQuoted, n) ->
    (exists r, x = dq :: r) /\ 2 <= n /\ nth_error x (n - 1) = Some dq.
Proof. exact quoted_piece_shape. Qed.
Print Assumptions C05_quoted_piece_shape.

(* processed to completion: under default settings the aggregator raises exactly when the
   one-pass specification does, i.e. on an unbalanced end command / class end or a function()
   without a name -- never on a balanced file *)
Theorem C05_crash_iff_spec_none :
  forall trigger strip_fn strip_mac strip_mem f,
    aggregate default_flags trigger strip_fn strip_mac strip_mem f = Crash <-> expected_keys f = None.
Proof. exact crash_iff_spec_none. Qed.
Print Assumptions C05_crash_iff_spec_none.
