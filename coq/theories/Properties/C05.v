(* Properties/C05.v -- Every valid CMake file is accepted, with CMake's argument boundaries.
   Only theorem statements; proofs are in Proofs/ParserFacts.v, LexerFacts.v, AggInv.v,
   CleanFacts.v (GrammarFacts.v adds the reference-grammar round trip).  Partial: real CMake is an
   oracle (cmake -P, CMake's own modules), not modelled. *)
From Coq Require Import String List NArith.
From CMinx Require Import Base.Str Model.Lexer Model.Parser Model.DocTypes Model.Aggregator
     Model.Pipeline Spec.AggSpec Spec.CMakeGrammar Proofs.LexerFacts Proofs.ParserFacts Proofs.AggInv
     Proofs.CleanFacts Proofs.LayoutFacts Proofs.GrammarFacts Proofs.NoCrashFacts
     Gen.GrammarSource Proofs.GrammarBaseline Proofs.GrammarPins.
Import ListNotations.

(* UTF-8 text: decoding is total on encodings of scalar values and the inverse of encoding *)
Theorem C05_utf8_roundtrip :
  forall x, forallb is_scalar x = true -> utf8_decode (utf8_encode x) = Some x.
Proof. exact utf8_roundtrip. Qed.
Print Assumptions C05_utf8_roundtrip.

Theorem C05_bom_accepted :
  forall x, forallb is_scalar x = true ->
    decode_source (239 :: 187 :: 191 :: utf8_encode x)%N = Some x.
Proof. exact decode_source_bom. Qed.
Print Assumptions C05_bom_accepted.

(* the parser: accepted token sequences and well-formed trees are in bijection; the tree holds
   every argument in order (same argument boundaries as the token sequence) *)
Theorem C05_parse_bijection :
  (forall ts f, Forall tok_canon ts -> parse ts = Some f -> wf_file f = true /\ unparse_file f = ts)
  /\ (forall f, wf_file f = true -> Forall tok_canon (unparse_file f) /\ parse (unparse_file f) = Some f).
Proof. exact parse_bijection. Qed.
Print Assumptions C05_parse_bijection.

(* identifiers are lexed as themselves before any delimiter *)
Theorem C05_identifier_token :
  forall a r rest, is_ident_start a = true -> forallb is_ident_char r = true ->
    ident_delim rest = true -> best ((a :: r) ++ rest) = Some (TIdent, length (a :: r)).
Proof. exact best_ident_delim. Qed.
Print Assumptions C05_identifier_token.

(* a quoted piece is always a terminated quoted argument *)
Theorem C05_quoted_piece_shape :
  forall x n, best x = Some (TQuoted, n) ->
    (exists r, x = dq :: r) /\ 2 <= n /\ nth_error x (n - 1) = Some dq.
Proof. exact quoted_piece_shape. Qed.
Print Assumptions C05_quoted_piece_shape.

(* processed to completion: under default settings the aggregator raises exactly when the
   one-pass specification does, i.e. on an unbalanced end command / class end or a function()
   without a name -- never on a balanced file *)
Theorem C05_crash_iff_spec_none :
  forall trigger strip_fn strip_mac strip_mem f,
    aggregate default_flags trigger strip_fn strip_mac strip_mem f = Crash <-> expected_keys f = None.
Proof. exact crash_iff_spec_none. Qed.
Print Assumptions C05_crash_iff_spec_none.

(* the reference grammar (Spec/CMakeGrammar.v: an abstract syntax of cmake-language(7) command
   invocations with unquoted, quoted, bracket (any level) and parenthesised arguments and escape
   sequences, written from the manual independently of CMake.g4): every well-formed file, printed
   canonically, is lexed and parsed, and the invocations CMinx sees -- names and argument
   boundaries -- are those of the reference syntax *)
Theorem C05_valid_cmake_accepted :
  forall a, wf_gfile a = true ->
    exists ts f, lex (print_gfile a) = LexOk ts /\ parse ts = Some f
                 /\ invocations_of_cfile f = invocations a.
Proof. exact valid_cmake_accepted. Qed.
Print Assumptions C05_valid_cmake_accepted.

(* ... and under any amount of whitespace added before the file and at any piece boundary *)
Theorem C05_valid_cmake_accepted_any_spacing :
  forall a, wf_gfile a = true ->
    exists ps, lex_all (print_gfile a) = LexOk ps /\
    forall lead gaps,
      forallb is_ws lead = true -> Forall (fun g => forallb is_ws g = true) gaps ->
      exists ts f, lex (lead ++ respace ps gaps) = LexOk ts /\ parse ts = Some f
                   /\ invocations_of_cfile f = invocations a.
Proof. exact valid_cmake_accepted_any_spacing. Qed.
Print Assumptions C05_valid_cmake_accepted_any_spacing.

(* processed to completion: a file whose function/macro and class blocks are balanced (nested
   view of Spec/AggSpec.v) and whose block headers carry a name never makes the aggregator raise *)
Theorem C05_balanced_file_never_crashes :
  forall trigger sf sm sme f nodes,
    f_elems f = flatten_all nodes -> wf_nodes nodes = true -> hdrs_named nodes = true ->
    aggregate default_flags trigger sf sm sme f <> Crash.
Proof. exact balanced_file_never_crashes. Qed.
Print Assumptions C05_balanced_file_never_crashes.

(* ---- the grammar: CMake.g4 and the generated lexer/parser (serialised ATN) that run now are those
   the model's lexer and parser were written from and validated against; the model's rule order,
   token numbering and skip set are the grammar's (Gen/GrammarSource.v regenerated every run) ---- *)
Theorem C05_grammar_unchanged :
  g4_rules = base_g4_rules /\ lexer_atn = base_lexer_atn /\ parser_atn = base_parser_atn.
Proof. exact (conj g4_rules_unchanged (conj lexer_atn_unchanged (proj2 parser_unchanged))). Qed.
Print Assumptions C05_grammar_unchanged.

Theorem C05_model_rules_are_grammar_rules :
  map (fun r => kind_name (fst r)) rules = token_rule_names
  /\ map (fun r => kind_id (fst r)) rules = seq 1 (length token_rule_names)
  /\ map (fun r => kind_name (fst r)) (filter (fun r => skipped (fst r)) rules) = g4_skipped.
Proof. exact (conj model_rules_are_grammar_rules (conj model_token_numbers model_skip_set)). Qed.
Print Assumptions C05_model_rules_are_grammar_rules.

(* the generated lexer / parser / listener modules and the error listeners are (up to layout, comments,
   docstrings) the code the model was validated against; every context class dispatches to the listener
   method of its rule; the aggregator overrides exactly the four enter callbacks agg_step composes *)
Theorem C05_parser_code_unchanged :
  parser_package_digests = base_parser_package_digests
  /\ parser_dispatch = base_parser_dispatch
  /\ aggregator_listener_methods
     = [s"enterDocumented_command"; s"enterCommand_invocation"; s"enterDocumented_module"; s"enterBracket_doccomment"].
Proof. exact (conj parser_package_unchanged (conj parser_dispatch_unchanged aggregator_listener_methods_unchanged)). Qed.
Print Assumptions C05_parser_code_unchanged.
