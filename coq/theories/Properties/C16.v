(* Properties/C16.v -- Settings layer as command line > -s file > user config > defaults.
   Only theorem statements; proofs are in Proofs/ConfigFacts.v.  The option table (template), the
   packaged defaults (yaml_defaults), the dataclass fields, the argparse table (cli_table) and the
   stacking order come from Gen/ConfigData.v, which is regenerated from config.py,
   config_default.yaml and __init__.py on every run: the theorems that mention them are re-checked
   against the current source. confuse itself is validated against the model by the harness. *)
From Coq Require Import String List.
From CMinx Require Import Base.Str Model.Path Model.Config Gen.ConfigData Proofs.ConfigFacts.
Import ListNotations.

(* the value in effect is the one from the highest-priority source that sets the option *)
Theorem C16_resolve_first_setting_source :
  forall stack key v src,
    resolve stack key = Some (v, src)
    <-> exists pre post, stack = pre ++ src :: post /\ assoc key (src_vals src) = Some v
                         /\ Forall (unset key) pre.
Proof. exact resolve_first_setting_source. Qed.
Print Assumptions C16_resolve_first_setting_source.

Theorem C16_effective_highest_priority :
  forall cwd rc pre src post key ty v,
    Forall (unset key) pre -> assoc key (src_vals src) = Some v ->
    effective cwd rc (pre ++ src :: post) key ty = convert cwd rc ty (Some (v, src)).
Proof. exact effective_highest_priority. Qed.
Print Assumptions C16_effective_highest_priority.

Theorem C16_cli_wins :
  forall cwd rc args sfile user defaults key ty v,
    assoc key (src_vals args) = Some v ->
    effective cwd rc [args; sfile; user; defaults] key ty = convert cwd rc ty (Some (v, args)).
Proof. exact cli_wins. Qed.
Print Assumptions C16_cli_wins.

Theorem C16_sfile_wins_over_user :
  forall cwd rc args sfile user defaults key ty v,
    unset key args -> assoc key (src_vals sfile) = Some v ->
    effective cwd rc [args; sfile; user; defaults] key ty = convert cwd rc ty (Some (v, sfile)).
Proof. exact sfile_wins_over_user. Qed.
Print Assumptions C16_sfile_wins_over_user.

Theorem C16_user_wins_over_defaults :
  forall cwd rc args sfile user defaults key ty v,
    unset key args -> unset key sfile -> assoc key (src_vals user) = Some v ->
    effective cwd rc [args; sfile; user; defaults] key ty = convert cwd rc ty (Some (v, user)).
Proof. exact user_wins_over_defaults. Qed.
Print Assumptions C16_user_wins_over_defaults.

(* an option set nowhere takes the default of config_default.yaml *)
Theorem C16_default_value_when_unset :
  forall cwd rc args sfile user key ty v,
    unset key args -> unset key sfile -> unset key user -> assoc key yaml_defaults = Some v ->
    effective cwd rc [args; sfile; user; defaults_src] key ty
    = convert cwd rc ty (Some (v, defaults_src)).
Proof. exact default_value_when_unset. Qed.
Print Assumptions C16_default_value_when_unset.

(* main() stacks the -s file and then the arguments on top of user config and defaults *)
Theorem C16_stacking_order : stacking_order = [SrcFile; SrcArgs].
Proof. exact stacking_order_is_file_then_args. Qed.
Print Assumptions C16_stacking_order.

(* every option of the current template has a well-typed default in the current YAML (or may be absent) *)
Theorem C16_defaults_complete_and_well_typed :
  forall cwd k ty, In (k, ty) template -> exists v, effective cwd false [defaults_src] k ty = COk v.
Proof. exact defaults_complete_and_well_typed. Qed.
Print Assumptions C16_defaults_complete_and_well_typed.

Theorem C16_dataclass_fields_match_template :
  forall sec fields, In (sec, fields, true) dataclass_fields ->
  forall k, In k (field_paths sec fields) <-> In k (section_keys sec).
Proof. exact dataclass_fields_match_template. Qed.
Print Assumptions C16_dataclass_fields_match_template.

(* command-line flags set option paths of the template, and only the flags given *)
Theorem C16_cli_dests_are_option_paths :
  forall a, In a cli_table -> mem_str (a_dest a) non_option_dests = false ->
    In (a_dest a) (map fst template).
Proof. exact cli_dests_are_option_paths. Qed.
Print Assumptions C16_cli_dests_are_option_paths.

Theorem C16_absent_flag_sets_nothing : forallb a_default_none cli_table = true.
Proof. exact absent_flag_sets_nothing. Qed.
Print Assumptions C16_absent_flag_sets_nothing.

Theorem C16_cli_source_only_given_flags :
  forall toks p, parse_args cli_table toks = Some p ->
  forall k v, In (k, v) (src_vals (args_source cli_table p)) ->
  exists t a, In t toks /\ In a cli_table /\ mem_str t (a_flags a) = true /\ a_dest a = k.
Proof. exact cli_source_only_given_flags. Qed.
Print Assumptions C16_cli_source_only_given_flags.

(* a value of the wrong type is rejected, not replaced by a lower source or the default *)
Theorem C16_wrong_type_rejected :
  forall cwd rc ty v src, yval_has_type ty v = false -> known_exception ty v = false ->
    convert cwd rc ty (Some (v, src)) = CTypeError.
Proof. exact wrong_type_rejected. Qed.
Print Assumptions C16_wrong_type_rejected.

Theorem C16_wrong_type_not_replaced :
  forall cwd pre src post k ty v, In (k, ty) template -> Forall (unset k) pre ->
    assoc k (src_vals src) = Some v -> yval_has_type ty v = false ->
    known_exception ty v = false ->
    settings_of cwd (pre ++ src :: post) template = None.
Proof. exact wrong_type_not_replaced. Qed.
Print Assumptions C16_wrong_type_not_replaced.

(* the two places where the TEMPLATE accepts a value outside the option's type *)
Theorem C16_known_exception_spec :
  forall ty v, known_exception ty v = true
    <-> (ty = TOptSeq /\ is_ystr v = true) \/ (ty = TStrSeq /\ is_ymap v = true).
Proof. exact known_exception_spec. Qed.
Print Assumptions C16_known_exception_spec.

(* (1) a string for exclude_filters passes the template (a str is a Sequence) ... *)
Theorem C16_exclude_filters_string_accepted_by_template_alone :
  forall cwd rc x src, yval_has_type TOptSeq (YStr x) = false
                       /\ convert cwd rc TOptSeq (Some (YStr x, src)) = COk (CStrs []).
Proof. exact exclude_filters_string_accepted_by_template_alone. Qed.
Print Assumptions C16_exclude_filters_string_accepted_by_template_alone.

(* ... but main() validates the exclude patterns of EVERY source (after the repair of F15): a value
   that is not a list of strings, in any source, is rejected *)
Theorem C16_exclude_wrong_type_rejected :
  forall stack key,
    (exists src v, In src stack /\ assoc key (src_vals src) = Some v /\ excl_value_ok v = false) ->
    all_contents stack key = None.
Proof. exact exclude_wrong_type_rejected. Qed.
Print Assumptions C16_exclude_wrong_type_rejected.

Theorem C16_exclude_accepted_iff_all_sources_ok :
  forall stack key, all_contents stack key <> None <-> forallb (excl_src_ok key) stack = true.
Proof. exact exclude_accepted_iff_all_sources_ok. Qed.
Print Assumptions C16_exclude_accepted_iff_all_sources_ok.

(* (2) known finding F27: a mapping given for rst.headers is accepted, its keys are used *)
Theorem C16_headers_mapping_is_accepted_refuted :
  forall cwd rc, exists ks src, yval_has_type TStrSeq (YMap ks) = false
                                /\ convert cwd rc TStrSeq (Some (YMap ks, src)) = COk (CStrs ks).
Proof. exact C16_headers_mapping_refuted. Qed.
Print Assumptions C16_headers_mapping_is_accepted_refuted.

Theorem C16_well_typed_settings_accepted :
  forall cwd upper, forallb (src_well_typed template) upper = true ->
    settings_of cwd (upper ++ [defaults_src]) template <> None.
Proof. exact settings_total_on_well_typed. Qed.
Print Assumptions C16_well_typed_settings_accepted.

(* exclude patterns: the union over all sources, highest priority first *)
Theorem C16_exclude_is_union :
  forall stack key, forallb (excl_src_ok key) stack = true ->
    all_contents stack key = Some (expected_union key stack).
Proof. exact exclude_is_union. Qed.
Print Assumptions C16_exclude_is_union.

(* a relative output directory: against the cwd, or against the directory of the configuration
   file that sets it when relative_to_config is true *)
Theorem C16_output_dir_resolution :
  forall cwd rc pre src post p, isabs cwd = true ->
    Forall (unset (s"output.directory")) pre ->
    assoc (s"output.directory") (src_vals src) = Some (YStr p) ->
    effective cwd rc (pre ++ src :: post) (s"output.directory") TOptFilename
    = COk (CStr (expected_output_dir cwd rc p src)).
Proof. exact output_dir_resolution. Qed.
Print Assumptions C16_output_dir_resolution.
