(* Properties/C16.v -- Settings layer as command line > -s file > user config > defaults.
   Only theorem statements; proofs are in Proofs/ConfigFacts.v.  The option table (template), the
   packaged defaults (yaml_defaults), the dataclass fields, the argparse table (cli_table) and the
   stacking order come from Gen/ConfigData.v, which is regenerated from config.py,
   config_default.yaml and __init__.py on every run: the theorems that mention them are re-checked
   against the current source. confuse itself is validated against the model by the harness. *)
From Coq Require Import String List.
From CMinx Require Import Base.Str Model.Path Model.Config Gen.ConfigData Proofs.ConfigFacts
     Model.Walk Base.PyMainSem Gen.PyMainSource Proofs.MainSourceMatch.
Import ListNotations.

(* the value in effect is the one from the highest-priority source that sets the option *)
Theorem C16_resolve_first_setting_source :
  forall stack key v src,
    resolve stack key = Some (v, src)
    <-> exists pre post, stack = pre ++ src :: post /\ assoc key (src_vals src) = Some v
                         /\ Forall (unset key) pre.
Proof. exact resolve_first_setting_source. Qed.
Print Assumptions C16_resolve_first_setting_source.

Theorem C16_effective_highest_priority :
  forall cwd rc pre src post key ty v,
    Forall (unset key) pre -> assoc key (src_vals src) = Some v ->
    effective cwd rc (pre ++ src :: post) key ty = convert cwd rc ty (Some (v, src)).
Proof. exact effective_highest_priority. Qed.
Print Assumptions C16_effective_highest_priority.

Theorem C16_cli_wins :
  forall cwd rc args sfile user defaults key ty v,
    assoc key (src_vals args) = Some v ->
    effective cwd rc [args; sfile; user; defaults] key ty = convert cwd rc ty (Some (v, args)).
Proof. exact cli_wins. Qed.
Print Assumptions C16_cli_wins.

Theorem C16_sfile_wins_over_user :
  forall cwd rc args sfile user defaults key ty v,
    unset key args -> assoc key (src_vals sfile) = Some v ->
    effective cwd rc [args; sfile; user; defaults] key ty = convert cwd rc ty (Some (v, sfile)).
Proof. exact sfile_wins_over_user. Qed.
Print Assumptions C16_sfile_wins_over_user.

Theorem C16_user_wins_over_defaults :
  forall cwd rc args sfile user defaults key ty v,
    unset key args -> unset key sfile -> assoc key (src_vals user) = Some v ->
    effective cwd rc [args; sfile; user; defaults] key ty = convert cwd rc ty (Some (v, user)).
Proof. exact user_wins_over_defaults. Qed.
Print Assumptions C16_user_wins_over_defaults.

(* an option set nowhere takes the default of config_default.yaml *)
Theorem C16_default_value_when_unset :
  forall cwd rc args sfile user key ty v,
    unset key args -> unset key sfile -> unset key user -> assoc key yaml_defaults = Some v ->
    effective cwd rc [args; sfile; user; defaults_src] key ty
    = convert cwd rc ty (Some (v, defaults_src)).
Proof. exact default_value_when_unset. Qed.
Print Assumptions C16_default_value_when_unset.

(* main() stacks the -s file and then the arguments on top of user config and defaults *)
Theorem C16_stacking_order : stacking_order = [SrcFile; SrcArgs].
Proof. exact stacking_order_is_file_then_args. Qed.
Print Assumptions C16_stacking_order.

(* every option of the current template has a well-typed default in the current YAML (or may be absent) *)
Theorem C16_defaults_complete_and_well_typed :
  forall cwd k ty, In (k, ty) template -> exists v, effective cwd false [defaults_src] k ty = COk v.
Proof. exact defaults_complete_and_well_typed. Qed.
Print Assumptions C16_defaults_complete_and_well_typed.

Theorem C16_dataclass_fields_match_template :
  forall sec fields, In (sec, fields, true) dataclass_fields ->
  forall k, In k (field_paths sec fields) <-> In k (section_keys sec).
Proof. exact dataclass_fields_match_template. Qed.
Print Assumptions C16_dataclass_fields_match_template.

(* command-line flags set option paths of the template, and only the flags given *)
Theorem C16_cli_dests_are_option_paths :
  forall a, In a cli_table -> mem_str (a_dest a) non_option_dests = false ->
    In (a_dest a) (map fst template).
Proof. exact cli_dests_are_option_paths. Qed.
Print Assumptions C16_cli_dests_are_option_paths.

Theorem C16_absent_flag_sets_nothing : forallb a_default_none cli_table = true.
Proof. exact absent_flag_sets_nothing. Qed.
Print Assumptions C16_absent_flag_sets_nothing.

Theorem C16_cli_source_only_given_flags :
  forall toks p, parse_args cli_table toks = Some p ->
  forall k v, In (k, v) (src_vals (args_source cli_table p)) ->
  exists t a, In t toks /\ In a cli_table /\ mem_str t (a_flags a) = true /\ a_dest a = k.
Proof. exact cli_source_only_given_flags. Qed.
Print Assumptions C16_cli_source_only_given_flags.

(* a value of the wrong type is rejected, not replaced by a lower source or the default.
   The next two statements are about the TEMPLATE (settings.get) and carry the side condition
   known_exception = false; the two exceptions are closed by the checks main() makes itself, so
   that at the level of main() no exception is left: C16_wrong_type_rejected_by_main below *)
Theorem C16_wrong_type_rejected :
  forall cwd rc ty v src, yval_has_type ty v = false -> known_exception ty v = false ->
    convert cwd rc ty (Some (v, src)) = CTypeError.
Proof. exact wrong_type_rejected. Qed.
Print Assumptions C16_wrong_type_rejected.

Theorem C16_wrong_type_not_replaced :
  forall cwd pre src post k ty v, In (k, ty) template -> Forall (unset k) pre ->
    assoc k (src_vals src) = Some v -> yval_has_type ty v = false ->
    known_exception ty v = false ->
    settings_of cwd (pre ++ src :: post) template = None.
Proof. exact wrong_type_not_replaced. Qed.
Print Assumptions C16_wrong_type_not_replaced.

(* the two places where the TEMPLATE accepts a value outside the option's type *)
Theorem C16_known_exception_spec :
  forall ty v, known_exception ty v = true
    <-> (ty = TOptSeq /\ is_ystr v = true) \/ (ty = TStrSeq /\ is_ymap v = true).
Proof. exact known_exception_spec. Qed.
Print Assumptions C16_known_exception_spec.

(* (1) a string for exclude_filters passes the template (a str is a Sequence) ... *)
Theorem C16_exclude_filters_string_accepted_by_template_alone :
  forall cwd rc x src, yval_has_type TOptSeq (YStr x) = false
                       /\ convert cwd rc TOptSeq (Some (YStr x, src)) = COk (CStrs []).
Proof. exact exclude_filters_string_accepted_by_template_alone. Qed.
Print Assumptions C16_exclude_filters_string_accepted_by_template_alone.

(* ... but main() validates the exclude patterns of EVERY source (after the repair of F15): a value
   that is not a list of strings, in any source, is rejected *)
Theorem C16_exclude_wrong_type_rejected :
  forall stack key,
    (exists src v, In src stack /\ assoc key (src_vals src) = Some v /\ excl_value_ok v = false) ->
    all_contents stack key = None.
Proof. exact exclude_wrong_type_rejected. Qed.
Print Assumptions C16_exclude_wrong_type_rejected.

Theorem C16_exclude_accepted_iff_all_sources_ok :
  forall stack key, all_contents stack key <> None <-> forallb (excl_src_ok key) stack = true.
Proof. exact exclude_accepted_iff_all_sources_ok. Qed.
Print Assumptions C16_exclude_accepted_iff_all_sources_ok.

(* (2) finding F27, about the TEMPLATE ALONE: StrSeq accepts a mapping given for rst.headers and
   would use its keys (behaviour of the confuse library, kept as it is in the model of the template).
   This is no longer a statement about a run of cminx: since the repair of F27 main() itself rejects
   the mapping right after settings.get -- C16_headers_mapping_rejected_by_main below *)
Theorem C16_headers_mapping_is_accepted_refuted :
  forall cwd rc, exists ks src, yval_has_type TStrSeq (YMap ks) = false
                                /\ convert cwd rc TStrSeq (Some (YMap ks, src)) = COk (CStrs ks).
Proof. exact C16_headers_mapping_refuted. Qed.
Print Assumptions C16_headers_mapping_is_accepted_refuted.

(* ... main() checks the raw winning value of rst.headers (view.get() without a template) and raises
   ConfigTypeError when it is a mapping.  main_accepts = settings.get(template) succeeds, and the
   rst.headers check passes, and the exclude-filter loop passes (the three places where main() can
   reject a configuration, in source order) *)
Theorem C16_main_accepts_spec :
  forall cwd stack,
    main_accepts cwd stack = true
    <-> settings_of cwd stack template <> None /\ headers_ok stack = true
        /\ all_contents stack (s"input.exclude_filters") <> None.
Proof. exact main_accepts_spec. Qed.
Print Assumptions C16_main_accepts_spec.

Theorem C16_headers_mapping_rejected_by_main :
  forall cwd pre src post ks,
    Forall (unset (s"rst.headers")) pre ->
    assoc (s"rst.headers") (src_vals src) = Some (YMap ks) ->
    headers_ok (pre ++ src :: post) = false /\ main_accepts cwd (pre ++ src :: post) = false.
Proof. exact headers_mapping_rejected_by_main. Qed.
Print Assumptions C16_headers_mapping_rejected_by_main.

(* the new check rejects nothing else: with a list, a string, any non-mapping value or no value for
   rst.headers, main() accepts exactly what the template and the exclude loop accept *)
Theorem C16_headers_list_or_string_not_affected :
  forall stack,
    match resolve stack (s"rst.headers") with
    | Some (v, _) => is_ymap v = false
    | None => True
    end ->
    headers_ok stack = true
    /\ forall cwd, main_accepts cwd stack
                   = match settings_of cwd stack template,
                           all_contents stack (s"input.exclude_filters") with
                     | Some _, Some _ => true
                     | _, _ => false
                     end.
Proof. exact headers_list_or_string_not_affected. Qed.
Print Assumptions C16_headers_list_or_string_not_affected.

(* the summary, without side condition: NO value of the wrong type, as the winning value of ANY
   option of the current template, is accepted by main() (F15 and F27 are both closed) *)
Theorem C16_wrong_type_rejected_by_main :
  forall cwd stack k ty v src,
    In (k, ty) template -> yval_has_type ty v = false -> resolve stack k = Some (v, src) ->
    main_accepts cwd stack = false.
Proof. exact wrong_type_rejected_by_main. Qed.
Print Assumptions C16_wrong_type_rejected_by_main.

Theorem C16_main_total_on_well_typed :
  forall cwd upper,
    forallb (src_well_typed template) upper = true ->
    forallb (excl_src_ok (s"input.exclude_filters")) upper = true ->
    settings_of cwd (upper ++ [defaults_src]) template <> None
    /\ headers_ok (upper ++ [defaults_src]) = true
    /\ all_contents (upper ++ [defaults_src]) (s"input.exclude_filters")
       = Some (expected_union (s"input.exclude_filters") (upper ++ [defaults_src]))
    /\ main_accepts cwd (upper ++ [defaults_src]) = true.
Proof. exact main_total_on_well_typed. Qed.
Print Assumptions C16_main_total_on_well_typed.

Theorem C16_well_typed_settings_accepted :
  forall cwd upper, forallb (src_well_typed template) upper = true ->
    settings_of cwd (upper ++ [defaults_src]) template <> None.
Proof. exact settings_total_on_well_typed. Qed.
Print Assumptions C16_well_typed_settings_accepted.

(* exclude patterns: the union over all sources, highest priority first *)
Theorem C16_exclude_is_union :
  forall stack key, forallb (excl_src_ok key) stack = true ->
    all_contents stack key = Some (expected_union key stack).
Proof. exact exclude_is_union. Qed.
Print Assumptions C16_exclude_is_union.

(* a relative output directory: against the cwd, or against the directory of the configuration
   file that sets it when relative_to_config is true *)
Theorem C16_output_dir_resolution :
  forall cwd rc pre src post p, isabs cwd = true ->
    Forall (unset (s"output.directory")) pre ->
    assoc (s"output.directory") (src_vals src) = Some (YStr p) ->
    effective cwd rc (pre ++ src :: post) (s"output.directory") TOptFilename
    = COk (CStr (expected_output_dir cwd rc p src)).
Proof. exact output_dir_resolution. Qed.
Print Assumptions C16_output_dir_resolution.

(* pymain2coq: the control flow of main() as regenerated from src/cminx/__init__.py on every run
   (argument parsing, stacking of the sources, template validation, the rst.headers check, the
   exclude-filter loop, the loop over the inputs) equals the specification model_main, for every environment, document
   function and argument vector. *)
Theorem C16_main_matches_source :
  forall env document toks, py_run (main env document toks) = model_main env document toks.
Proof. exact main_matches_source. Qed.
Print Assumptions C16_main_matches_source.

Theorem C16_wrong_exclude_type_nothing_documented : forall env document toks p stack src v,
  parse_args cli_table toks = Some p ->
  consulted env p = Some stack ->
  In src stack -> assoc excl_key (src_vals src) = Some v -> excl_value_ok v = false ->
  py_run (main env document toks)
  = Raised (match settings_of (env_cwd env) stack template with
            | None => ExcConfig
            | Some _ => config_type_error
            end) [].
Proof. exact wrong_exclude_type_nothing_documented. Qed.
Print Assumptions C16_wrong_exclude_type_nothing_documented.

Theorem C16_wrong_exclude_type_document_not_called : forall env document document' toks p stack src v,
  parse_args cli_table toks = Some p ->
  consulted env p = Some stack ->
  In src stack -> assoc excl_key (src_vals src) = Some v -> excl_value_ok v = false ->
  py_run (main env document toks) = py_run (main env document' toks)
  /\ acts_of (py_run (main env document toks)) = [].
Proof. exact wrong_exclude_type_document_not_called. Qed.
Print Assumptions C16_wrong_exclude_type_document_not_called.

(* the rst.headers check as translated from the source: a mapping as the winning value -> main()
   raises, nothing is documented *)
Theorem C16_headers_mapping_nothing_documented : forall env document toks p stack ks src,
  parse_args cli_table toks = Some p ->
  consulted env p = Some stack ->
  resolve stack (s"rst.headers") = Some (YMap ks, src) ->
  py_run (main env document toks)
  = Raised (match settings_of (env_cwd env) stack template with
            | None => ExcConfig
            | Some _ => config_type_error
            end) [].
Proof. exact headers_mapping_nothing_documented. Qed.
Print Assumptions C16_headers_mapping_nothing_documented.

(* main_accepts is exactly the condition under which the translated main() raises nothing *)
Theorem C16_main_raises_iff_not_accepted : forall env document toks p stack,
  parse_args cli_table toks = Some p ->
  consulted env p = Some stack ->
  (main_accepts (env_cwd env) stack = false <-> exists e, py_run (main env document toks) = Raised e [])
  /\ (main_accepts (env_cwd env) stack = true ->
      exists st ex, settings_of (env_cwd env) stack template = Some st /\ exclude_strs stack = Some ex
        /\ py_run (main env document toks)
           = finish (run_inputs (map (fun f => document f (settings_object st ex)) (p_positional p)))).
Proof. exact main_raises_iff_not_accepted. Qed.
Print Assumptions C16_main_raises_iff_not_accepted.

Theorem C16_wrong_type_nothing_documented : forall env document toks p stack k ty v src,
  parse_args cli_table toks = Some p ->
  consulted env p = Some stack ->
  In (k, ty) template -> yval_has_type ty v = false -> resolve stack k = Some (v, src) ->
  exists e, py_run (main env document toks) = Raised e []
            /\ In e [ExcConfig; config_type_error].
Proof. exact wrong_type_nothing_documented. Qed.
Print Assumptions C16_wrong_type_nothing_documented.

Theorem C16_main_exceptions : forall env document toks e acts,
  py_run (main env document toks) = Raised e acts ->
  acts = [] /\ In e [ExcArgparseExit; ExcConfigRead; ExcConfig; config_type_error].
Proof. exact main_exceptions. Qed.
Print Assumptions C16_main_exceptions.

Theorem C16_accepted_object_options : forall stack st,
  assoc excl_key (accepted_object stack st) = Some (CStrs (strs_of (expected_union excl_key stack)))
  /\ (forall k, str_eqb k excl_key = false -> assoc k (accepted_object stack st) = assoc k st).
Proof. exact accepted_object_options. Qed.
Print Assumptions C16_accepted_object_options.

Theorem C16_file_between_args_and_user : forall env p f,
  main_stack env p (Some f)
  = [args_source cli_table p; f; env_user env app_name; env_defaults env app_name]
  /\ main_stack env p None
     = [args_source cli_table p; env_user env app_name; env_defaults env app_name].
Proof. exact file_between_args_and_user. Qed.
Print Assumptions C16_file_between_args_and_user.

Theorem C16_main_stack_follows_stacking_order : forall env p file,
  main_stack env p file = stack_by_order env p file.
Proof. exact main_stack_follows_stacking_order. Qed.
Print Assumptions C16_main_stack_follows_stacking_order.

Theorem C16_file_source_priority : forall env p f key ty v rc,
  let stack := main_stack env p (Some f) in
  (assoc key (src_vals (args_source cli_table p)) = Some v ->
   effective (env_cwd env) rc stack key ty
   = convert (env_cwd env) rc ty (Some (v, args_source cli_table p)))
  /\ (unset key (args_source cli_table p) -> assoc key (src_vals f) = Some v ->
      effective (env_cwd env) rc stack key ty = convert (env_cwd env) rc ty (Some (v, f)))
  /\ (unset key (args_source cli_table p) -> unset key f ->
      assoc key (src_vals (env_user env app_name)) = Some v ->
      effective (env_cwd env) rc stack key ty
      = convert (env_cwd env) rc ty (Some (v, env_user env app_name))).
Proof. exact file_source_priority. Qed.
Print Assumptions C16_file_source_priority.

Theorem C16_settings_file_absolute : forall env document toks p f,
  parse_args cli_table toks = Some p ->
  assoc (s"settings") (p_stored p) = Some f ->
  match env_load env (abspath (env_cwd env) f) with
  | None => py_run (main env document toks) = Raised ExcConfigRead []
  | Some src => py_run (main env document toks) = model_configured env document p (Some src)
  end.
Proof. exact settings_file_absolute. Qed.
Print Assumptions C16_settings_file_absolute.

(* Proofs/WholeProgram.v: the generated main() with the generated document() plugged in equals the pure model; the value resolve finds in the highest-priority source is the one every layer below is run with *)
From Coq Require NArith Bool Arith.
From CMinx Require Base.Str Base.PySem Model.Writer Model.Path Model.Naming Model.DocTypes
     Model.Aggregator Model.Pipeline Model.Walk Model.Config Gen.ConfigData
     Base.PyMainSem Base.PyWalkSem Gen.PyMainSource Gen.PyWalkSource
     Proofs.WalkFacts Proofs.RunFacts Proofs.ConfigFacts Proofs.MainSourceMatch
     Proofs.WalkSourceMatch Proofs.WholeProgram.
Section WholeProgramCitations.
Import NArith Bool Arith.
Import Base.Str Base.PySem Model.Writer Model.Path Model.Naming Model.DocTypes
     Model.Aggregator Model.Pipeline Model.Walk Model.Config Gen.ConfigData
     Base.PyMainSem Base.PyWalkSem Gen.PyMainSource Gen.PyWalkSource
     Proofs.WalkFacts Proofs.RunFacts Proofs.ConfigFacts Proofs.MainSourceMatch
     Proofs.WalkSourceMatch Proofs.WholeProgram.

Theorem C16_whole_program_matches_source : forall resub pathspec_match world_of env toks,
  worlds_ok env toks world_of = true ->
  py_run (main env (source_document resub pathspec_match world_of) toks)
  = model_main env (model_document resub pathspec_match world_of) toks.
Proof. exact WholeProgram.whole_program_matches_source. Qed.

Theorem C16_settings_reach_every_layer : forall resub pathspec_match world_of env toks p stack obj,
  parse_args cli_table toks = Some p -> consulted env p = Some stack ->
  main_settings env p = Some obj -> worlds_ok env toks world_of = true ->
  py_run (main env (source_document resub pathspec_match world_of) toks)
  = finish (run_inputs (map (fun input =>
      Walk.document (wsettings_of obj) (headers_of obj)
        (document_bytes (flags_of obj) (trigger_of obj)
                        (resub (opt_text obj k_strip_fn)) (resub (opt_text obj k_strip_mac))
                        (resub (opt_text obj k_strip_mem)) (headers_of obj))
        (excl_with_output_links (pathspec_match (patterns_of obj) input) (pw_out_in_input (world_of input))
                                (follow_of obj) (pw_links (world_of input)))
        (pw_base (world_of input)) (pw_kind (world_of input))) (p_positional p)))
  /\ ws_prefix (wsettings_of obj) = found_opt_str (resolve stack k_prefix)
  /\ ws_recursive (wsettings_of obj) = found_bool (resolve stack k_recursive)
  /\ is_found_bool (resolve stack k_recursive) = true
  /\ inc_function (flags_of obj) = found_bool (resolve stack k_inc_function)
  /\ is_found_bool (resolve stack k_inc_function) = true
  /\ headers_of obj = found_strs (resolve stack k_headers)
  /\ exclude_strs stack = Some (patterns_of obj).
Proof. exact WholeProgram.settings_reach_every_layer. Qed.

Theorem C16_every_flag_reaches_its_layer : forall env p stack obj,
  consulted env p = Some stack -> main_settings env p = Some obj ->
  let r := fun k => found_bool (resolve stack k) in
  flags_of obj
  = {| inc_function := r k_inc_function; inc_macro := r k_inc_macro; inc_cpp_class := r k_inc_cpp_class;
       inc_cpp_attr := r k_inc_cpp_attr; inc_cpp_constructor := r k_inc_cpp_constructor;
       inc_cpp_member := r k_inc_cpp_member; inc_ct_add_test := r k_inc_ct_add_test;
       inc_ct_add_section := r k_inc_ct_add_section; inc_add_test := r k_inc_add_test;
       inc_option := r k_inc_option |}
  /\ ws_recursive (wsettings_of obj) = r k_recursive
  /\ ws_auto_exclude (wsettings_of obj) = r k_auto_exclude
  /\ ws_ext_titles (wsettings_of obj) = r k_ext_titles
  /\ ws_ext_modules (wsettings_of obj) = r k_ext_modules
  /\ follow_of obj = r k_follow.
Proof. exact WholeProgram.every_flag_reaches_its_layer. Qed.

Theorem C16_rejected_configuration_runs_nothing : forall env document toks,
  main_settings_of env toks = None ->
  py_run (main env document toks) = Raised (main_error env toks) []
  /\ In (main_error env toks) [ExcArgparseExit; ExcConfigRead; ExcConfig; config_type_error].
Proof. exact WholeProgram.rejected_configuration_runs_nothing. Qed.

End WholeProgramCitations.
Print Assumptions C16_whole_program_matches_source.
Print Assumptions C16_settings_reach_every_layer.
Print Assumptions C16_every_flag_reaches_its_layer.
Print Assumptions C16_rejected_configuration_runs_nothing.
