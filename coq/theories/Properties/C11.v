(* Properties/C11.v -- Test entries carry the declared name, EXPECTFAIL flag and arguments.
   Only theorem statements; proofs are in Proofs/EntryFacts.v.  Spec: Spec/EntrySpec.v
   (name_after, other_args, ct_view, add_test_view; one_name = the keyword NAME occurs once). *)
From Coq Require Import String List NArith.
From CMinx Require Import Base.Str Model.Parser Model.Writer Model.DocTypes Model.Aggregator
     Spec.EntrySpec Gen.SourceLiterals Proofs.EntryFacts Proofs.LiteralsMatch
     Base.PySem Gen.PySource Proofs.SourceMatch.
Import ListNotations.

(* the name is the argument following NAME, at any position; None iff NAME is the last argument *)
Theorem C11_scan_name_spec :
  forall ps acc, one_name ps = true -> scan_name ps acc = name_after ps.
Proof. exact scan_name_spec. Qed.
Print Assumptions C11_scan_name_spec.

Theorem C11_has_expectfail_spec : forall ps, has_expectfail ps = mem_str EXPECTFAIL ps.
Proof. exact has_expectfail_spec. Qed.
Print Assumptions C11_has_expectfail_spec.

(* ct_add_test / ct_add_section *)
Theorem C11_process_test_spec :
  forall is_section c doc docd st,
    2 <= length (singles c) -> one_name (singles c) = true ->
    process_test is_section c doc docd st
    = match ct_view (singles c) with
      | Some (n, xf) =>
          with_awaiting (AwTop (length (documented st)))
                        (append (ETest is_section n doc xf [] false) docd st)
      | None => st
      end.
Proof. exact process_test_spec. Qed.
Print Assumptions C11_process_test_spec.

(* add_test: all other arguments, in order, by position (arguments equal to the name stay) *)
Theorem C11_process_add_test_spec :
  forall c doc docd st,
    2 <= length (singles c) -> one_name (singles c) = true ->
    process_add_test c doc docd st
    = match add_test_view (singles c) with
      | Some (n, others) => append (ECTest n doc others) docd st
      | None => st
      end.
Proof. exact process_add_test_spec. Qed.
Print Assumptions C11_process_add_test_spec.

(* rendering: EXPECTFAIL in the signature iff flagged; the matching do-not-call warning *)
Theorem C11_render_test_entry :
  forall sec n d xf ps mac,
    render_entry (ETest sec n d xf ps mac)
    = Dir (s"function") [n ++ s"(" ++ (if xf then EXPECTFAIL else []) ++ s")"] []
          [Dir (s"warning") [if sec then section_warning else test_warning] [] []; Para d].
Proof. exact render_test_entry. Qed.
Print Assumptions C11_render_test_entry.

Theorem C11_render_ctest_entry :
  forall n d ps,
    render_entry (ECTest n d ps)
    = Dir (s"function") [signature n ps] [] [Dir (s"warning") [ctest_warning] [] []; Para d].
Proof. exact render_ctest_entry. Qed.
Print Assumptions C11_render_ctest_entry.

Theorem C11_warnings_distinct :
  str_eqb test_warning section_warning = false
  /\ str_eqb test_warning ctest_warning = false
  /\ str_eqb section_warning ctest_warning = false
  /\ str_eqb test_warning generic_warning = false
  /\ str_eqb section_warning generic_warning = false
  /\ str_eqb ctest_warning generic_warning = false.
Proof. exact warnings_distinct. Qed.
Print Assumptions C11_warnings_distinct.

(* keywords and warning texts are those of the source *)
Theorem C11_keywords_pinned :
  get (s"DocumentationAggregator.process_ct_add_test") aggregator_strings
  = [[nl]; F; []; kw_name; [nl]; F; kw_expectfail]
  /\ get (s"DocumentationAggregator.process_ct_add_section") aggregator_strings
  = [[nl]; F; []; kw_name; [nl]; F; kw_expectfail]
  /\ geti (s"DocumentationAggregator.process_ct_add_test") aggregator_ints = [2; 0; 1]
  /\ geti (s"DocumentationAggregator.process_ct_add_section") aggregator_ints = [2; 0; 1].
Proof. exact ct_add_test_literals. Qed.
Print Assumptions C11_keywords_pinned.

Theorem C11_add_test_literals_pinned :
  get (s"DocumentationAggregator.process_add_test") aggregator_strings
  = [[nl]; F; []; kw_name; [nl]; F]
  /\ geti (s"DocumentationAggregator.process_add_test") aggregator_ints = [2; 1; 0; 1; 0; 1].
Proof. exact add_test_literals. Qed.
Print Assumptions C11_add_test_literals_pinned.

Theorem C11_warning_texts_pinned :
  get (s"TestDocumentation.process") doctypes_strings
  = [s"function"; F; s"("; F; kw_expectfail; []; s")"; s"warning"; test_warning]
  /\ get (s"SectionDocumentation.process") doctypes_strings
  = [s"function"; F; s"("; F; kw_expectfail; []; s")"; s"warning"; section_warning].
Proof. exact test_doc_literals. Qed.
Print Assumptions C11_warning_texts_pinned.

(* ---- tie by translation: Gen/PySource.v is regenerated from the CURRENT Python source by
   translators/py2coq.py (statement-by-statement rendering of the function into Gallina over the
   combinators of Base/PySem.v); the model function is proved equal to it for all arguments ---- *)
Theorem C11_test_process_matches_source :
  forall w name doc xf params is_macro,
    PySource.TestDocumentation_process w [] name doc xf
    = w_add w (render_entry (ETest false name doc xf params is_macro)).
Proof. exact test_process_matches_source. Qed.
Print Assumptions C11_test_process_matches_source.

Theorem C11_section_process_matches_source :
  forall w name doc xf params is_macro,
    PySource.SectionDocumentation_process w [] name doc xf
    = w_add w (render_entry (ETest true name doc xf params is_macro)).
Proof. exact section_process_matches_source. Qed.
Print Assumptions C11_section_process_matches_source.

Theorem C11_ctest_process_matches_source :
  forall w name doc params,
    PySource.CTestDocumentation_process w [] name doc params
    = w_add w (render_entry (ECTest name doc params)).
Proof. exact ctest_process_matches_source. Qed.
Print Assumptions C11_ctest_process_matches_source.

Theorem C11_process_add_test_matches_source :
  forall c doc docd st,
    documented (process_add_test c doc docd st)
    = PySource.DocumentationAggregator_process_add_test c doc (documented st).
Proof. exact process_add_test_matches_source. Qed.
Print Assumptions C11_process_add_test_matches_source.

Theorem C11_process_ct_add_test_matches_source :
  forall c doc docd st,
    (documented (process_test false c doc docd st), awaiting (process_test false c doc docd st))
    = PySource.DocumentationAggregator_process_ct_add_test c doc (documented st) (awaiting st).
Proof. exact process_ct_add_test_matches_source. Qed.
Print Assumptions C11_process_ct_add_test_matches_source.

Theorem C11_process_ct_add_section_matches_source :
  forall c doc docd st,
    (documented (process_test true c doc docd st), awaiting (process_test true c doc docd st))
    = PySource.DocumentationAggregator_process_ct_add_section c doc (documented st) (awaiting st).
Proof. exact process_ct_add_section_matches_source. Qed.
Print Assumptions C11_process_ct_add_section_matches_source.
