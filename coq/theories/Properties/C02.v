(* Properties/C02.v -- Exactly one entry per documentable command, in source order.
   Only theorem statements; proofs are in Proofs/AggInv.v (and Proofs/ParserFacts.v for the
   parser).  Model: Model/Aggregator.v (agg_step / agg_run / aggregate over the parse tree in
   walker order).  Spec: Spec/AggSpec.v -- expected_keys is a one-pass function with three small
   pieces of state (is a member/test declaration pending, how many classes / definitions are
   open) that says per command which entry kind and name it yields; it mentions none of the
   aggregator's lists or stacks. *)
From Coq Require Import String List.
From CMinx Require Import Base.Str Model.Lexer Model.Parser Model.DocTypes Model.Aggregator
     Spec.EntrySpec Spec.AggSpec Gen.SourceLiterals Proofs.AggInv Proofs.SpecLinks Proofs.LiteralsMatch
     Base.PySem Gen.PySource Proofs.SourceMatch Model.Writer
     Proofs.SourceMatch2
     Model.Pipeline Proofs.SourceMatch3
     Gen.GrammarSource Proofs.GrammarBaseline Proofs.GrammarPins.
Import ListNotations.

(* the main refinement: under default settings the entry list (kind and name, in order) of a
   file is exactly what the one-pass specification says, for every file *)
Theorem C02_entries_refine_spec :
  forall trigger strip_fn strip_mac strip_mem f st,
    aggregate default_flags trigger strip_fn strip_mac strip_mem f = Ok st ->
    expected_keys f = Some (map ekey (documented st)).
Proof. exact entries_refine_spec. Qed.
Print Assumptions C02_entries_refine_spec.

(* and the aggregator raises exactly where the specification says it must (unbalanced end
   command, function() without a name) *)
Theorem C02_crash_iff_spec_none :
  forall trigger strip_fn strip_mac strip_mem f,
    aggregate default_flags trigger strip_fn strip_mac strip_mem f = Crash
    <-> expected_keys f = None.
Proof. exact crash_iff_spec_none. Qed.
Print Assumptions C02_crash_iff_spec_none.

(* append-only: a command adds at most one entry at the end; earlier entries keep constructor,
   name, doc and position (only has_kwargs / params / member lists evolve) -- every reachable state *)
Theorem C02_step_append_only :
  forall trigger strip_fn strip_mac strip_mem fl st e st',
    agg_step fl trigger strip_fn strip_mac strip_mem st e = Ok st' ->
    exists old' new,
      documented st' = old' ++ new /\ length new <= 1
      /\ Forall2 entry_evolves (documented st) old'
      /\ length (documented st') = length (documented st) + length new.
Proof. exact agg_step_append_only. Qed.
Print Assumptions C02_step_append_only.

Theorem C02_run_keys_prefix :
  forall trigger strip_fn strip_mac strip_mem fl st es st',
    agg_run fl trigger strip_fn strip_mac strip_mem st es = Ok st' ->
    exists ks, map ekey (documented st') = map ekey (documented st) ++ ks /\ length ks <= length es.
Proof. exact agg_run_keys_prefix. Qed.
Print Assumptions C02_run_keys_prefix.

(* doccomments not followed by a command, and other commands without a doccomment, change nothing *)
Theorem C02_dangling_no_effect :
  forall trigger strip_fn strip_mac strip_mem fl st d,
    agg_step fl trigger strip_fn strip_mac strip_mem st (EDangling d) = Ok st.
Proof. exact dangling_no_effect. Qed.
Print Assumptions C02_dangling_no_effect.

Theorem C02_undocumented_other_no_effect :
  forall trigger strip_fn strip_mac strip_mem fl st c,
    lookup (lower_ascii (c_name c)) handler_table = None ->
    is_pop_kind (lower_ascii (c_name c)) = false ->
    agg_step fl trigger strip_fn strip_mac strip_mem st (ECmd c) = Ok st.
Proof. exact undocumented_other_no_effect. Qed.
Print Assumptions C02_undocumented_other_no_effect.

(* the definition implementing the preceding member / test declaration gets no entry *)
Theorem C02_claimed_definition_no_entry :
  forall trigger strip_fn strip_mac strip_mem fl st c,
    is_def_name (lower_ascii (c_name c)) = true -> awaiting st <> AwNone ->
    exists st',
      agg_step fl trigger strip_fn strip_mac strip_mem st (ECmd c) = Ok st'
      /\ length (documented st') = length (documented st)
      /\ awaiting st' = AwNone
      /\ def_stack st' = None :: def_stack st
      /\ class_stack st' = class_stack st.
Proof. exact claimed_definition_no_entry. Qed.
Print Assumptions C02_claimed_definition_no_entry.

(* any other command with a doccomment: one generic entry with the lower-cased command name and
   its arguments as written and in order (parenthesised groups included) *)
Theorem C02_documented_other_generic :
  forall trigger strip_fn strip_mac strip_mem fl d c st,
    classify (cmd_kind c) = CkOther ->
    agg_step fl trigger strip_fn strip_mac strip_mem st (EDocCmd d c)
    = Ok (append (EGeneric (cmd_kind c) (clean_doc_text d) (map arg_written (c_args c))) true st).
Proof. exact documented_other_generic. Qed.
Print Assumptions C02_documented_other_generic.

(* the model's rendering of an argument is the spec's *)
Theorem C02_generic_args_as_written : forall c, map arg_written (c_args c) = generic_args c.
Proof. exact generic_args_as_written. Qed.
Print Assumptions C02_generic_args_as_written.

(* dispatch by reflection: the process_<command> methods of the source are the handler table *)
Theorem C02_dispatch_names_pinned :
  subset reflected (s"generic_command" :: map fst handler_table) = true
  /\ subset (s"generic_command" :: map fst handler_table) reflected = true.
Proof. exact dispatch_names_match. Qed.
Print Assumptions C02_dispatch_names_pinned.

Theorem C02_enter_command_chain_pinned :
  get (s"DocumentationAggregator.enterCommand_invocation") aggregator_strings
  = [s"cpp_class"; s"cpp_end_class"; s"cmake_parse_arguments"; []; s"function"; s"macro"; [];
     s"macro"; s"endfunction"; s"endmacro"; s"set"; s"generic_command"; s"process_"; F;
     s"include_undocumented_"; F; s"process_"; F; []; s"function"; s"macro"].
Proof. exact enter_command_literals. Qed.
Print Assumptions C02_enter_command_chain_pinned.

(* ---- tie by translation: Gen/PySource.v is regenerated from the CURRENT Python source by
   translators/py2coq.py (statement-by-statement rendering of the function into Gallina over the
   combinators of Base/PySem.v); the model function is proved equal to it for all arguments ---- *)
Theorem C02_generic_process_matches_source :
  forall w name doc params,
    PySource.GenericCommandDocumentation_process w [] name doc params
    = w_add w (render_entry (EGeneric name doc params)).
Proof. exact generic_process_matches_source. Qed.
Print Assumptions C02_generic_process_matches_source.

(* the aggregator methods themselves, translated from the current aggregator.py *)
Theorem C02_argument_text_matches_source :
  forall a, arg_written a = PySource.DocumentationAggregator__argument_text a.
Proof. exact argument_text_matches_source. Qed.
Print Assumptions C02_argument_text_matches_source.

Theorem C02_process_generic_matches_source :
  forall command c doc docd st,
    documented (process_generic command c doc docd st)
    = PySource.DocumentationAggregator_process_generic_command command c doc (documented st).
Proof. exact process_generic_matches_source. Qed.
Print Assumptions C02_process_generic_matches_source.

(* py2coq batch 4: the stateful aggregator methods as regenerated from aggregator.py on every run (positions in self.documented stand for object references) equal the model *)
Theorem C02_process_function_matches_source :
  forall fl trigger strip_fn strip_mac strip_mem c doc docd st,
    result_map def_view (process_def trigger strip_fn strip_mac false c doc docd st)
    = PySource.DocumentationAggregator_process_function c doc
        (settings_of fl trigger strip_fn strip_mac strip_mem)
        (documented st) (py_def_stack (def_stack st)).
Proof. exact process_function_matches_source. Qed.
Print Assumptions C02_process_function_matches_source.

Theorem C02_process_macro_matches_source :
  forall fl trigger strip_fn strip_mac strip_mem c doc docd st,
    result_map def_view (process_def trigger strip_fn strip_mac true c doc docd st)
    = PySource.DocumentationAggregator_process_macro c doc
        (settings_of fl trigger strip_fn strip_mac strip_mem)
        (documented st) (py_def_stack (def_stack st)).
Proof. exact process_macro_matches_source. Qed.
Print Assumptions C02_process_macro_matches_source.

Theorem C02_process_def_frame :
  forall trigger strip_fn strip_mac is_macro c doc docd st st',
    process_def trigger strip_fn strip_mac is_macro c doc docd st = Ok st' ->
    class_stack st' = class_stack st /\ awaiting st' = awaiting st
    /\ origins st' = origins st ++ [docd].
Proof. exact process_def_frame. Qed.
Print Assumptions C02_process_def_frame.

Theorem C02_enterDocumented_command_matches_source :
  forall fl trigger strip_fn strip_mac strip_mem doc_text c st,
    result_map (fun st' => unghost_view (doc_view st'))
      (enter_documented trigger strip_fn strip_mac doc_text c st)
    = option_map unghost_view
        (PySource.DocumentationAggregator_enterDocumented_command (doc_text, c)
           (settings_of fl trigger strip_fn strip_mac strip_mem)
           (documented st) (py_class_stack (class_stack st)) (awaiting st) (py_def_stack (def_stack st))).
Proof. exact enterDocumented_command_matches_source. Qed.
Print Assumptions C02_enterDocumented_command_matches_source.

(* py2coq batch 5: every entry class resolves process() to its own method; the class hierarchy read from documentation_types.py is the one the model was written against *)
Theorem C02_dispatch_hierarchy_pinned : PySource.dispatch_process_hierarchy = expected_hierarchy.
Proof. exact dispatch_hierarchy_pinned. Qed.
Print Assumptions C02_dispatch_hierarchy_pinned.

Theorem C02_dispatch_entries_resolve_to_own_method :
  forallb (fun row => if str_eqb (snd (snd (snd row))) (s"entry")
                      then str_eqb (fst row) (fst (snd (snd row))) else true)
          PySource.dispatch_process_hierarchy = true.
Proof. exact dispatch_entries_resolve_to_own_method. Qed.
Print Assumptions C02_dispatch_entries_resolve_to_own_method.

(* the generated lexer / parser / listener modules and the error listeners are (up to layout, comments,
   docstrings) the code the model was validated against; every context class dispatches to the listener
   method of its rule; the aggregator overrides exactly the four enter callbacks agg_step composes *)
Theorem C02_parser_code_unchanged :
  parser_package_digests = base_parser_package_digests
  /\ parser_dispatch = base_parser_dispatch
  /\ aggregator_listener_methods
     = [s"enterDocumented_command"; s"enterCommand_invocation"; s"enterDocumented_module"; s"enterBracket_doccomment"].
Proof. exact (conj parser_package_unchanged (conj parser_dispatch_unchanged aggregator_listener_methods_unchanged)). Qed.
Print Assumptions C02_parser_code_unchanged.
