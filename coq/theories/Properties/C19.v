(* Properties/C19.v -- cminx_gen_rst() in CMake is equivalent to the command line.
   Only theorem statements; proofs are in Proofs/CMakeFacts.v.  gen_rst_def is Gen/CMinxCMake.v,
   translated from the CURRENT cmake/cminx.cmake on every run and executed by the mini CMake
   evaluator Model/CMakeLang.v: a change to the function body changes the term the theorem is
   about.  Partial: real CMake's evaluator is validated against (cmake -P), not verified. *)
From Coq Require Import String List ZArith.
From CMinx Require Import Base.Str Model.Config Model.CMakeLang Gen.ConfigData Gen.CMinxCMake
     Proofs.CMakeFacts Proofs.CliFacts.
Import ListNotations.

(* exactly one process: the executable, the input, -r iff the input is a directory, the extra
   arguments verbatim and in order, -o <output>; a failure of it is fatal *)
Theorem C19_gen_rst_launch :
  forall isdir globals exe dir out extra,
    lookup_var globals (s"CMINX_EXECUTABLE") = exe ->
    args_ok exe dir out extra = true ->
    call isdir gen_rst_def globals (dir :: out :: extra)
    = [ (exe :: dir :: (if isdir dir then [s"-r"] else []) ++ extra ++ [s"-o"; out], true) ].
Proof. exact gen_rst_launch. Qed.
Print Assumptions C19_gen_rst_launch.

Theorem C19_failure_is_fatal :
  forall isdir globals exe dir out extra,
    lookup_var globals (s"CMINX_EXECUTABLE") = exe ->
    args_ok exe dir out extra = true ->
    map snd (call isdir gen_rst_def globals (dir :: out :: extra)) = [true]
    /\ (forall argv fatal code,
          In (argv, fatal) (call isdir gen_rst_def globals (dir :: out :: extra)) ->
          after_launch fatal code = if (code =? 0)%Z then CMDone else CMFatal)
    /\ (forall code, code <> 0%Z -> after_launch true code = CMFatal)
    /\ after_launch true 0 = CMDone.
Proof. exact gen_rst_failure_is_fatal. Qed.
Print Assumptions C19_failure_is_fatal.

(* CMake list semantics behind 'verbatim': plain arguments survive a list variable *)
Theorem C19_split_list_join :
  forall extra, forallb arg_plain extra = true -> split_list (join semi extra) = extra.
Proof. exact split_list_join. Qed.
Print Assumptions C19_split_list_join.

Theorem C19_argc_roundtrip : forall n, parse_num (dec_of_nat n) = Some (N.of_nat n).
Proof. exact parse_num_dec_of_nat. Qed.
Print Assumptions C19_argc_roundtrip.

(* documented limits: the hypothesis args_ok cannot be dropped *)
Theorem C19_list_flattening_refuted :
  exists extra,
    forallb arg_plain extra = false
    /\ forallb not_kw (s"cminx" :: s"/src" :: s"/out" :: extra) = true
    /\ call ex_isd gen_rst_def ex_globals (s"/src" :: s"/out" :: extra)
       <> [(expected_argv ex_isd (s"cminx") (s"/src") (s"/out") extra, true)].
Proof. exact gen_rst_list_flattening_refuted. Qed.
Print Assumptions C19_list_flattening_refuted.

(* 'running the executable with that input, -o <output> and the extra arguments': for the argparse
   table of the CURRENT main() (Gen/ConfigData.cli_table) the command line cminx_gen_rst builds and
   the canonical order input -o output [-r] extra... yield the same settings source *)
Theorem C19_cli_order_irrelevant :
  forall dir r extra out,
    r = [] \/ r = [s"-r"] -> startswith (s"-") dir = false -> startswith (s"-") out = false ->
    flag_pairs_ok cli_table odest_cminx extra = true ->
    exists A B, parse_args cli_table (dir :: r ++ extra ++ [s"-o"; out]) = Some A
      /\ parse_args cli_table ([dir; s"-o"; out] ++ r ++ extra) = Some B
      /\ p_positional A = [dir] /\ p_positional B = [dir]
      /\ p_flags A = p_flags B /\ p_appended A = p_appended B
      /\ (forall k, assoc k (src_vals (args_source cli_table A))
                    = assoc k (src_vals (args_source cli_table B))).
Proof. exact cli_order_irrelevant. Qed.
Print Assumptions C19_cli_order_irrelevant.
