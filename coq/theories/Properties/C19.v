From CMinx Require Import Base.Str.
