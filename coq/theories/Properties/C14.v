(* Properties/C14.v -- index.rst toctrees are closed and complete.
   Only theorem statements; proofs are in Proofs/WalkFacts.v, WalkFacts2.v. *)
From Coq Require Import String List Permutation NArith.
From CMinx Require Import Base.Str Model.Writer Model.Naming Model.Pipeline Model.Walk
     Gen.SourceLiterals Proofs.WalkFacts Proofs.WalkFacts2 Proofs.LiteralsMatch
     Base.PyWalkSem Proofs.WalkSourceMatch.
From CMinx Require Gen.PyWalkSource.
Import ListNotations.

(* the index of a processed directory is one toctree over the sorted kept sub-directories
   (recursive mode) and the stems of the sorted non-excluded CMake files; its title is the prefix
   for the top directory and prefix + separator + relative path below *)
Theorem C14_index_content :
  forall st hdrs docfn excl base top rel text, no_index_page top = true ->
    In (AWrite (rel ++ [index_rst]) text) (document st hdrs docfn excl base (KDir top)) ->
    exists ch, visited st excl [] top rel ch /\ dir_processed st excl rel ch = true
               /\ text = index_of st hdrs excl (run_prefix st base) rel ch.
Proof. exact index_content. Qed.
Print Assumptions C14_index_content.

Theorem C14_index_is_one_toctree :
  forall st hdrs excl prefix rel ch,
    index_of st hdrs excl prefix rel ch
    = doc_text hdrs (match rel with [] => prefix | _ :: _ => prefix ++ ws_sep st ++ rel_string rel end)
               [Dir (s"toctree") [] [(s"maxdepth", s"2")] (map Para (toctree_entries st excl rel ch))].
Proof. exact index_of_entries. Qed.
Print Assumptions C14_index_is_one_toctree.

(* each entry exactly once *)
Theorem C14_entries_once :
  forall st excl top rel ch, tree_ok top = true -> names_ok top = true ->
    visited st excl [] top rel ch -> NoDup (toctree_entries st excl rel ch).
Proof. exact toctree_nodup. Qed.
Print Assumptions C14_entries_once.

(* closed: a listed sub-directory is a processed one, its index is written *)
Theorem C14_kept_subdir_is_processed :
  forall st excl rel nm ch, keep_dir st excl rel (D nm ch) = true ->
    dir_processed st excl (rel ++ [nm]) ch = true.
Proof. exact keep_dir_processed. Qed.
Print Assumptions C14_kept_subdir_is_processed.

Theorem C14_closed_subdirs :
  forall st hdrs docfn excl, all_ok docfn -> ws_out st = true -> excl [] true = false ->
  forall base top rel ch sub, visited st excl [] top rel ch -> In sub (toctree_dirs st excl rel ch) ->
    In (rel ++ [sub; index_rst]) (write_paths (document st hdrs docfn excl base (KDir top))).
Proof. exact toctree_closed_dirs. Qed.
Print Assumptions C14_closed_subdirs.

Theorem C14_closed_files :
  forall st hdrs docfn excl, all_ok docfn -> ws_out st = true -> excl [] true = false ->
  forall base top rel ch f, visited st excl [] top rel ch -> dir_processed st excl rel ch = true ->
    In f (toctree_files excl rel ch) ->
    In (rel ++ [rst_name f]) (write_paths (document st hdrs docfn excl base (KDir top))).
Proof. exact toctree_closed_files. Qed.
Print Assumptions C14_closed_files.

(* complete: every written file is reachable from the top index through toctree entries *)
Theorem C14_all_written_reachable :
  forall st hdrs docfn excl, all_ok docfn -> ws_out st = true -> excl [] true = false ->
  forall base top, dir_processed st excl [] top = true ->
  forall p, In p (write_paths (document st hdrs docfn excl base (KDir top))) ->
    reachable st hdrs excl (run_prefix st base) (document st hdrs docfn excl base (KDir top)) p.
Proof. exact all_written_reachable. Qed.
Print Assumptions C14_all_written_reachable.

(* former finding F23, repaired in the program: with auto-exclusion the input directory of a
   recursive run is processed even when it holds no .cmake file itself, so the statement needs
   no hypothesis about the input directory ... *)
Theorem C14_all_written_reachable_recursive :
  forall st hdrs docfn excl, all_ok docfn -> ws_out st = true -> excl [] true = false ->
  ws_recursive st = true ->
  forall base top p, In p (write_paths (document st hdrs docfn excl base (KDir top))) ->
    reachable st hdrs excl (run_prefix st base) (document st hdrs docfn excl base (KDir top)) p.
Proof. exact all_written_reachable_recursive. Qed.
Print Assumptions C14_all_written_reachable_recursive.

(* ... and the top index.rst is always written, whatever the files do (no all_ok) *)
Theorem C14_top_index_always_written_recursive :
  forall st hdrs docfn excl, ws_out st = true -> ws_recursive st = true -> excl [] true = false ->
  forall base children,
    In (AWrite [index_rst] (index_of st hdrs excl (run_prefix st base) [] children))
       (document st hdrs docfn excl base (KDir children)).
Proof. exact top_index_always_written_recursive. Qed.
Print Assumptions C14_top_index_always_written_recursive.

(* without --recursive an input directory that is not processed writes nothing, hence the
   hypothesis of C14_all_written_reachable can be dropped altogether *)
Theorem C14_all_written_reachable_always :
  forall st hdrs docfn excl, all_ok docfn -> ws_out st = true -> excl [] true = false ->
  forall base top p, In p (write_paths (document st hdrs docfn excl base (KDir top))) ->
    reachable st hdrs excl (run_prefix st base) (document st hdrs docfn excl base (KDir top)) p.
Proof. exact all_written_reachable_always. Qed.
Print Assumptions C14_all_written_reachable_always.

(* the old F23 witness (top without .cmake, sub-directory with one, recursive, auto-exclusion):
   the top index.rst is written first and lists sub/index.rst *)
Theorem C14_top_without_cmake_indexed :
  ltac:(let t := type of top_without_cmake_indexed in exact t).
Proof. exact top_without_cmake_indexed. Qed.
Print Assumptions C14_top_without_cmake_indexed.

Theorem C14_source_literals_pinned :
  get (s"document") init_strings
  = [[]; []; cmake_ext; cmake_ext; s"toctree"; s"maxdepth"; s"/index.rst"; cmake_ext; [dot]; [dot];
     s"index.rst"; cmake_ext]
  /\ geti (s"document") init_ints = [1; 2; 1].
Proof. exact document_literals. Qed.
Print Assumptions C14_source_literals_pinned.

(* pywalk2coq: document() as regenerated from src/cminx/__init__.py on every run (os.walk loop with
   in-place pruning, for/else, break/continue, rebinding by sorted, index construction, per-file
   loop), run on an abstract world, produces exactly the action list of the model.  names_distinct
   (no two sibling directories / files with one name) holds of every real directory. *)
Theorem C14_document_matches_source_output_outside :
  forall st hdrs docfn excl follow base kind input_file,
    kind_distinct kind = true ->
    PyWalkSource.document (PyWorld base kind None (fun _ => false)) docfn [] input_file (py_settings_of st hdrs excl follow)
    = Walk.document st hdrs docfn excl base kind.
Proof. exact document_matches_source_output_outside. Qed.
Print Assumptions C14_document_matches_source_output_outside.

(* the same with the output directory anywhere: when it lies inside the input tree at position o it is
   pruned from the walk exactly like a directory the patterns exclude (repair of F29) *)
Theorem C14_document_matches_source_no_links :
  forall st hdrs docfn excl follow base kind input_file o,
    kind_distinct kind = true -> out_consistent st o = true ->
    PyWalkSource.document (PyWorld base kind o (fun _ => false)) docfn [] input_file (py_settings_of st hdrs excl follow)
    = Walk.document st hdrs docfn (excl_with_output excl o) base kind.
Proof. exact document_matches_source_no_links. Qed.
Print Assumptions C14_document_matches_source_no_links.

(* ... and with symbolic links to directories in the tree (flagged by links): one that is not followed is
   pruned like an excluded directory (repair of F30), a followed one is an ordinary directory *)
Theorem C14_document_matches_source :
  forall st hdrs docfn excl follow base kind input_file o links,
    kind_distinct kind = true -> out_consistent st o = true ->
    PyWalkSource.document (PyWorld base kind o links) docfn [] input_file (py_settings_of st hdrs excl follow)
    = Walk.document st hdrs docfn (excl_with_output_links excl o follow links) base kind.
Proof. exact document_matches_source. Qed.
Print Assumptions C14_document_matches_source.
