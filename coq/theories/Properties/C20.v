(* Properties/C20.v -- RSTWriter serialisation is pure and keeps nested content indented.
   Only theorem statements; proofs are in Proofs/WriterFacts.v.  Model: Model/Writer.v (the
   document as a tree of elements, elem_text / doc_text = to_text, the public API as a state
   machine wstep / wrun over handles).  lines x = x split at newlines. *)
From Coq Require Import String List ZArith.
From CMinx Require Import Base.Str Model.Writer Gen.SourceLiterals Proofs.WriterFacts
     Proofs.LiteralsMatch
     Base.PySem Gen.PySource Proofs.SourceMatch
     Base.PyWriterSem Gen.PyWriterSource Proofs.WriterSourceMatch.
Import ListNotations.

(* serialising does not change the document and is repeatable, whatever is serialised in between *)
Theorem C20_to_text_pure : forall hdrs st h, fst (wstep hdrs st (OToText h)) = st.
Proof. exact to_text_pure. Qed.
Print Assumptions C20_to_text_pure.

Theorem C20_to_text_repeatable :
  forall hdrs st ops h, forallb is_totext ops = true ->
    fst (wrun hdrs st (OToText h :: ops ++ [OToText h])) = st
    /\ exists out outs, snd (wrun hdrs st (OToText h :: ops ++ [OToText h])) = out :: outs ++ [out].
Proof. exact to_text_repeatable. Qed.
Print Assumptions C20_to_text_repeatable.

(* the title frame: over- and underline = the header character repeated to the title's length *)
Theorem C20_heading_frame :
  forall c title,
    heading_text [c] title
    = [nl] ++ repeat c (length title) ++ [nl] ++ title ++ [nl] ++ repeat c (length title).
Proof. exact heading_frame. Qed.
Print Assumptions C20_heading_frame.

Theorem C20_doc_text_starts_with_frame :
  forall hdrs title body,
    doc_text hdrs title body = heading_text (nth 0 hdrs []) title ++ [nl] ++ body_text hdrs 0 0 body.
Proof. exact doc_text_starts_with_frame. Qed.
Print Assumptions C20_doc_text_starts_with_frame.

(* changing the title replaces the title and nothing else; the next serialisation re-frames it *)
Theorem C20_retitle_reframes :
  forall hdrs st t',
    wstep hdrs st (OSetTitle [] t') = ({| w_title := t'; w_body := w_body st |}, WNone).
Proof. exact retitle_reframes. Qed.
Print Assumptions C20_retitle_reframes.

(* every line of a paragraph, in order, is prefixed by exactly 3*d spaces (own text untouched) *)
Theorem C20_para_lines :
  forall d t, lines (para_text d t) = map (fun l => indent d ++ l) (lines t).
Proof. exact para_lines. Qed.
Print Assumptions C20_para_lines.

Theorem C20_indent_is_3d : forall d, length (indent d) = 3 * d.
Proof. exact length_indent. Qed.
Print Assumptions C20_indent_is_3d.

Theorem C20_field_lines :
  forall d n t, no_nl n = true -> no_nl t = true ->
    lines (field_text d n t) = [[]; field_line d n t].
Proof. exact field_lines. Qed.
Print Assumptions C20_field_lines.

Theorem C20_bullet_lines :
  forall d items, forallb no_nl items = true ->
    lines (list_text d false items) = [] :: map (bullet_line d) items ++ [[]].
Proof. exact bullet_lines. Qed.
Print Assumptions C20_bullet_lines.

(* every line of everything nested d levels deep is empty or starts with 3*d spaces; the content
   of a directive at depth d is at depth d+1 *)
Theorem C20_lines_indented :
  forall hdrs lvl d e, plain e = true -> Forall (ind_ok d) (lines (elem_text hdrs lvl d e)).
Proof. exact lines_indented. Qed.
Print Assumptions C20_lines_indented.

Theorem C20_dir_content_deeper :
  forall hdrs lvl d n a o b, plain (Dir n a o b) = true ->
    lines (elem_text hdrs lvl d (Dir n a o b)) = [] :: dir_head_line d n a :: dir_rest_lines hdrs d o b
    /\ Forall (ind_ok (S d)) (skipn 2 (lines (elem_text hdrs lvl d (Dir n a o b)))).
Proof. exact dir_content_deeper. Qed.
Print Assumptions C20_dir_content_deeper.

(* options directly after the heading and before any content, whatever the call order *)
Theorem C20_options_before_content :
  forall hdrs lvl d n a opts body,
    elem_text hdrs lvl d (Dir n a opts body)
    = dir_heading d n a ++ [nl]
      ++ concat (map (fun o => option_text (S d) o ++ [nl]) opts)
      ++ (match body with [] => [] | _ :: _ => [nl] end)
      ++ body_text hdrs 0 (S d) body.
Proof. exact options_before_content. Qed.
Print Assumptions C20_options_before_content.

Theorem C20_interleaving_irrelevant :
  forall hdrs st h nm a o b lvl d ops1 ops2,
    node_at h st = Some (Dir nm a o b, lvl, d) ->
    forallb (addressed h) ops1 = true -> forallb (addressed h) ops2 = true ->
    opts_of ops1 = opts_of ops2 -> kids_of ops1 = kids_of ops2 ->
    snd (wstep hdrs (fst (wrun hdrs st ops1)) (OToText h))
    = WText (elem_text hdrs lvl d (Dir nm a (o ++ opts_of ops1) (b ++ kids_of ops1)))
    /\ snd (wstep hdrs (fst (wrun hdrs st ops1)) (OToText h))
       = snd (wstep hdrs (fst (wrun hdrs st ops2)) (OToText h)).
Proof. exact interleaving_irrelevant. Qed.
Print Assumptions C20_interleaving_irrelevant.

(* elements appear in the order they were added *)
Theorem C20_order_preserved :
  forall hdrs t b x, doc_text hdrs t (b ++ [x]) = doc_text hdrs t b ++ elem_text hdrs 0 0 x ++ [nl].
Proof. exact order_preserved. Qed.
Print Assumptions C20_order_preserved.

Theorem C20_append_at_handle :
  forall hdrs st h t nm a o b lvl d,
    node_at h st = Some (Dir nm a o b, lvl, d) ->
    let st' := fst (wstep hdrs st (OText h t)) in
    snd (wstep hdrs st (OText h t)) = WNone
    /\ node_at h st' = Some (Dir nm a o (b ++ [Para t]), lvl, d)
    /\ w_title st' = w_title st
    /\ length (w_body st') = length (w_body st)
    /\ (forall h' v, is_prefix h' h = false -> node_at h' st = Some v -> node_at h' st' = Some v)
    /\ (forall h' e l' d', strict_prefix h' h = true -> node_at h' st = Some (e, l', d') ->
          exists e', node_at h' st' = Some (e', l', d') /\ same_head e e').
Proof. exact append_at_handle. Qed.
Print Assumptions C20_append_at_handle.

(* the templates and the indentation unit of rstwriter.py are those the model uses *)
Theorem C20_indent_unit_pinned : get (s"get_indents") rstwriter_strings = [[]; spaces indent_unit].
Proof. exact indent_unit_literal. Qed.
Print Assumptions C20_indent_unit_pinned.

Theorem C20_templates_pinned :
  get (s"Field.build_field_string") rstwriter_strings = [[nl]; F; s":"; F; s": "; F]
  /\ get (s"Option.build_option_string") rstwriter_strings = [F; s":"; F; s": "; F]
  /\ get (s"Heading.build_heading_string") rstwriter_strings = [[]; [nl]; F; [nl]; F; [nl]; F].
Proof. exact (conj field_literals (conj option_literals heading_literals)). Qed.
Print Assumptions C20_templates_pinned.

(* ---- tie by translation: Gen/PySource.v is regenerated from the CURRENT Python source by
   translators/py2coq.py (statement-by-statement rendering of the function into Gallina over the
   combinators of Base/PySem.v); the model function is proved equal to it for all arguments ---- *)
Theorem C20_get_indents_matches_source : forall n, indent n = PySource.get_indents n.
Proof. exact get_indents_matches_source. Qed.
Print Assumptions C20_get_indents_matches_source.

Theorem C20_paragraph_matches_source :
  forall d t, para_text d t = PySource.Paragraph_build_text_string t (indent d).
Proof. exact para_text_matches_source. Qed.
Print Assumptions C20_paragraph_matches_source.

Theorem C20_field_matches_source :
  forall d n t, field_text d n t = PySource.Field_build_field_string n t (indent d).
Proof. exact field_text_matches_source. Qed.
Print Assumptions C20_field_matches_source.

Theorem C20_doctest_matches_source :
  forall d l x, doctest_text d l x = PySource.DocTest_build_doctest_string l x (indent d).
Proof. exact doctest_text_matches_source. Qed.
Print Assumptions C20_doctest_matches_source.

Theorem C20_list_matches_source :
  forall d enumerated items,
    Some (list_text d enumerated items)
    = PySource.RSTList_build_list_string items (list_type_of enumerated) (indent d).
Proof. exact list_text_matches_source. Qed.
Print Assumptions C20_list_matches_source.

Theorem C20_heading_matches_source :
  forall c title, heading_text c title = PySource.Heading_build_heading_string title c.
Proof. exact heading_text_matches_source. Qed.
Print Assumptions C20_heading_matches_source.

Theorem C20_directive_heading_matches_source :
  forall d name args,
    dir_heading d name args
    = PySource.DirectiveHeading_build_heading_string name (indent d) (PySource.Directive_format_arguments args).
Proof. exact dir_heading_matches_source. Qed.
Print Assumptions C20_directive_heading_matches_source.

Theorem C20_option_matches_source :
  forall d n v, option_text d (n, v) = PySource.Option_build_option_string n v (indent d).
Proof. exact option_text_matches_source. Qed.
Print Assumptions C20_option_matches_source.

(* pywriter2coq: every API method of RSTWriter / Directive as regenerated from rstwriter.py on every run equals the model step, for every history *)
Theorem C20_init_matches : forall st title,
  eff st <> [] -> RSTWriter_new title 0%Z st 0%Z = Some (conc st (winit title)).
Proof. exact init_matches. Qed.
Print Assumptions C20_init_matches.

Theorem C20_py_step_matches : forall st w o,
  eff st <> [] -> py_step (conc st w) o = model_step st w o.
Proof. exact py_step_matches. Qed.
Print Assumptions C20_py_step_matches.

Theorem C20_py_run_matches : forall st ops w,
  eff st <> [] -> py_run (conc st w) ops = option_map (conc st) (model_run st w ops).
Proof. exact py_run_matches. Qed.
Print Assumptions C20_py_run_matches.

Theorem C20_history_to_text_matches : forall st ops w,
  eff st <> [] ->
  py_bind (py_run (conc st w) ops) RSTWriter_to_text
  = py_bind (model_run st w ops)
      (fun w' => Some (doc_text (eff st) (w_title w') (w_body w'))).
Proof. exact history_to_text_matches. Qed.
Print Assumptions C20_history_to_text_matches.

Theorem C20_history_to_text_wrun : forall st ops title,
  eff st <> [] ->
  forallb no_error (snd (wrun (eff st) (winit title) ops)) = true ->
  py_bind (RSTWriter_new title 0%Z st 0%Z) (fun t => py_bind (py_run t ops) RSTWriter_to_text)
  = (let w' := fst (wrun (eff st) (winit title) ops) in
     Some (doc_text (eff st) (w_title w') (w_body w'))).
Proof. exact history_to_text_wrun. Qed.
Print Assumptions C20_history_to_text_wrun.
