(* placeholder: theorems follow *)
From CMinx Require Import Base.Str Model.Writer.
