(* Properties/C12.v -- Title and module name derive from prefix and relative path, or @module.
   Only theorem statements; proofs are in Proofs/NamingFacts.v, AggInv.v, PageFacts.v. *)
From Coq Require Import String List NArith.
From CMinx Require Import Base.Str Model.Lexer Model.Parser Model.Writer Model.DocTypes Model.Aggregator
     Model.Pipeline Model.Path Model.Naming Gen.SourceLiterals
     Proofs.NamingFacts Proofs.AggInv Proofs.LiteralsMatch
     Base.PySem Gen.PySource Proofs.SourceMatch
     Proofs.SourceLinks
     Proofs.SourceMatch3.
Import ListNotations.

(* the page: title frame (first header character repeated to exactly the title's length), then
   the module directive, then the entries *)
Theorem C12_page_head :
  forall hdrs title m docs t n d rest,
    finalize title m docs = (t, EModule n d :: rest) ->
    render_page hdrs title m docs
    = heading_text (nth 0 hdrs []) t ++ [nl]
      ++ elem_text hdrs 0 0 (render_entry (EModule n d)) ++ [nl]
      ++ body_text hdrs 0 0 (map render_entry rest).
Proof. exact page_head. Qed.
Print Assumptions C12_page_head.

Theorem C12_heading_frame :
  forall c t,
    heading_text [c] t = [nl] ++ repeat c (length t) ++ [nl] ++ t ++ [nl] ++ repeat c (length t).
Proof. exact heading_text_single. Qed.
Print Assumptions C12_heading_frame.

(* exactly one module entry, the first: the aggregator never creates another one *)
Theorem C12_module_only_first :
  forall trigger strip_fn strip_mac strip_mem fl f st,
    aggregate fl trigger strip_fn strip_mac strip_mem f = Ok st ->
    (f_module f = None -> no_module (documented st) = true)
    /\ (forall t, f_module f = Some t ->
          exists rest, documented st = module_entry t :: rest /\ no_module rest = true).
Proof. exact module_only_first. Qed.
Print Assumptions C12_module_only_first.

(* names: prefix + separator + relative name, extension dropped iff the respective flag is off *)
Theorem C12_names_from_prefix :
  forall (p sep : str) (et em : bool) (stem : str),
    str_eqb (stem ++ cmake_ext) sep = false ->
    header_and_module (Some p) sep et em (stem ++ cmake_ext)
    = (p ++ sep ++ stem ++ (if et then cmake_ext else []),
       p ++ sep ++ stem ++ (if em then cmake_ext else [])).
Proof. exact names_from_prefix. Qed.
Print Assumptions C12_names_from_prefix.

Theorem C12_names_without_prefix :
  forall (sep : str) (et em : bool) (stem : str),
    header_and_module None sep et em (stem ++ cmake_ext)
    = (stem ++ (if et then cmake_ext else []), stem ++ (if em then cmake_ext else [])).
Proof. exact names_without_prefix. Qed.
Print Assumptions C12_names_without_prefix.

Theorem C12_names_start_with_prefix :
  forall (p sep : str) (et em : bool) (stem : str),
    str_eqb (stem ++ cmake_ext) sep = false ->
    startswith (p ++ sep) (fst (header_and_module (Some p) sep et em (stem ++ cmake_ext))) = true
    /\ startswith (p ++ sep) (snd (header_and_module (Some p) sep et em (stem ++ cmake_ext))) = true.
Proof. exact names_start_with_prefix. Qed.
Print Assumptions C12_names_start_with_prefix.

(* different files get different names *)
Theorem C12_names_injective :
  forall (pfx : option str) (sep : str) (et em : bool) (s1 s2 : str),
    str_eqb (s1 ++ cmake_ext) sep = false -> str_eqb (s2 ++ cmake_ext) sep = false ->
    header_and_module pfx sep et em (s1 ++ cmake_ext)
    = header_and_module pfx sep et em (s2 ++ cmake_ext) ->
    s1 ++ cmake_ext = s2 ++ cmake_ext.
Proof. exact names_injective. Qed.
Print Assumptions C12_names_injective.

(* ... for names ending in the lower-case extension: mixed-case extensions can collide (F16) *)
Theorem C12_case_collision_refuted :
  ltac:(let t := type of F16_case_collision_refuted in exact t).
Proof. exact F16_case_collision_refuted. Qed.
Print Assumptions C12_case_collision_refuted.

(* the relative name does not depend on where the tree is located *)
Theorem C12_relpath_abs_child :
  forall bc rel, forallb comp_ok bc = true -> forallb comp_ok rel = true -> rel <> [] ->
    relpath_abs (abs_of bc ++ [slash] ++ join [slash] rel) (abs_of bc) = join [slash] rel.
Proof. exact relpath_abs_child. Qed.
Print Assumptions C12_relpath_abs_child.

(* @module <name>: the name is both title and module name, the text is the directive's content *)
Theorem C12_finalize_spec :
  forall title m docs,
    finalize title m docs
    = match docs with
      | EModule name doc :: rest =>
          if str_eqb name [] then (title, EModule m doc :: rest) else (name, EModule name doc :: rest)
      | _ => (title, EModule m [] :: docs)
      end.
Proof. exact finalize_spec. Qed.
Print Assumptions C12_finalize_spec.

Theorem C12_render_module_entry :
  forall n doc, doc <> [] -> render_entry (EModule n doc) = Dir (s"module") [n] [] [Para doc].
Proof. exact render_module_entry. Qed.
Print Assumptions C12_render_module_entry.

Theorem C12_source_literals_pinned :
  get (s"document_single_file") init_strings
  = [s"\.cmake$"; []; s"\.cmake$"; []; [dot]; [dot]; s".rst"; [dot]; [dot]; s".rst"; [nl]]
  /\ get (s"DocumentationAggregator.enterDocumented_module") aggregator_strings
  = [[nl]; [nl]; module_kw; []; [nl]].
Proof. exact (conj document_single_file_literals module_doc_literals). Qed.
Print Assumptions C12_source_literals_pinned.

(* ---- tie by translation: Gen/PySource.v is regenerated from the CURRENT Python source by
   translators/py2coq.py (statement-by-statement rendering of the function into Gallina over the
   combinators of Base/PySem.v); the model function is proved equal to it for all arguments ---- *)
Theorem C12_module_process_matches_source :
  forall w name doc,
    PySource.ModuleDocumentation_process w [] name (Some doc)
    = w_add w (render_entry (EModule name doc)).
Proof. exact module_process_matches_source. Qed.
Print Assumptions C12_module_process_matches_source.

Theorem C12_heading_matches_source :
  forall c title, heading_text c title = PySource.Heading_build_heading_string title c.
Proof. exact heading_text_matches_source. Qed.
Print Assumptions C12_heading_matches_source.

(* the title / module decision of Documenter.process_docs and the naming lines of
   document_single_file, translated from the current source *)
Theorem C12_module_entry_matches_source :
  forall text docs,
    docs ++ [module_entry text] = PySource.DocumentationAggregator_enterDocumented_module text docs.
Proof. exact module_entry_matches_source. Qed.
Print Assumptions C12_module_entry_matches_source.

Theorem C12_process_docs_is_finalize :
  forall fl trigger strip_fn strip_mac strip_mem f st title module_name,
    aggregate fl trigger strip_fn strip_mac strip_mem f = Ok st ->
    PySource.Documenter_process_docs (documented st) module_name title
    = (snd (finalize title module_name (documented st)),
       fst (finalize title module_name (documented st))).
Proof. exact process_docs_is_finalize. Qed.
Print Assumptions C12_process_docs_is_finalize.

(* relpath / basename are whatever os.path.relpath(file, root) / os.path.basename(file) return *)
Theorem C12_single_file_names_match_source :
  forall prefix sep isdir relpath basename ext_titles ext_modules,
    PySource.document_single_file_names prefix sep isdir relpath basename ext_titles ext_modules
    = header_and_module prefix sep ext_titles ext_modules (if isdir then relpath else basename).
Proof. exact single_file_names_match_source. Qed.
Print Assumptions C12_single_file_names_match_source.

(* py2coq batch 5: the whole of Documenter.process_docs and the writer construction of Documenter.__init__ as regenerated from documenter.py *)
Theorem C12_process_docs_whole_matches_source :
  forall w module_name docs,
    modules_only_first docs = true ->
    PySource.Documenter_process_docs_whole w docs module_name []
    = Some (page_state w module_name docs,
            map after_process (snd (finalize (w_title w) module_name docs))).
Proof. exact process_docs_whole_matches_source. Qed.
Print Assumptions C12_process_docs_whole_matches_source.

Theorem C12_init_writer_matches_source :
  forall file title module_name,
    PySource.Documenter_init_writer file title module_name
    = (winit (effective_title file title), effective_module file title module_name, []).
Proof. exact init_writer_matches_source. Qed.
Print Assumptions C12_init_writer_matches_source.
