(* Properties/C08.v -- include_undocumented_* options only affect commands without a doccomment.
   Only theorem statements; proofs are in Proofs/AggFlags.v.  All theorems are for an ARBITRARY
   flag record (no sweep over the 2^10 vectors).  from_doc st = the entries whose origin is a
   doccomment-carrying command (ghost list origins); doc_view keeps of a class what stems from
   its own doccomment-carrying commands.  Two known findings are kept visible as refuted
   statements: F9 (documented class with its flag off) and F26 (a hidden declaration leaves the
   awaiting slot to an earlier documented declaration). *)
From Coq Require Import String List.
From CMinx Require Import Base.Str Model.Parser Model.DocTypes Model.Aggregator Spec.AggSpec
     Proofs.AggClass Proofs.AggFlags.
From CMinx Require Base.PySem Gen.PySource Proofs.SourceMatch2.
Import ListNotations.

(* the main theorem: for every flag record the entries stemming from doccomments equal those
   under default settings *)
Theorem C08_documented_entries_stable :
  forall trigger strip_fn strip_mac strip_mem fl f st_fl st_def,
    no_F9 fl (f_elems f) = true ->
    decls_followed (f_elems f) = true ->
    aggregate fl trigger strip_fn strip_mac strip_mem f = Ok st_fl ->
    aggregate default_flags trigger strip_fn strip_mac strip_mem f = Ok st_def ->
    map doc_view (from_doc st_fl) = map doc_view (from_doc st_def).
Proof. exact documented_entries_stable. Qed.
Print Assumptions C08_documented_entries_stable.

(* a doccomment-carrying command never consults a flag (except cpp_class: F9 below) *)
Theorem C08_documented_step_flag_independent :
  forall trigger strip_fn strip_mac strip_mem fl st d c,
    cmd_kind c <> s"cpp_class" ->
    agg_step fl trigger strip_fn strip_mac strip_mem st (EDocCmd d c)
    = agg_step default_flags trigger strip_fn strip_mac strip_mem st (EDocCmd d c).
Proof. exact documented_step_flag_independent. Qed.
Print Assumptions C08_documented_step_flag_independent.

(* switching option K off: a K-command without a doccomment adds and alters no entry *)
Theorem C08_undocumented_flag_off_entries_unchanged :
  forall trigger strip_fn strip_mac strip_mem fl c st st' h,
    lookup (cmd_kind c) handler_table = Some h ->
    include_flag fl h = Some false ->
    claimed (cmd_kind c) st = false ->
    agg_step fl trigger strip_fn strip_mac strip_mem st (ECmd c) = Ok st' ->
    documented st' = documented st /\ origins st' = origins st /\ awaiting st' = awaiting st
    /\ (st' = st \/ st' = with_def_stack (None :: def_stack st) st
        \/ st' = with_class_stack (None :: class_stack st) st).
Proof. exact undocumented_flag_off_entries_unchanged. Qed.
Print Assumptions C08_undocumented_flag_off_entries_unchanged.

(* ... and with K on it behaves as under default settings *)
Theorem C08_undocumented_flag_on_as_default :
  forall trigger strip_fn strip_mac strip_mem fl c st h,
    lookup (cmd_kind c) handler_table = Some h ->
    include_flag fl h = Some true ->
    agg_step fl trigger strip_fn strip_mac strip_mem st (ECmd c)
    = agg_step default_flags trigger strip_fn strip_mac strip_mem st (ECmd c).
Proof. exact undocumented_flag_on_as_default. Qed.
Print Assumptions C08_undocumented_flag_on_as_default.

(* a step depends on the flags only through the one flag of its command kind *)
Theorem C08_flags_only_via_include_flag :
  forall trigger strip_fn strip_mac strip_mem fl1 fl2 st e,
    (forall k, elem_kind e = Some k -> agree_on k fl1 fl2) ->
    agg_step fl1 trigger strip_fn strip_mac strip_mem st e
    = agg_step fl2 trigger strip_fn strip_mac strip_mem st e.
Proof. exact flags_only_via_include_flag. Qed.
Print Assumptions C08_flags_only_via_include_flag.

(* known finding F9, exactly: one extra None on the class stack *)
Theorem C08_F9_documented_class_pushes_none :
  forall trigger strip_fn strip_mac strip_mem fl st d c st1,
    cmd_kind c = s"cpp_class" -> inc_cpp_class fl = false ->
    agg_step default_flags trigger strip_fn strip_mac strip_mem st (EDocCmd d c) = Ok st1 ->
    agg_step fl trigger strip_fn strip_mac strip_mem st (EDocCmd d c)
    = Ok (with_class_stack (None :: class_stack st1) st1).
Proof. exact F9_documented_class_pushes_none. Qed.
Print Assumptions C08_F9_documented_class_pushes_none.

(* known finding F26: without decls_followed the main statement is false (witness computed) *)
Theorem C08_hidden_declaration_refuted :
  ltac:(let t := type of FlagExamples.documented_entries_stable_refuted in exact t).
Proof. exact FlagExamples.documented_entries_stable_refuted. Qed.
Print Assumptions C08_hidden_declaration_refuted.

(* py2coq batch 4: enterCommand_invocation (flag lookup by reflection, stack pushes and pops, completion of an awaiting declaration) as regenerated from aggregator.py equals the model *)
Theorem C08_enterCommand_invocation_matches_source :
  forall fl trigger strip_fn strip_mac strip_mem consumed c st,
    SourceMatch2.result_map SourceMatch2.full_view (enter_command fl trigger strip_fn strip_mac strip_mem consumed c st)
    = PySource.DocumentationAggregator_enterCommand_invocation c consumed
        (SourceMatch2.settings_of fl trigger strip_fn strip_mac strip_mem)
        (documented st) (SourceMatch2.py_class_stack (class_stack st)) (awaiting st) (SourceMatch2.py_def_stack (def_stack st)).
Proof. exact SourceMatch2.enterCommand_invocation_matches_source. Qed.
Print Assumptions C08_enterCommand_invocation_matches_source.
