(* Properties/C10.v -- Variable and option entries state type, default and help correctly.
   Only theorem statements; proofs are in Proofs/EntryFacts.v (and ParserFacts.v).  Spec:
   Spec/EntrySpec.v (set_view, option_view, value_as_written). *)
From Coq Require Import String List NArith.
From CMinx Require Import Base.Str Model.Lexer Model.Parser Model.Writer Model.DocTypes
     Model.Aggregator Spec.EntrySpec Gen.SourceLiterals Proofs.LexerFacts Proofs.ParserFacts
     Proofs.EntryFacts Proofs.LiteralsMatch
     Base.PySem Gen.PySource Proofs.SourceMatch.
Import ListNotations.

(* set(): UNSET / str / list by the number of values; default = the value as written, a quoted
   value without its surrounding quotes, several values joined by single spaces in order *)
Theorem C10_process_set_spec :
  forall c doc docd st,
    process_set c doc docd st
    = match set_view (singles c) with
      | None => Ok st
      | Some (n, ty, v) => Ok (append (EVariable n doc ty v) docd st)
      end.
Proof. exact process_set_spec. Qed.
Print Assumptions C10_process_set_spec.

Theorem C10_set_view_shapes :
  forall n v w vals,
    set_view [n] = Some (n, VUnset, None)
    /\ set_view [n; dq :: v ++ [dq]] = Some (n, VString, Some v)
    /\ set_view (n :: v :: w :: vals) = Some (n, VList, Some (join (s" ") (v :: w :: vals))).
Proof. exact set_view_shapes. Qed.
Print Assumptions C10_set_view_shapes.

Theorem C10_quoted_value_unquoted : forall body, unquote (dq :: body ++ [dq]) = Some body.
Proof. exact unquote_quoted. Qed.
Print Assumptions C10_quoted_value_unquoted.

Theorem C10_value_as_written : forall v, unquote v = Some (value_as_written v).
Proof. exact unquote_spec. Qed.
Print Assumptions C10_value_as_written.

(* rendering: the data directive with exactly these fields in this order *)
Theorem C10_render_variable_fields :
  forall n doc ty v,
    render_entry (EVariable n doc ty v)
    = Dir (s"data") [n] []
          [Para doc;
           Field (s"Default value") (match v with Some x => x | None => s"None" end);
           Field (s"type") (match ty with VString => s"str" | VList => s"list" | VUnset => s"UNSET" end)].
Proof. exact render_variable_fields. Qed.
Print Assumptions C10_render_variable_fields.

(* option(): name, help text, default or OFF, type bool, marked as a user-editable cache option *)
Theorem C10_process_option_spec :
  forall c doc docd st,
    process_option c doc docd st
    = match option_view (singles c) with
      | None => st
      | Some (n, h, _) => append (EOption n doc (option_value (singles c)) h) docd st
      end.
Proof. exact process_option_spec. Qed.
Print Assumptions C10_process_option_spec.

Theorem C10_render_option_default :
  forall args n h v doc, option_view args = Some (n, h, v) ->
    render_entry (EOption n doc (option_value args) h)
    = Dir (s"data") [n] []
          [Dir (s"note") [] [] [Para option_note];
           Para doc;
           Field (s"Help text") h;
           Field (s"Default value") v;
           Field (s"type") (s"bool")].
Proof. exact render_option_default. Qed.
Print Assumptions C10_render_option_default.

(* every argument text the lexer and parser hand to the aggregator is non-empty *)
Theorem C10_arg_texts_nonempty :
  forall x ts f, lex x = LexOk ts -> parse ts = Some f ->
  forall c, In c (cmds_of f) -> forall t, In t (singles c) -> t <> [].
Proof. exact singles_texts_nonempty. Qed.
Print Assumptions C10_arg_texts_nonempty.

Theorem C10_source_literals_pinned :
  get (s"DocumentationAggregator.process_set") aggregator_strings = [[nl]; F; s" "; [dq]; [dq]]
  /\ geti (s"DocumentationAggregator.process_set") aggregator_ints = [1; 0; 1; 1; 1; 1; 1; 2; 0; 1; 1; 1].
Proof. exact process_set_literals. Qed.
Print Assumptions C10_source_literals_pinned.

Theorem C10_doctype_literals_pinned :
  get (s"VariableDocumentation.process") doctypes_strings
  = [s"data"; F; s"Default value"; vartype_text VString; vartype_text VList; vartype_text VUnset; s"type"].
Proof. exact variable_doc_literals. Qed.
Print Assumptions C10_doctype_literals_pinned.

(* ---- tie by translation: Gen/PySource.v is regenerated from the CURRENT Python source by
   translators/py2coq.py (statement-by-statement rendering of the function into Gallina over the
   combinators of Base/PySem.v); the model function is proved equal to it for all arguments ---- *)
Theorem C10_variable_process_matches_source :
  forall w name doc ty value,
    PySource.VariableDocumentation_process w [] name doc (inl (var_type_of ty)) value
    = Some (w_add w (render_entry (EVariable name doc ty value))).
Proof. exact variable_process_matches_source. Qed.
Print Assumptions C10_variable_process_matches_source.

Theorem C10_option_process_matches_source :
  forall w name doc value help,
    PySource.OptionDocumentation_process w [] name doc (inr (s"bool")) value help
    = w_add w (render_entry (EOption name doc value help)).
Proof. exact option_process_matches_source. Qed.
Print Assumptions C10_option_process_matches_source.

Theorem C10_process_set_matches_source :
  forall c doc docd st,
    result_docs (process_set c doc docd st)
    = Some (PySource.DocumentationAggregator_process_set c doc (documented st)).
Proof. exact process_set_matches_source. Qed.
Print Assumptions C10_process_set_matches_source.

Theorem C10_process_option_matches_source :
  forall c doc docd st,
    documented (process_option c doc docd st)
    = PySource.DocumentationAggregator_process_option c doc (documented st).
Proof. exact process_option_matches_source. Qed.
Print Assumptions C10_process_option_matches_source.
