(* Properties/C03.v -- Function and macro signatures mirror the definition.
   Only theorem statements; proofs are in Proofs/AggDefs.v.  Spec: Spec/AggSpec.v (nested view
   node / flatten, has_cpa0 = a cmake_parse_arguments call at depth 0 of a body, i.e. outside any
   nested definition) and Spec/EntrySpec.v (def_signature).  The three strip functions
   (re.sub of the configured regexes) and the trigger string are parameters: the theorems hold for
   all of them, in particular for patterns that would also match the function name. *)
From Coq Require Import String List.
From CMinx Require Import Base.Str Model.Lexer Model.Parser Model.Writer Model.DocTypes
     Model.Aggregator Spec.EntrySpec Spec.AggSpec Proofs.AggInv Proofs.AggDefs
     Base.PySem Gen.PySource Proofs.SourceMatch
     Proofs.SourceMatch2.
Import ListNotations.

(* every function()/macro() pushes one frame, its end command pops one: balanced bodies restore
   the definition stack (arbitrary nesting depth) *)
Theorem C03_def_stack_restored :
  forall fl trigger strip_fn strip_mac strip_mem nodes st st',
    wf_nodes nodes = true ->
    agg_run fl trigger strip_fn strip_mac strip_mem st (flatten_all nodes) = Ok st' ->
    def_stack st' = def_stack st.
Proof. exact def_stack_restored. Qed.
Print Assumptions C03_def_stack_restored.

(* the entry created by a definition header: name = first argument, never stripped; parameters =
   the remaining arguments, stripped, in order; kwargs from the trigger string in the doccomment *)
Theorem C03_def_entry_created :
  forall fl trigger strip_fn strip_mac strip_mem doc hdr st st1,
    is_def_cmd hdr = true ->
    header_creates fl st doc hdr = true ->
    agg_step fl trigger strip_fn strip_mac strip_mem st (elem_of doc hdr) = Ok st1 ->
    exists name ps,
      singles hdr = name :: ps
      /\ fn_at st1 (length (documented st)) (kind_is hdr (s"macro")) name (doc_of doc)
               (map (if kind_is hdr (s"macro") then strip_mac else strip_fn) ps)
               (contains trigger (doc_of doc))
      /\ length (documented st1) = S (length (documented st))
      /\ def_stack st1 = Some (length (documented st)) :: def_stack st.
Proof. exact def_entry_created. Qed.
Print Assumptions C03_def_entry_created.

(* the main theorem: after the whole definition, **kwargs iff the doccomment contains the
   trigger or cmake_parse_arguments occurs in the body of that very definition at depth 0 *)
Theorem C03_kwargs_iff :
  forall fl trigger strip_fn strip_mac strip_mem doc hdr body endc st st',
    wf_node (NDef doc hdr body endc) = true ->
    header_creates fl st doc hdr = true ->
    agg_run fl trigger strip_fn strip_mac strip_mem st (flatten (NDef doc hdr body endc)) = Ok st' ->
    exists name ps,
      singles hdr = name :: ps
      /\ fn_at st' (length (documented st)) (kind_is hdr (s"macro")) name (doc_of doc)
               (map (if kind_is hdr (s"macro") then strip_mac else strip_fn) ps)
               (contains trigger (doc_of doc) || body_has_cpa0 body)
      /\ def_stack st' = def_stack st.
Proof. exact kwargs_iff. Qed.
Print Assumptions C03_kwargs_iff.

(* calls anywhere else never affect it: any later elements (siblings, later definitions, file
   level), as long as no frame for the entry is on the stack *)
Theorem C03_cpa_outside_never_marks :
  forall fl trigger strip_fn strip_mac strip_mem es st st' j m nm d p k,
    frames_avoid j (def_stack st) = true ->
    fn_at st j m nm d p k ->
    agg_run fl trigger strip_fn strip_mac strip_mem st es = Ok st' ->
    fn_at st' j m nm d p k /\ frames_avoid j (def_stack st') = true.
Proof. exact cpa_outside_never_marks. Qed.
Print Assumptions C03_cpa_outside_never_marks.

(* the same for a definition anywhere in a file, with no side condition on the state *)
Theorem C03_kwargs_iff_in_file :
  forall fl trigger strip_fn strip_mac strip_mem f pre doc hdr body endc post st'',
    f_elems f = pre ++ flatten (NDef doc hdr body endc) ++ post ->
    wf_node (NDef doc hdr body endc) = true ->
    aggregate fl trigger strip_fn strip_mac strip_mem f = Ok st'' ->
    exists st,
      agg_run fl trigger strip_fn strip_mac strip_mem
              (match f_module f with
               | Some t => append (module_entry t) true agg_init
               | None => agg_init
               end) pre = Ok st
      /\ (header_creates fl st doc hdr = true ->
          exists name ps,
            singles hdr = name :: ps
            /\ fn_at st'' (length (documented st)) (kind_is hdr (s"macro")) name (doc_of doc)
                     (map (if kind_is hdr (s"macro") then strip_mac else strip_fn) ps)
                     (contains trigger (doc_of doc) || body_has_cpa0 body)).
Proof. exact kwargs_iff_in_file. Qed.
Print Assumptions C03_kwargs_iff_in_file.

(* rendering: name(params) with **kwargs exactly once and last *)
Theorem C03_kwargs_once_last :
  forall m n d ps kw,
    render_entry (EFunction m n d ps kw)
    = Dir (s"function") [signature n (if kw then ps ++ [kwargs_lit] else ps)] []
          ((if m then [Dir (s"note") [macro_note] [] []] else []) ++ [Para d]).
Proof. exact kwargs_once_last. Qed.
Print Assumptions C03_kwargs_once_last.

(* ---- tie by translation: Gen/PySource.v is regenerated from the CURRENT Python source by
   translators/py2coq.py (statement-by-statement rendering of the function into Gallina over the
   combinators of Base/PySem.v); the model function is proved equal to it for all arguments ---- *)
(* FunctionDocumentation.process / MacroDocumentation.process executed on a top-level writer w add
   exactly the element render_entry gives (second component: the mutated self.params) *)
Theorem C03_function_process_matches_source :
  forall w name doc params kw,
    PySource.FunctionDocumentation_process w [] name doc params kw
    = (w_add w (render_entry (EFunction false name doc params kw)),
       if kw then params ++ [kwargs_lit] else params).
Proof. exact function_process_matches_source. Qed.
Print Assumptions C03_function_process_matches_source.

Theorem C03_macro_process_matches_source :
  forall w name doc params kw,
    PySource.MacroDocumentation_process w [] name doc params kw
    = (w_add w (render_entry (EFunction true name doc params kw)),
       if kw then params ++ [kwargs_lit] else params).
Proof. exact macro_process_matches_source. Qed.
Print Assumptions C03_macro_process_matches_source.

(* py2coq batch 4: process_cmake_parse_arguments as regenerated from aggregator.py equals the model step *)
Theorem C03_process_cmake_parse_arguments_matches_source :
  forall c doc st,
    documented (process_cpa st)
    = PySource.DocumentationAggregator_process_cmake_parse_arguments c doc
        (documented st) (py_def_stack (def_stack st)).
Proof. exact process_cmake_parse_arguments_matches_source. Qed.
Print Assumptions C03_process_cmake_parse_arguments_matches_source.

Theorem C03_process_cpa_frame :
  forall st, same_stacks (process_cpa st) st /\ origins (process_cpa st) = origins st.
Proof. exact process_cpa_frame. Qed.
Print Assumptions C03_process_cpa_frame.
