(* Properties/C06.v -- Unreadable input fails loudly, never silently truncated.
   Only theorem statements; proofs are in Proofs/LexerFacts.v, ParserFacts.v, PipelineFacts.v and
   WalkFacts.v.  Model: Model/Lexer.v (longest match over the 15 rules of CMake.g4; a position
   where no rule matches is an error), Model/Parser.v, Model/Pipeline.v, Model/Walk.v. *)
From Coq Require Import String List NArith Arith.
From CMinx Require Import Base.Str Model.Lexer Model.Parser Model.Aggregator Model.Pipeline
     Model.Naming Model.Walk
     Proofs.LexerFacts Proofs.ParserFacts Proofs.PipelineFacts Proofs.WalkFacts Proofs.GrammarFacts
     Gen.GrammarSource Proofs.GrammarBaseline Proofs.GrammarPins
     Model.Config Gen.ConfigData Base.PyMainSem Gen.PyMainSource Proofs.ConfigFacts Proofs.RunFacts Proofs.MainSourceMatch.
Import ListNotations.

(* no source character is skipped: the pieces (tokens, whitespace, comments) concatenate to the source *)
Theorem C06_lex_accounts_for_every_char :
  forall x ps, lex_all x = LexOk ps -> concat (map snd ps) = x.
Proof. exact lex_all_concat. Qed.
Print Assumptions C06_lex_accounts_for_every_char.

(* the fuel of the lexer loop is never exhausted: the error result only ever means no rule matches *)
Theorem C06_lex_fuel_sufficient :
  forall f x pos, length x <= f -> lex_all_go f pos x = lex_all_go (length x) pos x.
Proof. exact lex_all_go_fuel. Qed.
Print Assumptions C06_lex_fuel_sufficient.

(* every visible token is in the parse tree, in order, parentheses balanced by construction:
   parsing is a bijection between accepted token sequences and well-formed trees *)
Theorem C06_parse_accounts_for_every_token :
  forall ts f, Forall tok_canon ts -> parse ts = Some f -> unparse_file f = ts.
Proof. exact parse_unparse. Qed.
Print Assumptions C06_parse_accounts_for_every_token.

Theorem C06_parse_bijection :
  (forall ts f, Forall tok_canon ts -> parse ts = Some f -> wf_file f = true /\ unparse_file f = ts)
  /\ (forall f, wf_file f = true -> Forall tok_canon (unparse_file f) /\ parse (unparse_file f) = Some f).
Proof. exact parse_bijection. Qed.
Print Assumptions C06_parse_bijection.

(* a page is only ever computed from the whole file *)
Theorem C06_ok_only_from_whole_file :
  forall fl trigger strip_fn strip_mac strip_mem hdrs title m src r,
    document_str fl trigger strip_fn strip_mac strip_mem hdrs title m src = OOk r ->
    exists ps f st,
      lex_all src = LexOk ps /\ concat (map snd ps) = src
      /\ parse (visible ps) = Some f /\ unparse_file f = visible ps
      /\ aggregate fl trigger strip_fn strip_mac strip_mem f = Ok st
      /\ r = render_page hdrs title m (documented st).
Proof. exact ok_only_from_whole_file. Qed.
Print Assumptions C06_ok_only_from_whole_file.

(* the faults of the property, wherever the lexer reaches them (for every flag vector) *)
Theorem C06_stuck_is_error :
  forall fl trigger strip_fn strip_mac strip_mem hdrs title m src ps rest,
    reaches src ps rest -> rest <> [] -> best rest = None ->
    document_str fl trigger strip_fn strip_mac strip_mem hdrs title m src = OLexErr.
Proof. exact stuck_is_error. Qed.
Print Assumptions C06_stuck_is_error.

Theorem C06_unterminated_quote_fails :
  forall fl trigger strip_fn strip_mac strip_mem hdrs title m src ps r,
    reaches src ps (dq :: r) -> quoted_body r = None ->
    document_str fl trigger strip_fn strip_mac strip_mem hdrs title m src = OLexErr.
Proof. exact unterminated_quote_fails. Qed.
Print Assumptions C06_unterminated_quote_fails.

Theorem C06_invalid_escape_fails :
  forall fl trigger strip_fn strip_mac strip_mem hdrs title m src ps r,
    reaches src ps (bsl :: r) ->
    (match r with [] => true | b :: _ => negb (esc_ok b) end) = true ->
    document_str fl trigger strip_fn strip_mac strip_mem hdrs title m src = OLexErr.
Proof. exact invalid_escape_fails. Qed.
Print Assumptions C06_invalid_escape_fails.

Theorem C06_unterminated_bracket_comment_fails :
  forall fl trigger strip_fn strip_mac strip_mem hdrs title m src ps r,
    reaches src ps (hash :: r) ->
    opens_bracket (take_while (fun c => negb (is_eol c)) r) = true ->
    m_bracket_arg r = None ->
    startswith doc_open (hash :: r) = false ->
    document_str fl trigger strip_fn strip_mac strip_mem hdrs title m src = OLexErr.
Proof. exact unterminated_bracket_comment_fails. Qed.
Print Assumptions C06_unterminated_bracket_comment_fails.

(* unbalanced parentheses / stray text: a token sequence outside the grammar is the parser error *)
Theorem C06_rejected_tokens_fail :
  forall fl trigger strip_fn strip_mac strip_mem hdrs title m src ts,
    lex src = LexOk ts -> parse ts = None ->
    document_str fl trigger strip_fn strip_mac strip_mem hdrs title m src = OParseErr.
Proof. exact rejected_tokens_fail. Qed.
Print Assumptions C06_rejected_tokens_fail.

(* I/O level: a file that does not document writes nothing, prints nothing; the run ends in the abort *)
Theorem C06_failed_file_writes_nothing :
  forall st hdrs docfn excl base content title modname o,
    excl [] false = false ->
    (title, modname) = header_and_module (ws_prefix st) (ws_sep st) (ws_ext_titles st)
                                         (ws_ext_modules st) base ->
    docfn title modname content = o -> (forall t, o <> OOk t) ->
    document st hdrs docfn excl base (KFile content)
    = (if ws_out st then [AMkDirs []] else []) ++ [AAbort o]
    /\ write_paths (document st hdrs docfn excl base (KFile content)) = []
    /\ prints (document st hdrs docfn excl base (KFile content)) = [].
Proof. exact failed_file_aborts_run. Qed.
Print Assumptions C06_failed_file_writes_nothing.

Theorem C06_nothing_after_abort :
  forall st hdrs docfn excl base kind l1 a l2,
    document st hdrs docfn excl base kind = l1 ++ a :: l2 -> is_stop a = true -> l2 = [].
Proof. exact nothing_after_abort. Qed.
Print Assumptions C06_nothing_after_abort.

(* unbalanced parentheses: the running depth of an accepted token sequence never goes negative
   and ends at zero *)
Theorem C06_balanced_parens : forall ts f, parse ts = Some f -> depth_ok ts 0 = true.
Proof. exact balanced_parens. Qed.
Print Assumptions C06_balanced_parens.

Theorem C06_unbalanced_parens_rejected : forall ts, depth_ok ts 0 = false -> parse ts = None.
Proof. exact unbalanced_parens_rejected. Qed.
Print Assumptions C06_unbalanced_parens_rejected.

(* ---- the grammar: CMake.g4 and the generated lexer/parser (serialised ATN) that run now are those
   the model's lexer and parser were written from and validated against; the model's rule order,
   token numbering and skip set are the grammar's (Gen/GrammarSource.v regenerated every run) ---- *)
Theorem C06_grammar_unchanged :
  g4_rules = base_g4_rules /\ lexer_atn = base_lexer_atn /\ parser_atn = base_parser_atn.
Proof. exact (conj g4_rules_unchanged (conj lexer_atn_unchanged (proj2 parser_unchanged))). Qed.
Print Assumptions C06_grammar_unchanged.

Theorem C06_model_rules_are_grammar_rules :
  map (fun r => kind_name (fst r)) rules = token_rule_names
  /\ map (fun r => kind_id (fst r)) rules = seq 1 (length token_rule_names)
  /\ map (fun r => kind_name (fst r)) (filter (fun r => skipped (fst r)) rules) = g4_skipped.
Proof. exact (conj model_rules_are_grammar_rules (conj model_token_numbers model_skip_set)). Qed.
Print Assumptions C06_model_rules_are_grammar_rules.

(* pymain2coq: the control flow of main() as regenerated from src/cminx/__init__.py on every run
   (argument parsing, stacking of the sources, template validation, the rst.headers check, the
   exclude-filter loop, the loop over the inputs) equals the specification model_main, for every environment, document
   function and argument vector. *)
Theorem C06_main_matches_source :
  forall env document toks, py_run (main env document toks) = model_main env document toks.
Proof. exact main_matches_source. Qed.
Print Assumptions C06_main_matches_source.

Theorem C06_stopping_input_is_last : forall env document toks p stack st pre f post,
  parse_args cli_table toks = Some p ->
  consulted env p = Some stack ->
  settings_of (env_cwd env) stack template = Some st ->
  headers_ok stack = true ->
  forallb (excl_src_ok excl_key) stack = true ->
  p_positional p = pre ++ f :: post ->
  forallb run_ok (map (fun x => document x (accepted_object stack st)) pre) = true ->
  existsb is_stop (document f (accepted_object stack st)) = true ->
  py_run (main env document toks)
  = Halted (concat (map (fun x => document x (accepted_object stack st)) pre)
            ++ document f (accepted_object stack st)).
Proof. exact stopping_input_is_last. Qed.
Print Assumptions C06_stopping_input_is_last.

(* the generated lexer / parser / listener modules and the error listeners are (up to layout, comments,
   docstrings) the code the model was validated against; every context class dispatches to the listener
   method of its rule; the aggregator overrides exactly the four enter callbacks agg_step composes *)
Theorem C06_parser_code_unchanged :
  parser_package_digests = base_parser_package_digests
  /\ parser_dispatch = base_parser_dispatch
  /\ aggregator_listener_methods
     = [s"enterDocumented_command"; s"enterCommand_invocation"; s"enterDocumented_module"; s"enterBracket_doccomment"].
Proof. exact (conj parser_package_unchanged (conj parser_dispatch_unchanged aggregator_listener_methods_unchanged)). Qed.
Print Assumptions C06_parser_code_unchanged.
