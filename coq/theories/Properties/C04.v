(* Properties/C04.v -- Layout, comments and command-name case do not affect the output.
   Only theorem statements; proofs are in Proofs/PipelineFacts.v, LexerFacts.v, AggInv.v,
   CleanFacts.v (LayoutFacts.v extends the whitespace theorems to every piece boundary).
   The page is a function of the visible token sequence (C04_layout_invariance); the lexer
   theorems show which edits keep that sequence.  Partial: the CRLF clause is covered by
   correspondence on LF/CRLF pairs, not by a theorem. *)
From Coq Require Import String List NArith Bool.
From CMinx Require Import Base.Str Model.Lexer Model.Parser Model.Aggregator Model.Pipeline
     Proofs.LexerFacts Proofs.PipelineFacts Proofs.AggInv Proofs.CleanFacts Proofs.LayoutFacts
     Gen.GrammarSource Proofs.GrammarBaseline Proofs.GrammarPins
     Model.Writer Proofs.CrlfFacts.
Import ListNotations.

(* any edit that keeps the visible token sequence keeps the page (or the error) *)
Theorem C04_layout_invariance :
  forall fl trigger strip_fn strip_mac strip_mem hdrs title m src1 src2,
    lex_sim (lex src1) (lex src2) ->
    document_str fl trigger strip_fn strip_mac strip_mem hdrs title m src1
    = document_str fl trigger strip_fn strip_mac strip_mem hdrs title m src2.
Proof. exact layout_invariance. Qed.
Print Assumptions C04_layout_invariance.

(* spaces, tabs and blank lines at the beginning of the (remaining) input are invisible *)
Theorem C04_leading_whitespace_invisible :
  forall ws x, forallb (fun c => is_sptab c || is_eol c) ws = true ->
    match lex (ws ++ x), lex x with
    | LexOk a, LexOk b => a = b
    | LexErr _, LexErr _ => True
    | _, _ => False
    end.
Proof. exact lex_leading_ws. Qed.
Print Assumptions C04_leading_whitespace_invisible.

(* whitespace inserted after an identifier, a parenthesis or a quoted argument, anywhere in a
   file (between a command name and its parenthesis, inside argument lists, after a command) *)
Theorem C04_ws_after_identifier :
  forall x ps name rest ins, reaches x ps (name ++ rest) ->
    best (name ++ rest) = Some (TIdent, length name) -> ins <> [] -> forallb is_ws ins = true ->
    lex_sim (lex (concat (map snd ps) ++ name ++ ins ++ rest)) (lex x).
Proof. exact lex_insert_ws_after_ident_ctx. Qed.
Print Assumptions C04_ws_after_identifier.

Theorem C04_ws_after_parenthesis :
  forall x ps c rest ins, reaches x ps ([c] ++ rest) -> c = lpar \/ c = rpar ->
    forallb is_ws ins = true ->
    lex_sim (lex (concat (map snd ps) ++ [c] ++ ins ++ rest)) (lex x).
Proof. exact lex_insert_ws_after_paren_ctx. Qed.
Print Assumptions C04_ws_after_parenthesis.

Theorem C04_ws_after_quoted_argument :
  forall x ps q rest ins, reaches x ps (q ++ rest) ->
    best (q ++ rest) = Some (TQuoted, length q) -> forallb is_ws ins = true ->
    lex_sim (lex (concat (map snd ps) ++ q ++ ins ++ rest)) (lex x).
Proof. exact lex_insert_ws_after_quoted_ctx. Qed.
Print Assumptions C04_ws_after_quoted_argument.

(* the general form: after any piece whose last character cannot start or extend a delimiter *)
Theorem C04_ws_after_piece :
  forall x ps u0 l rest ins k,
    reaches x ps ((u0 ++ [l]) ++ rest) -> good_last l = true -> forallb is_ws ins = true ->
    best ((u0 ++ [l]) ++ rest) = Some (k, length (u0 ++ [l])) ->
    best ((u0 ++ [l]) ++ ins ++ rest) = Some (k, length (u0 ++ [l])) ->
    lex_sim (lex (concat (map snd ps) ++ (u0 ++ [l]) ++ ins ++ rest)) (lex x).
Proof. exact lex_insert_ws_in_context. Qed.
Print Assumptions C04_ws_after_piece.

(* a line comment (any text that does not open a bracket) at the start of the remaining input
   or after a parenthesis is invisible *)
Theorem C04_line_comment_invisible :
  forall text rest, comment_text text = true ->
    lex_sim (lex (line_comment text ++ rest)) (lex rest).
Proof. exact lex_insert_comment_at_start. Qed.
Print Assumptions C04_line_comment_invisible.

Theorem C04_line_comment_after_parenthesis :
  forall c text rest, c = lpar \/ c = rpar -> comment_text text = true ->
    lex_sim (lex ([c] ++ line_comment text ++ rest)) (lex ([c] ++ rest)).
Proof. exact lex_insert_comment_after_paren. Qed.
Print Assumptions C04_line_comment_after_parenthesis.

(* command-name case: the aggregator reads names only through lower_ascii *)
Theorem C04_case_invariance :
  forall trigger strip_fn strip_mac strip_mem (g : str -> str),
    (forall n, lower_ascii (g n) = lower_ascii n) ->
    forall fl f,
      aggregate fl trigger strip_fn strip_mac strip_mem (recase_file g f)
      = aggregate fl trigger strip_fn strip_mac strip_mem f.
Proof. exact aggregate_recase. Qed.
Print Assumptions C04_case_invariance.

Theorem C04_upper_casing_is_such_a_recasing :
  forall n, lower_ascii (map upper_char_ascii n) = lower_ascii n.
Proof. exact lower_ascii_upper. Qed.
Print Assumptions C04_upper_casing_is_such_a_recasing.

(* re-indenting a doccomment block uniformly with spaces or tabs *)
Theorem C04_reindent_invariance :
  forall ind1 ind2 L, forallb is_sptab' ind1 = true -> forallb is_sptab' ind2 = true ->
    clean_doc_lines (canon_lines ind1 L) = clean_doc_lines (canon_lines ind2 L).
Proof. exact reindent_invariance. Qed.
Print Assumptions C04_reindent_invariance.

(* the general form (Proofs/LayoutFacts.v): spaces, tabs, CR, LF inserted directly after ANY piece
   (token, whitespace run, comment) of any input keep the visible token sequence *)
Theorem C04_ws_at_any_boundary :
  forall x ps u rest ins k,
    reaches x ps (u ++ rest) -> best (u ++ rest) = Some (k, length u) -> u <> [] ->
    forallb is_ws ins = true ->
    lex_sim (lex (concat (map snd ps) ++ u ++ ins ++ rest)) (lex x).
Proof. exact lex_insert_ws_at_boundary. Qed.
Print Assumptions C04_ws_at_any_boundary.

(* ... at any number of boundaries at once: respace ps gaps prints the pieces with gaps.(i)
   inserted after piece i *)
Theorem C04_respace :
  forall x ps gaps, lex_all x = LexOk ps -> Forall (fun g => forallb is_ws g = true) gaps ->
    lex_sim (lex (respace ps gaps)) (lex x).
Proof. exact lex_respace. Qed.
Print Assumptions C04_respace.

(* removing whitespace that stands at piece boundaries is the same statement read backwards *)
Theorem C04_remove_ws :
  forall x' ps gaps, lex_all x' = LexOk ps -> Forall (fun g => forallb is_ws g = true) gaps ->
    lex_sim (lex (concat (map snd ps))) (lex (respace ps gaps)).
Proof. exact lex_remove_ws. Qed.
Print Assumptions C04_remove_ws.

(* LF -> CRLF keeps the token sequence of files made of identifiers, parentheses, whitespace and
   line comments (a quoted argument spanning lines gets a CR inside its text: the property only
   promises line-ending characters there) *)
Theorem C04_crlf_partial :
  forall x ps, lex_all x = LexOk ps -> forallb (fun p => crlf_safe_kind (fst p)) ps = true ->
    lex_sim (lex (crlf x)) (lex x).
Proof. exact lex_crlf. Qed.
Print Assumptions C04_crlf_partial.

(* ---- the grammar: CMake.g4 and the generated lexer/parser (serialised ATN) that run now are those
   the model's lexer and parser were written from and validated against; the model's rule order,
   token numbering and skip set are the grammar's (Gen/GrammarSource.v regenerated every run) ---- *)
Theorem C04_grammar_unchanged :
  g4_rules = base_g4_rules /\ lexer_atn = base_lexer_atn /\ parser_atn = base_parser_atn.
Proof. exact (conj g4_rules_unchanged (conj lexer_atn_unchanged (proj2 parser_unchanged))). Qed.
Print Assumptions C04_grammar_unchanged.

Theorem C04_model_rules_are_grammar_rules :
  map (fun r => kind_name (fst r)) rules = token_rule_names
  /\ map (fun r => kind_id (fst r)) rules = seq 1 (length token_rule_names)
  /\ map (fun r => kind_name (fst r)) (filter (fun r => skipped (fst r)) rules) = g4_skipped.
Proof. exact (conj model_rules_are_grammar_rules (conj model_token_numbers model_skip_set)). Qed.
Print Assumptions C04_model_rules_are_grammar_rules.

(* ---- the CRLF clause for doccomments (Proofs/CrlfFacts.v).  crlf_lines ind L are the lines of
   the Docstring token of a canonical block in a CRLF file, split at LF: every line but the last
   ends in CR.  norm_lines removes one trailing CR per line and drops whitespace-only lines: what
   the property allows to change. ---- *)
Theorem C04_crlf_doc_exact :
  forall ind L, forallb is_sptab' ind = true ->
    clean_doc_lines (crlf_lines ind L)
    = join [nl] (crlf_first ind ++ map (fun l => l ++ [cr]) L ++ [[]]).
Proof. exact clean_crlf_general. Qed.
Print Assumptions C04_crlf_doc_exact.

Theorem C04_crlf_doc_same_modulo_line_endings :
  forall ind L, forallb is_sptab' ind = true -> Forall (fun l => last_opt l <> Some cr) L ->
    norm_lines (clean_doc_lines (crlf_lines ind L)) = norm_lines (clean_doc_lines (canon_lines ind L)).
Proof. exact clean_crlf_same_modulo_line_endings_gen. Qed.
Print Assumptions C04_crlf_doc_same_modulo_line_endings.

Theorem C04_crlf_paragraph_same_modulo_line_endings :
  forall d ind L, forallb is_sptab' ind = true -> Forall (fun l => last_opt l <> Some cr) L ->
    norm_lines (para_text d (clean_doc_lines (crlf_lines ind L)))
    = norm_lines (para_text d (clean_doc_lines (canon_lines ind L))).
Proof. exact para_crlf_same_modulo_line_endings_gen. Qed.
Print Assumptions C04_crlf_paragraph_same_modulo_line_endings.
