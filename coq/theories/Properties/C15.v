(* Properties/C15.v -- Exclusion patterns are honoured for every matching path.
   Only theorem statements; proofs are in Proofs/WalkFacts.v, WalkFacts2.v.  The matcher excl
   (pathspec on absolute paths, directories with a trailing slash) is a parameter: the theorems
   hold for every matcher; the harness validates that CMinx asks pathspec the right question. *)
From Coq Require Import String List Permutation NArith.
From CMinx Require Import Base.Str Model.Naming Model.Pipeline Model.Walk
     Proofs.WalkFacts Proofs.WalkFacts2
     Base.PyWalkSem Proofs.WalkSourceMatch.
From CMinx Require Gen.PyWalkSource.
Import ListNotations.

(* a written page stems from a non-excluded CMake file of a visited directory *)
Theorem C15_written_only_if_not_excluded :
  forall st hdrs docfn excl base top p,
    In p (write_paths (document st hdrs docfn excl base (KDir top))) ->
    (exists rel ch, visited st excl [] top rel ch /\ p = rel ++ [index_rst])
    \/ (exists rel ch fn bytes, visited st excl [] top rel ch /\ In (F fn bytes) ch
          /\ excl (rel ++ [fn]) false = false /\ is_cmake_name fn = true /\ p = rel ++ [rst_name fn]).
Proof. exact written_page_from_nonexcluded. Qed.
Print Assumptions C15_written_only_if_not_excluded.

(* ... and conversely every non-excluded CMake file of a visited processed directory is written
   (C13_writes_exact); an excluded file is not, however many siblings are excluded too *)
Theorem C15_excluded_file_not_written :
  forall st hdrs docfn excl base top rel ch fn bytes, tree_ok top = true ->
    visited st excl [] top rel ch -> In (F fn bytes) ch -> is_cmake_name fn = true ->
    excl (rel ++ [fn]) false = true ->
    ~ In (rel ++ [rst_name fn]) (write_paths (document st hdrs docfn excl base (KDir top))).
Proof. exact excluded_file_not_written. Qed.
Print Assumptions C15_excluded_file_not_written.

(* an excluded directory is not descended into *)
Theorem C15_excluded_dir_not_descended :
  forall st hdrs docfn excl base top rel nm, excl (rel ++ [nm]) true = true ->
    (forall p q, In p (write_paths (document st hdrs docfn excl base (KDir top))) -> q <> [] ->
                 p <> rel ++ nm :: q)
    /\ (forall p q, In p (mkdirs (document st hdrs docfn excl base (KDir top))) -> p <> rel ++ nm :: q).
Proof. exact excluded_dir_not_descended. Qed.
Print Assumptions C15_excluded_dir_not_descended.

(* an excluded input path produces no output at all *)
Theorem C15_excluded_input_no_output :
  forall st hdrs docfn excl base kind,
    excl [] (match kind with KDir _ => true | _ => false end) = true ->
    document st hdrs docfn excl base kind = [].
Proof. exact excluded_input_no_output. Qed.
Print Assumptions C15_excluded_input_no_output.

(* the order of the directory listings is irrelevant: same set of (path, content) pairs *)
Theorem C15_listing_order_irrelevant :
  forall st hdrs docfn excl base ch ch', tperm_list ch ch' -> tree_ok ch = true -> all_ok docfn ->
    Permutation (writes (document st hdrs docfn excl base (KDir ch)))
                (writes (document st hdrs docfn excl base (KDir ch'))).
Proof. exact listing_order_irrelevant. Qed.
Print Assumptions C15_listing_order_irrelevant.

(* pywalk2coq: document() as regenerated from src/cminx/__init__.py on every run (os.walk loop with
   in-place pruning, for/else, break/continue, rebinding by sorted, index construction, per-file
   loop), run on an abstract world, produces exactly the action list of the model.  names_distinct
   (no two sibling directories / files with one name) holds of every real directory. *)
Theorem C15_document_matches_source_output_outside :
  forall st hdrs docfn excl follow base kind input_file,
    kind_distinct kind = true ->
    PyWalkSource.document (PyWorld base kind None (fun _ => false)) docfn [] input_file (py_settings_of st hdrs excl follow)
    = Walk.document st hdrs docfn excl base kind.
Proof. exact document_matches_source_output_outside. Qed.
Print Assumptions C15_document_matches_source_output_outside.

(* the same with the output directory anywhere: when it lies inside the input tree at position o it is
   pruned from the walk exactly like a directory the patterns exclude (repair of F29) *)
Theorem C15_document_matches_source_no_links :
  forall st hdrs docfn excl follow base kind input_file o,
    kind_distinct kind = true -> out_consistent st o = true ->
    PyWalkSource.document (PyWorld base kind o (fun _ => false)) docfn [] input_file (py_settings_of st hdrs excl follow)
    = Walk.document st hdrs docfn (excl_with_output excl o) base kind.
Proof. exact document_matches_source_no_links. Qed.
Print Assumptions C15_document_matches_source_no_links.

(* ... and with symbolic links to directories in the tree (flagged by links): one that is not followed is
   pruned like an excluded directory (repair of F30), a followed one is an ordinary directory *)
Theorem C15_document_matches_source :
  forall st hdrs docfn excl follow base kind input_file o links,
    kind_distinct kind = true -> out_consistent st o = true ->
    PyWalkSource.document (PyWorld base kind o links) docfn [] input_file (py_settings_of st hdrs excl follow)
    = Walk.document st hdrs docfn (excl_with_output_links excl o follow links) base kind.
Proof. exact document_matches_source. Qed.
Print Assumptions C15_document_matches_source.

Theorem C15_document_excluded_input_source :
  forall st hdrs docfn excl follow base kind input_file o links,
    excl [] (match kind with KDir _ => true | _ => false end) = true ->
    PyWalkSource.document (PyWorld base kind o links) docfn [] input_file (py_settings_of st hdrs excl follow) = [].
Proof. exact document_excluded_input_source. Qed.
Print Assumptions C15_document_excluded_input_source.
