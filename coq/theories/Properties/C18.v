(* Properties/C18.v -- Pages go only where requested: the output directory, or stdout.
   Only theorem statements; proofs are in Proofs/WalkFacts.v, WalkFacts2.v.  Output paths of the
   model are component lists relative to the output directory; partial: the real file system is
   exercised by the harness (snapshots), not modelled. *)
From Coq Require Import String List Permutation Sorted NArith.
From CMinx Require Import Base.Str Model.Path Model.Naming Model.Pipeline Model.Walk
     Spec.FsSpec Proofs.WalkFacts Proofs.WalkFacts2 Proofs.FsFacts
     Base.PyWalkSem Proofs.WalkSourceMatch.
From CMinx Require Gen.PyWalkSource.
Import ListNotations.

(* every component of every written / created path comes from the tree: a directory name, a
   page name stem.rst, or index.rst *)
Theorem C18_write_components_from_tree :
  forall st hdrs docfn excl base top p,
    In p (write_paths (document st hdrs docfn excl base (KDir top))
          ++ mkdirs (document st hdrs docfn excl base (KDir top))) ->
    forall c, In c p -> component_from_tree top c.
Proof. exact write_components_from_tree. Qed.
Print Assumptions C18_write_components_from_tree.

(* hence no component contains a slash, is empty or is dot-dot: writes stay below the output directory *)
Theorem C18_writes_stay_below_output :
  forall st hdrs docfn excl base top, names_ok top = true ->
  forall p, In p (write_paths (document st hdrs docfn excl base (KDir top))
                  ++ mkdirs (document st hdrs docfn excl base (KDir top))) ->
  forall c, In c p -> name_ok c = true.
Proof. exact writes_stay_below. Qed.
Print Assumptions C18_writes_stay_below_output.

Theorem C18_single_file_paths :
  forall st hdrs docfn excl base content,
    (forall p, In p (write_paths (document st hdrs docfn excl base (KFile content))) -> p = [rst_name base])
    /\ (forall p, In p (mkdirs (document st hdrs docfn excl base (KFile content))) -> p = []).
Proof. exact file_run_paths. Qed.
Print Assumptions C18_single_file_paths.

(* without an output directory nothing is written or created *)
Theorem C18_no_output_dir_no_writes :
  forall st hdrs docfn excl, ws_out st = false -> forall base kind,
    write_paths (document st hdrs docfn excl base kind) = []
    /\ mkdirs (document st hdrs docfn excl base kind) = [].
Proof. exact no_output_dir_no_writes. Qed.
Print Assumptions C18_no_output_dir_no_writes.

(* stdout carries exactly the non-index pages of the -o run, same order, each followed by a newline *)
Theorem C18_stdout_equals_pages_dir :
  forall st hdrs docfn excl, all_ok docfn -> forall base top, no_index_page top = true ->
    prints (document (set_out st false) hdrs docfn excl base (KDir top))
    = pages_as_printed (document (set_out st true) hdrs docfn excl base (KDir top)).
Proof. exact stdout_equals_pages_dir. Qed.
Print Assumptions C18_stdout_equals_pages_dir.

Theorem C18_stdout_equals_pages_file :
  forall st hdrs docfn excl, all_ok docfn -> forall base content,
    str_eqb (stem base) index_stem = false ->
    prints (document (set_out st false) hdrs docfn excl base (KFile content))
    = pages_as_printed (document (set_out st true) hdrs docfn excl base (KFile content)).
Proof. exact stdout_equals_pages_file. Qed.
Print Assumptions C18_stdout_equals_pages_file.

(* the files of one directory in sorted name order *)
Theorem C18_files_sorted_within_dir :
  forall st hdrs docfn excl, all_ok docfn -> ws_out st = true -> forall prefix rel ch,
    write_paths (snd (visit_dir st hdrs docfn excl prefix rel ch))
    = (if dir_processed st excl rel ch
       then (rel ++ [index_rst]) :: map (fun f => rel ++ [rst_name f]) (toctree_files excl rel ch)
       else [])
    /\ StronglySorted (fun a b => str_leb a b = true) (toctree_files excl rel ch).
Proof. exact files_sorted_within_dir. Qed.
Print Assumptions C18_files_sorted_within_dir.

(* file-system effect (Spec/FsSpec.v: a file system below the output directory as a function from
   paths to what is there; apply_run executes the actions): a path no action names keeps its
   content -- nothing is deleted or truncated, unrelated files in the output directory stay *)
Theorem C18_unrelated_paths_untouched :
  forall acts fs0 p,
    ~ In p (write_paths acts) ->
    (forall q, In q (mkdirs acts) -> ~ is_prefix_or_eq p q) ->
    apply_run fs0 acts p = fs0 p.
Proof. exact unrelated_paths_untouched. Qed.
Print Assumptions C18_unrelated_paths_untouched.

Theorem C18_files_never_deleted :
  forall acts fs0 p c, fs0 p = Some (FFile c) ->
    (exists c', apply_run fs0 acts p = Some (FFile c'))
    /\ (~ In p (write_paths acts) -> apply_run fs0 acts p = Some (FFile c)).
Proof. exact files_never_deleted. Qed.
Print Assumptions C18_files_never_deleted.

(* for a directory run: a pre-existing file that is not one of the expected pages keeps its content;
   an expected page holds exactly what the run wrote for it *)
Theorem C18_unexpected_file_kept :
  forall st hdrs docfn excl, ws_out st = true -> all_ok docfn -> excl [] true = false ->
  forall base top fs0 p c, fs0 p = Some (FFile c) -> ~ In p (expected_paths st excl [] top) ->
    apply_run fs0 (document st hdrs docfn excl base (KDir top)) p = Some (FFile c).
Proof. exact dir_run_unexpected_file_kept. Qed.
Print Assumptions C18_unexpected_file_kept.

Theorem C18_expected_file_content :
  forall st hdrs docfn excl, ws_out st = true -> all_ok docfn -> excl [] true = false ->
  forall base top fs0 p, tree_ok top = true -> In p (expected_paths st excl [] top) ->
    exists c, In (p, c) (writes (document st hdrs docfn excl base (KDir top)))
              /\ apply_run fs0 (document st hdrs docfn excl base (KDir top)) p = Some (FFile c).
Proof. exact dir_run_expected_file_content. Qed.
Print Assumptions C18_expected_file_content.

Theorem C18_no_output_dir_fs_unchanged :
  forall st hdrs docfn excl, ws_out st = false -> forall base kind fs0 p,
    apply_run fs0 (document st hdrs docfn excl base kind) p = fs0 p.
Proof. exact no_output_dir_fs_unchanged. Qed.
Print Assumptions C18_no_output_dir_fs_unchanged.

(* pywalk2coq: document() as regenerated from src/cminx/__init__.py on every run (os.walk loop with
   in-place pruning, for/else, break/continue, rebinding by sorted, index construction, per-file
   loop), run on an abstract world, produces exactly the action list of the model.  names_distinct
   (no two sibling directories / files with one name) holds of every real directory. *)
Theorem C18_document_matches_source_output_outside :
  forall st hdrs docfn excl follow base kind input_file,
    kind_distinct kind = true ->
    PyWalkSource.document (PyWorld base kind None (fun _ => false)) docfn [] input_file (py_settings_of st hdrs excl follow)
    = Walk.document st hdrs docfn excl base kind.
Proof. exact document_matches_source_output_outside. Qed.
Print Assumptions C18_document_matches_source_output_outside.

(* the same with the output directory anywhere: when it lies inside the input tree at position o it is
   pruned from the walk exactly like a directory the patterns exclude (repair of F29) *)
Theorem C18_document_matches_source_no_links :
  forall st hdrs docfn excl follow base kind input_file o,
    kind_distinct kind = true -> out_consistent st o = true ->
    PyWalkSource.document (PyWorld base kind o (fun _ => false)) docfn [] input_file (py_settings_of st hdrs excl follow)
    = Walk.document st hdrs docfn (excl_with_output excl o) base kind.
Proof. exact document_matches_source_no_links. Qed.
Print Assumptions C18_document_matches_source_no_links.

(* ... and with symbolic links to directories in the tree (flagged by links): one that is not followed is
   pruned like an excluded directory (repair of F30), a followed one is an ordinary directory *)
Theorem C18_document_matches_source :
  forall st hdrs docfn excl follow base kind input_file o links,
    kind_distinct kind = true -> out_consistent st o = true ->
    PyWalkSource.document (PyWorld base kind o links) docfn [] input_file (py_settings_of st hdrs excl follow)
    = Walk.document st hdrs docfn (excl_with_output_links excl o follow links) base kind.
Proof. exact document_matches_source. Qed.
Print Assumptions C18_document_matches_source.

Theorem C18_document_single_file_matches_source :
  forall st hdrs docfn excl follow base top o links log rel ch name content sl,
    dir_at top rel = Some ch -> find_file name ch = Some content ->
    PyWalkSource.document_single_file (PyWorld base (KDir top) o links) docfn log
      (APath AInput (rel ++ [name]) false) (APath AInput [] sl) (py_settings_of st hdrs excl follow)
    = emits log (doc_actions st docfn (ws_prefix st) (rel_string (rel ++ [name])) rel name content).
Proof. exact document_single_file_matches_source. Qed.
Print Assumptions C18_document_single_file_matches_source.
