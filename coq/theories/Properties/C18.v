(* Properties/C18.v -- Pages go only where requested: the output directory, or stdout.
   Only theorem statements; proofs are in Proofs/WalkFacts.v, WalkFacts2.v.  Output paths of the
   model are component lists relative to the output directory; partial: the real file system is
   exercised by the harness (snapshots), not modelled. *)
From Coq Require Import String List Permutation Sorted.
From CMinx Require Import Base.Str Model.Path Model.Naming Model.Pipeline Model.Walk
     Proofs.WalkFacts Proofs.WalkFacts2.
Import ListNotations.

(* every component of every written / created path comes from the tree: a directory name, a
   page name stem.rst, or index.rst *)
Theorem C18_write_components_from_tree :
  forall st hdrs docfn excl base top p,
    In p (write_paths (document st hdrs docfn excl base (KDir top))
          ++ mkdirs (document st hdrs docfn excl base (KDir top))) ->
    forall c, In c p -> component_from_tree top c.
Proof. exact write_components_from_tree. Qed.
Print Assumptions C18_write_components_from_tree.

(* hence no component contains a slash, is empty or is dot-dot: writes stay below the output directory *)
Theorem C18_writes_stay_below_output :
  forall st hdrs docfn excl base top, names_ok top = true ->
  forall p, In p (write_paths (document st hdrs docfn excl base (KDir top))
                  ++ mkdirs (document st hdrs docfn excl base (KDir top))) ->
  forall c, In c p -> name_ok c = true.
Proof. exact writes_stay_below. Qed.
Print Assumptions C18_writes_stay_below_output.

Theorem C18_single_file_paths :
  forall st hdrs docfn excl base content,
    (forall p, In p (write_paths (document st hdrs docfn excl base (KFile content))) -> p = [rst_name base])
    /\ (forall p, In p (mkdirs (document st hdrs docfn excl base (KFile content))) -> p = []).
Proof. exact file_run_paths. Qed.
Print Assumptions C18_single_file_paths.

(* without an output directory nothing is written or created *)
Theorem C18_no_output_dir_no_writes :
  forall st hdrs docfn excl, ws_out st = false -> forall base kind,
    write_paths (document st hdrs docfn excl base kind) = []
    /\ mkdirs (document st hdrs docfn excl base kind) = [].
Proof. exact no_output_dir_no_writes. Qed.
Print Assumptions C18_no_output_dir_no_writes.

(* stdout carries exactly the non-index pages of the -o run, same order, each followed by a newline *)
Theorem C18_stdout_equals_pages_dir :
  forall st hdrs docfn excl, all_ok docfn -> forall base top, no_index_page top = true ->
    prints (document (set_out st false) hdrs docfn excl base (KDir top))
    = pages_as_printed (document (set_out st true) hdrs docfn excl base (KDir top)).
Proof. exact stdout_equals_pages_dir. Qed.
Print Assumptions C18_stdout_equals_pages_dir.

Theorem C18_stdout_equals_pages_file :
  forall st hdrs docfn excl, all_ok docfn -> forall base content,
    str_eqb (stem base) index_stem = false ->
    prints (document (set_out st false) hdrs docfn excl base (KFile content))
    = pages_as_printed (document (set_out st true) hdrs docfn excl base (KFile content)).
Proof. exact stdout_equals_pages_file. Qed.
Print Assumptions C18_stdout_equals_pages_file.

(* the files of one directory in sorted name order *)
Theorem C18_files_sorted_within_dir :
  forall st hdrs docfn excl, all_ok docfn -> ws_out st = true -> forall prefix rel ch,
    write_paths (snd (visit_dir st hdrs docfn excl prefix rel ch))
    = (if dir_processed st excl rel ch
       then (rel ++ [index_rst]) :: map (fun f => rel ++ [rst_name f]) (toctree_files excl rel ch)
       else [])
    /\ StronglySorted (fun a b => str_leb a b = true) (toctree_files excl rel ch).
Proof. exact files_sorted_within_dir. Qed.
Print Assumptions C18_files_sorted_within_dir.
