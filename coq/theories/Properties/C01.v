(* Properties/C01.v -- Doccomment text reaches the output verbatim.
   Only theorem statements; proofs are in Proofs/CleanFacts.v.  canon_lines ind L are the lines
   of the Docstring token of a canonical block: the opening line #[[[ (the token starts at the
   hash, so it carries no indentation), one line  ind ++ hash ++ space ++ l  per body line l (the
   bare hash for an empty l), the closing line  ind ++ #]] .  L is ARBITRARY: lines starting with
   hash, brackets or spaces, empty lines, any code points. *)
From Coq Require Import String List NArith.
From CMinx Require Import Base.Str Model.Lexer Model.Parser Model.Writer Model.DocTypes Model.Aggregator
     Model.Pipeline Gen.SourceLiterals Proofs.CleanFacts Proofs.LiteralsMatch
     Base.PySem Gen.PySource Proofs.SourceMatch.
Import ListNotations.

(* cleaning removes exactly the delimiters, the uniform indentation and the leader: the body
   lines come back in order, each unchanged, joined by newlines *)
Theorem C01_clean_canonical :
  forall ind L, forallb is_sptab' ind = true ->
    clean_doc_lines (canon_lines ind L)
    = match L with [] => [] | _ :: _ => join [nl] L ++ [nl] end.
Proof. exact clean_canonical. Qed.
Print Assumptions C01_clean_canonical.

Theorem C01_clean_text_canonical :
  forall ind L, forallb is_sptab' ind = true -> Forall (fun l => ~ In nl l) L ->
    clean_doc_text (join [nl] (canon_lines ind L))
    = match L with [] => [] | _ :: _ => join [nl] L ++ [nl] end.
Proof. exact clean_text_canonical. Qed.
Print Assumptions C01_clean_text_canonical.

(* blocks written without the leader *)
Theorem C01_clean_leaderless :
  forall L, L <> [] -> forallb plain_line L = true ->
    clean_doc_lines (doc_open_line :: L ++ [doc_close_line]) = join [nl] L ++ [nl].
Proof. exact clean_leaderless. Qed.
Print Assumptions C01_clean_leaderless.

(* whatever command the doccomment is attached to: the new entry's doc is the cleaned text,
   it is rendered in exactly one paragraph of that entry's directive, line for line, each line
   prefixed by the three spaces of the directive's content and otherwise unchanged *)
Theorem C01_canonical_doc_lines_in_output :
  forall trigger sfn smac ind L c st st',
    forallb is_sptab' ind = true -> L <> [] -> Forall (fun l => ~ In nl l) L ->
    enter_documented trigger sfn smac (join [nl] (canon_lines ind L)) c st = Ok st' ->
    length (documented st') <> length (documented st) ->
    exists e, last_opt (documented st') = Some e
      /\ entry_doc e = join [nl] L ++ [nl]
      /\ In (Para (entry_doc e)) (dir_body (render_entry e))
      /\ split_on nl (para_text 1 (entry_doc e)) = map (fun l => indent 1 ++ l) (L ++ [[]])
      /\ (forall hdrs, exists name args opts body pre post,
            render_entry e = Dir name args opts body
            /\ elem_text hdrs 0 0 (render_entry e)
               = pre ++ para_text 1 (entry_doc e) ++ [nl] ++ post).
Proof. exact canonical_doc_lines_in_output. Qed.
Print Assumptions C01_canonical_doc_lines_in_output.

(* the doc text occurs once among the direct paragraphs of the entry's directive (no duplication,
   no attribution to another item: expected_paras lists them per entry kind) *)
Theorem C01_doc_in_entry_once :
  forall e, direct_paras (dir_body (render_entry e)) = expected_paras e.
Proof. exact doc_in_entry_once. Qed.
Print Assumptions C01_doc_in_entry_once.

Theorem C01_member_and_attribute_docs :
  forall trigger sfn smac d c st st',
    enter_documented trigger sfn smac d c st = Ok st' ->
    length (documented st') <> length (documented st) ->
    exists e, last_opt (documented st') = Some e /\ entry_doc e = clean_doc_text d.
Proof. exact enter_documented_doc. Qed.
Print Assumptions C01_member_and_attribute_docs.

(* the module doccomment *)
Theorem C01_module_entry_canonical :
  forall name L, ~ In nl name -> strip_ws name = name -> contains module_kw name = false ->
    Forall (fun l => ~ In nl l) L ->
    module_entry (join [nl] (module_lines name L))
    = EModule name (match L with [] => [] | _ :: _ => join [nl] L ++ [nl] end).
Proof. exact module_entry_canonical. Qed.
Print Assumptions C01_module_entry_canonical.

(* non-ASCII characters: decoding the file is the inverse of UTF-8 encoding, with or without a BOM *)
Theorem C01_utf8_roundtrip :
  forall x, forallb is_scalar x = true -> utf8_decode (utf8_encode x) = Some x.
Proof. exact utf8_roundtrip. Qed.
Print Assumptions C01_utf8_roundtrip.

Theorem C01_decode_source_bom :
  forall x, forallb is_scalar x = true ->
    decode_source (239 :: 187 :: 191 :: utf8_encode x)%N = Some x.
Proof. exact decode_source_bom. Qed.
Print Assumptions C01_decode_source_bom.

(* the character sets and separators of clean_doc_lines are those of the source *)
Theorem C01_clean_doc_lines_literals_pinned :
  get (s"DocumentationAggregator.clean_doc_lines") aggregator_strings
  = [[hash]; doc_lstrip_set; [sp]; doc_rstrip_set; [nl]; [nl]]
  /\ geti (s"DocumentationAggregator.clean_doc_lines") aggregator_ints = [0; 0; 1; 1; 1; 0; 1; 1; 1; 1].
Proof. exact (conj clean_doc_lines_literals clean_doc_lines_ints). Qed.
Print Assumptions C01_clean_doc_lines_literals_pinned.

Theorem C01_decoder_pinned : get (s"Documenter.__init__") documenter_strings = [s"utf-8-sig"].
Proof. exact documenter_literals. Qed.
Print Assumptions C01_decoder_pinned.

(* ---- tie by translation: Gen/PySource.v is regenerated from the CURRENT Python source by
   translators/py2coq.py (statement-by-statement rendering of the function into Gallina over the
   combinators of Base/PySem.v); the model function is proved equal to it for all arguments ---- *)
Theorem C01_clean_doc_lines_matches_source :
  forall lines, lines <> [] ->
    clean_doc_lines lines = PySource.DocumentationAggregator_clean_doc_lines lines.
Proof. exact clean_doc_lines_matches_source. Qed.
Print Assumptions C01_clean_doc_lines_matches_source.

Theorem C01_clean_doc_text_matches_source :
  forall text, clean_doc_text text = PySource.DocumentationAggregator_clean_doc_lines (py_split text [nl]).
Proof. exact clean_doc_text_matches_source. Qed.
Print Assumptions C01_clean_doc_text_matches_source.

Theorem C01_paragraph_matches_source :
  forall d t, para_text d t = PySource.Paragraph_build_text_string t (indent d).
Proof. exact para_text_matches_source. Qed.
Print Assumptions C01_paragraph_matches_source.
