(* Properties/C07.v -- Generated reST is structurally well formed.
   Only theorem statements; proofs are in Proofs/RstStructure.v, WriterFacts.v, PageFacts.v.
   Partial: 'parses without an error-level message' is a statement about docutils, which is not
   modelled; the harness validates it (docutils 0.23, stub directives).  What is proved is the
   block structure that reST's indentation rule gives the page: a small reader of the block
   skeleton (top_blocks: a block starts at every non-blank line in column 0; read: directive tree
   by indentation) inverts the writer on every page the pipeline produces. *)
From Coq Require Import String List.
From CMinx Require Import Base.Str Model.Parser Model.Writer Model.DocTypes Model.Aggregator
     Model.Pipeline Proofs.WriterFacts Proofs.RstStructure Proofs.PageFacts
     Base.PySem Gen.PySource Proofs.SourceMatch
     Base.PyWriterSem Gen.PyWriterSource Proofs.WriterSourceMatch
     Proofs.SourceMatch3.
Import ListNotations.

(* every entry renders to exactly one directive *)
Theorem C07_render_entry_is_dir : forall e, exists n a o b, render_entry e = Dir n a o b.
Proof. exact render_entry_is_dir. Qed.
Print Assumptions C07_render_entry_is_dir.

(* the page is the title frame followed by the body *)
Theorem C07_page_after_frame :
  forall hdrs title modname docs,
    no_nl (nth 0 hdrs []) = true -> no_nl (fst (finalize title modname docs)) = true ->
    skipn 4 (lines (render_page hdrs title modname docs))
    = body_lines hdrs (snd (finalize title modname docs)).
Proof. exact page_after_frame. Qed.
Print Assumptions C07_page_after_frame.

(* the top-level blocks of the body are, in order, one block per element: the entries are
   top-level siblings (doc texts arbitrary; names and argument values without line breaks) *)
Theorem C07_page_top_blocks :
  forall hdrs ds, forallb entry_plain ds = true ->
    preamble (body_lines hdrs ds) = [[]]
    /\ top_blocks (body_lines hdrs ds) = map (fun e => block_lines hdrs (render_entry e)) ds.
Proof. exact page_top_blocks. Qed.
Print Assumptions C07_page_top_blocks.

(* for every accepted file: module directive first, exactly one, then the entries *)
Theorem C07_pipeline_page_shape :
  forall fl trigger strip_fn strip_mac strip_mem hdrs f st title modname,
    aggregate fl trigger strip_fn strip_mac strip_mem f = Ok st ->
    let ds := snd (finalize title modname (documented st)) in
    forallb entry_plain ds = true ->
    exists mname mdoc rest,
      ds = EModule mname mdoc :: rest
      /\ top_blocks (body_lines hdrs ds)
         = block_lines hdrs (render_entry (EModule mname mdoc))
           :: map (fun e => block_lines hdrs (render_entry e)) rest
      /\ is_module_block (hd [] (top_blocks (body_lines hdrs ds))) = true
      /\ length (filter is_module_block (top_blocks (body_lines hdrs ds))) = 1.
Proof. exact pipeline_page_shape. Qed.
Print Assumptions C07_pipeline_page_shape.

(* everything an entry contributes after its heading (notes, warnings, fields, options, doc text,
   members) lies inside that entry's block: one column-0 line per block, the heading *)
Theorem C07_nested_content_owned :
  forall hdrs ds i e, forallb entry_plain ds = true -> nth_error ds i = Some e ->
    exists heading,
      nth_error (top_blocks (body_lines hdrs ds)) i
      = Some (heading :: skipn 2 (lines (elem_text hdrs 0 0 (render_entry e))) ++ [[]])
      /\ nth 1 (lines (elem_text hdrs 0 0 (render_entry e))) [] = heading
      /\ is_top heading = true
      /\ Forall not_top (skipn 2 (lines (elem_text hdrs 0 0 (render_entry e))) ++ [[]]).
Proof. exact nested_content_owned. Qed.
Print Assumptions C07_nested_content_owned.

Theorem C07_blocks_partition :
  forall hdrs ds, forallb entry_plain ds = true ->
    body_lines hdrs ds = [] :: concat (top_blocks (body_lines hdrs ds)).
Proof. exact page_blocks_partition. Qed.
Print Assumptions C07_blocks_partition.

(* the recursive reader (directive tree by indentation) inverts the writer at every depth *)
Theorem C07_read_inverts_writer :
  forall hdrs lvl d e fuel, plain e = true -> rsafe e = true ->
    length (lines (elem_text hdrs lvl d e)) <= fuel ->
    read fuel d (lines (elem_text hdrs lvl d e)) = skel_of e.
Proof. exact read_inverts_writer. Qed.
Print Assumptions C07_read_inverts_writer.

Theorem C07_read_page_body :
  forall hdrs ds fuel, forallb entry_plain ds = true ->
    forallb (fun e => rsafe (render_entry e)) ds = true ->
    length (body_lines hdrs ds) <= fuel ->
    read fuel 0 (body_lines hdrs ds) = flat_map (fun e => skel_of (render_entry e)) ds.
Proof. exact read_page_body. Qed.
Print Assumptions C07_read_page_body.

(* the premise 'argument values contain no line breaks' is needed: a value with a line break
   escapes its directive *)
Theorem C07_value_with_newline_escapes_refuted :
  ltac:(let t := type of page_top_blocks_refuted in exact t).
Proof. exact page_top_blocks_refuted. Qed.
Print Assumptions C07_value_with_newline_escapes_refuted.

(* ---- tie by translation: Gen/PySource.v is regenerated from the CURRENT Python source by
   translators/py2coq.py (statement-by-statement rendering of the function into Gallina over the
   combinators of Base/PySem.v); the model function is proved equal to it for all arguments ---- *)
Theorem C07_directive_heading_matches_source :
  forall d name args,
    dir_heading d name args
    = PySource.DirectiveHeading_build_heading_string name (indent d) (PySource.Directive_format_arguments args).
Proof. exact dir_heading_matches_source. Qed.
Print Assumptions C07_directive_heading_matches_source.

Theorem C07_paragraph_matches_source :
  forall d t, para_text d t = PySource.Paragraph_build_text_string t (indent d).
Proof. exact para_text_matches_source. Qed.
Print Assumptions C07_paragraph_matches_source.

Theorem C07_field_matches_source :
  forall d n t, field_text d n t = PySource.Field_build_field_string n t (indent d).
Proof. exact field_text_matches_source. Qed.
Print Assumptions C07_field_matches_source.

(* pywriter2coq: RSTWriter.to_text / Directive.to_text as regenerated from rstwriter.py on every run serialise the object tree of a model state to the model text *)
Theorem C07_to_text_matches :
  forall st w,
    RSTWriter_to_text (conc st w) = Some (doc_text (eff st) (w_title w) (w_body w)).
Proof. exact to_text_matches. Qed.
Print Assumptions C07_to_text_matches.

Theorem C07_str_elem_matches :
  forall st lvl d e,
    py_str_elem py_str_obj (conc_elem st lvl d e) = Some (elem_text (eff st) lvl d e).
Proof. exact str_elem_matches. Qed.
Print Assumptions C07_str_elem_matches.

Theorem C07_section_to_text_matches :
  forall st lvl title body,
    RSTWriter_to_text (mk_writer st (S lvl) title (map (conc_elem st (S lvl) 0) body))
    = Some (elem_text (eff st) lvl 0 (Sect title body)).
Proof. exact section_to_text_matches. Qed.
Print Assumptions C07_section_to_text_matches.

Theorem C07_directive_to_text_matches :
  forall st lvl d name args opts body,
    Directive_to_text (mk_directive st d name args opts (map (conc_elem st 0 (S d)) body))
    = Some (elem_text (eff st) lvl d (Dir name args opts body)).
Proof. exact directive_to_text_matches. Qed.
Print Assumptions C07_directive_to_text_matches.

(* py2coq batch 5: the rendering loop of Documenter.process_docs (dynamic dispatch over the class hierarchy as it is in documentation_types.py) regenerated from source on every run serialises to the model page *)
Theorem C07_dispatch_process_matches_source :
  forall w e,
    PySource.dispatch_process w [] e = Some (w_add w (render_entry e), after_process e).
Proof. exact dispatch_process_matches_source. Qed.
Print Assumptions C07_dispatch_process_matches_source.

Theorem C07_process_docs_renders_page :
  forall fl trigger strip_fn strip_mac strip_mem f st hdrs title module_name,
    aggregate fl trigger strip_fn strip_mac strip_mem f = Ok st ->
    option_map (fun r => doc_text hdrs (w_title (fst r)) (w_body (fst r)))
               (PySource.Documenter_process_docs_whole (winit title) (documented st) module_name [])
    = Some (render_page hdrs title module_name (documented st)).
Proof. exact process_docs_renders_page. Qed.
Print Assumptions C07_process_docs_renders_page.

Theorem C07_process_docs_to_text_matches_source :
  forall hdrs title module_name docs,
    modules_only_first docs = true ->
    exists w' docs',
      PySource.Documenter_process_docs_whole (winit title) docs module_name [] = Some (w', docs')
      /\ wstep hdrs w' (OToText []) = (w', WText (render_page hdrs title module_name docs)).
Proof. exact process_docs_to_text_matches_source. Qed.
Print Assumptions C07_process_docs_to_text_matches_source.

Theorem C07_documenter_process_matches_source :
  forall hdrs file title module_name docs,
    modules_only_first docs = true ->
    let init := PySource.Documenter_init_writer file title module_name in
    exists w' docs',
      PySource.Documenter_process_after_walk (fst (fst init)) (snd (fst init)) (snd init) docs
      = Some (w', [], docs')
      /\ wstep hdrs w' (OToText [])
         = (w', WText (render_page hdrs (effective_title file title)
                                   (effective_module file title module_name) docs)).
Proof. exact documenter_process_matches_source. Qed.
Print Assumptions C07_documenter_process_matches_source.
