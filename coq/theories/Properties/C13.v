(* Properties/C13.v -- Directory mode writes exactly one page per processed CMake file.
   Only theorem statements; proofs are in Proofs/WalkFacts.v, WalkFacts2.v.
   Model: Model/Walk.v (document over a file tree whose child order is the OS listing order),
   parametric in the exclusion matcher excl and the per-file documenter docfn. *)
From Coq Require Import String List Permutation NArith.
From CMinx Require Import Base.Str Model.Naming Model.Pipeline Model.Walk
     Gen.SourceLiterals Proofs.WalkFacts Proofs.WalkFacts2 Proofs.LiteralsMatch
     Base.PySem Gen.PySource Proofs.SourceMatch
     Base.PyWalkSem Proofs.WalkSourceMatch.
From CMinx Require Gen.PyWalkSource.
Import ListNotations.

(* the written paths are exactly the declaratively expected ones: one index.rst per processed
   directory, one <stem>.rst per non-excluded *.cmake file (case-insensitive) of a processed
   directory, sub-directories only with -r and only when kept; nothing else *)
Theorem C13_writes_exact :
  forall st hdrs docfn excl, ws_out st = true -> all_ok docfn -> excl [] true = false ->
  forall base children,
    Permutation (write_paths (document st hdrs docfn excl base (KDir children)))
                (expected_paths st excl [] children).
Proof. exact writes_exact. Qed.
Print Assumptions C13_writes_exact.

Theorem C13_nonrecursive_only_top :
  forall st excl, ws_recursive st = false -> forall children,
    expected_paths st excl [] children = expected_in_dir st excl [] children.
Proof. exact writes_exact_nonrecursive. Qed.
Print Assumptions C13_nonrecursive_only_top.

(* exactly one write per page (distinct sibling names and stems, no file with stem index) *)
Theorem C13_one_write_per_path :
  forall st hdrs docfn excl, ws_out st = true -> all_ok docfn -> excl [] true = false ->
  forall base top, tree_ok top = true ->
    NoDup (write_paths (document st hdrs docfn excl base (KDir top))).
Proof. exact write_paths_nodup. Qed.
Print Assumptions C13_one_write_per_path.

(* each page is what the per-file documenter produces for that file's bytes; only title and
   module name depend on the path *)
Theorem C13_page_is_single_file_output :
  forall st hdrs docfn excl base top p text,
    In (AWrite p text) (document st hdrs docfn excl base (KDir top)) ->
    (forall rel, p <> rel ++ [index_rst]) ->
    exists rel ch, visited st excl [] top rel ch /\ is_page_of st docfn excl base rel ch p text.
Proof. exact page_content. Qed.
Print Assumptions C13_page_is_single_file_output.

(* the hypotheses are needed: a file index.cmake collides with the directory index *)
Theorem C13_index_cmake_collides_refuted :
  ltac:(let t := type of index_cmake_collides in exact t).
Proof. exact index_cmake_collides. Qed.
Print Assumptions C13_index_cmake_collides_refuted.

(* the literals of document() / document_single_file() the model uses are those of the source *)
Theorem C13_source_literals_pinned :
  get (s"document") init_strings
  = [[]; []; cmake_ext; cmake_ext; s"toctree"; s"maxdepth"; s"/index.rst"; cmake_ext; [dot]; [dot];
     s"index.rst"; cmake_ext]
  /\ geti (s"document") init_ints = [1; 2; 1].
Proof. exact document_literals. Qed.
Print Assumptions C13_source_literals_pinned.

(* the names document() hands to the documenter for a file of the tree are those the current
   document_single_file computes (translated source) *)
Theorem C13_names_match_source :
  forall prefix sep isdir relpath basename ext_titles ext_modules,
    PySource.document_single_file_names prefix sep isdir relpath basename ext_titles ext_modules
    = header_and_module prefix sep ext_titles ext_modules (if isdir then relpath else basename).
Proof. exact single_file_names_match_source. Qed.
Print Assumptions C13_names_match_source.

(* pywalk2coq: document() as regenerated from src/cminx/__init__.py on every run (os.walk loop with
   in-place pruning, for/else, break/continue, rebinding by sorted, index construction, per-file
   loop), run on an abstract world, produces exactly the action list of the model.  names_distinct
   (no two sibling directories / files with one name) holds of every real directory. *)
Theorem C13_document_matches_source_output_outside :
  forall st hdrs docfn excl follow base kind input_file,
    kind_distinct kind = true ->
    PyWalkSource.document (PyWorld base kind None (fun _ => false)) docfn [] input_file (py_settings_of st hdrs excl follow)
    = Walk.document st hdrs docfn excl base kind.
Proof. exact document_matches_source_output_outside. Qed.
Print Assumptions C13_document_matches_source_output_outside.

(* the same with the output directory anywhere: when it lies inside the input tree at position o it is
   pruned from the walk exactly like a directory the patterns exclude (repair of F29) *)
Theorem C13_document_matches_source_no_links :
  forall st hdrs docfn excl follow base kind input_file o,
    kind_distinct kind = true -> out_consistent st o = true ->
    PyWalkSource.document (PyWorld base kind o (fun _ => false)) docfn [] input_file (py_settings_of st hdrs excl follow)
    = Walk.document st hdrs docfn (excl_with_output excl o) base kind.
Proof. exact document_matches_source_no_links. Qed.
Print Assumptions C13_document_matches_source_no_links.

(* ... and with symbolic links to directories in the tree (flagged by links): one that is not followed is
   pruned like an excluded directory (repair of F30), a followed one is an ordinary directory *)
Theorem C13_document_matches_source :
  forall st hdrs docfn excl follow base kind input_file o links,
    kind_distinct kind = true -> out_consistent st o = true ->
    PyWalkSource.document (PyWorld base kind o links) docfn [] input_file (py_settings_of st hdrs excl follow)
    = Walk.document st hdrs docfn (excl_with_output_links excl o follow links) base kind.
Proof. exact document_matches_source. Qed.
Print Assumptions C13_document_matches_source.

Theorem C13_document_single_file_matches_source :
  forall st hdrs docfn excl follow base top o links log rel ch name content sl,
    dir_at top rel = Some ch -> find_file name ch = Some content ->
    PyWalkSource.document_single_file (PyWorld base (KDir top) o links) docfn log
      (APath AInput (rel ++ [name]) false) (APath AInput [] sl) (py_settings_of st hdrs excl follow)
    = emits log (doc_actions st docfn (ws_prefix st) (rel_string (rel ++ [name])) rel name content).
Proof. exact document_single_file_matches_source. Qed.
Print Assumptions C13_document_single_file_matches_source.

Theorem C13_tree_ok_names_distinct : forall ch, tree_ok ch = true -> names_distinct ch = true.
Proof. exact tree_ok_names_distinct. Qed.
Print Assumptions C13_tree_ok_names_distinct.
